"""C04 — degree / linearity classification never under-reports.

Tie:    every observable of the degree classification of the real code
        (`_compute_degree_iterative`, `compute_degree` under the shipped threshold, a threshold of
        0 = explicit stack for every tree, a huge threshold = recursion for every tree,
        `_estimate_tree_depth`, `e.degree` read twice on a fresh object, the `_degree` slot,
        `is_linear`, `is_quadratic`, `e.is_linear()`) is compared *exactly* with the Lean model
        (`Py.degree`, `Py.degreeIter`, `Py.computeDegree T`, `Py.estimateDepth`, `Py.readMany`,
        `Py.isLinear`, `Py.isQuadratic`).
Oracle: independent of the Lean model.  If the real code reports degree d, the (d+1)-th finite
        difference of the expression along random rational lines must vanish *exactly*
        (own `fractions.Fraction` interpreter).  When the Fraction interpreter cannot evaluate the
        expression (a non-polynomial node, a non-integer power, a division by a non-constant …)
        although a finite degree was reported, the difference is taken numerically through
        `oracle.ref_eval` with a scale-aware tolerance: a non-polynomial function fails it.
Parameters × histories (oracle only): Parameters (scalar, VectorParameter elements) as exponent / coefficient /
        divisor / base / additive term of the classified expression, shallow, inside vector nodes and in deep
        chains; the expression is classified through every channel (`.degree`, `is_linear()`, `is_linear`,
        `is_quadratic`, `compute_degree`, the iterative traversal, one Problem object kept over the history as
        objective / as constraint, a fresh Problem, the sub-nodes first), then `Parameter.set` (larger integer,
        non-integer, negative, 0, 1, tiny, huge, back to the old value, every numeric type), then the SAME object
        and a freshly built one are classified again: every finite claim is judged by the same finite-difference
        oracle with the CURRENT parameter values substituted.
Element-wise vectors whose ELEMENTS DIFFER (correspondence + oracle): vector expressions built through the public API
        from a recipe — element-wise `**`, `*`, `/`, `+`, `-` (both operand orders) with ARRAY / LIST operands of every
        numeric type (per-element exponents such as `v ** [1., 3., 2.]`, `v ** [1., .5, 1.]`), hand-built operand vectors
        and the user's own element lists — so that ONE element has a higher degree / is non-polynomial, at every
        position (first … last), with uniform arithmetic and matmul wrappers on top, in every element-scanning
        consumer (c @ v, v @ c, dot in both orders, quadratic_form, VectorSum / .sum(), norms, single elements), other
        lengths and deep chains; a failing input records the recipe and is replayed through the same API calls.
Caller-owned containers × mutation histories (oracle only): VectorExpression / MatrixExpression built directly from the
        CALLER'S container (list, list subclass, object array, user Sequence, deque, tuple / generator over a list; lists of
        lists, tuple of lists, list of tuples), every scalar consumer built on it (c @ v, v @ c, LinearCombination, dot in
        both orders, QuadraticForm, sums, norms, matmul rows, wrappers, deep chains, MatrixSum) and classified through
        every channel; then the caller refills its container (item / slice assignment, clear + extend, append; one
        position or all; elements of higher degree / non-polynomial ones) or changes its coefficient arrays in place,
        and the same object, a new expression on the same vector and a second vector made from the same container are
        classified again: every finite claim is judged against the function the expression denotes AT THAT TIME (own
        interpreters over the current tree, and finite differences of what e.evaluate() returns now).
"""
from __future__ import annotations

import math
import warnings
from fractions import Fraction

import numpy as np

import core
import gen
import oracle
from ser import Ids, Ser, Unsupported, ser, deser

LEAN_MODULE = "Optyx.Props.C04"
EXTRA_MODULES = ["Optyx.Props.PinsC04", "Optyx.Props.DegreeEntryTie"]   # transcription anchors (harness/source_pins.py)
THEOREMS = [
    "Optyx.Props.C04.degree_sound",
    "Optyx.Props.C04.isLinear_affine",
    "Optyx.Props.C04.isQuadratic_deg2",
    "Optyx.Props.C04.degreeIter_eq",
    "Optyx.Props.C04.computeDegree_threshold_irrelevant",
    "Optyx.Props.C04.degree_property_cache",
    "Optyx.Props.C04.degree_sound_of_source_equations",
    "Optyx.Props.C04.source_equations_solvable",
    "Optyx.Props.DegreeTie.degree_step",
    "Optyx.Props.DegreeTie.vecDegree_step",
    "Optyx.Props.DegreeTie.step_unique",
    "Optyx.Props.DegreeTie.step_eq",
    "Optyx.Props.DegreeTie.degIterFrame_text",
    "Optyx.Props.DegreeEntryTie.isLinear_eq",
    "Optyx.Props.DegreeEntryTie.isQuadratic_eq",
    "Optyx.Props.DegreeEntryTie.computeDegree_eq",
    "Optyx.Props.DegreeEntryTie.encodeDeg_eq",
    "Optyx.Props.DegreeEntryTie.readDegree_int",
    "Optyx.Props.DegreeEntryTie.slot_roundtrip",
    "Optyx.Props.PinsC04.anchors",
]
ASSUMPTIONS = [
    "theorems are over the reals with NumAlg ℝ (pow = Real.rpow); x / Constant(0) is excluded by NoConstDivZero "
    "(ℝ totalises it to 0, NumPy gives inf/nan); float rounding is not modelled",
    "scalar constants only: array-valued Constant nodes (incl. 0-d arrays made from NumPy integer scalars) are outside "
    "the Lean syntax; the real code classifies powers with such exponents as non-polynomial (conservative)",
    "expression trees are immutable after construction (the per-node _degree cache is never invalidated by the code; that the "
    "caller cannot reach into a tree through a container it handed to VectorExpression / MatrixExpression is checked on the "
    "real code by the caller-owned-container × mutation-history family); "
    "the one mutable input, the value of a Parameter, is covered on the real code only (parameter × history family: a "
    "classification that depends on a parameter's value must still hold after Parameter.set)",
    "lru_cache of _compute_degree_cached is a transparent memo (keyed by the object itself) and is not modelled",
]


class Ser04(Ser):
    """`VectorSum(vector)` with a VectorExpression / MatrixVectorProduct operand (direct constructor) has no
    constructor in the Lean syntax (`vecSum` holds a VectorVariable): it is lowered to the LinearCombination
    with unit coefficients over the same operand — the same denotation, and `_compute_degree_impl` classifies
    both by the same element loop (a change of either branch shows up as a mismatch)."""

    def node(self, e):
        from optyx.core import vectors as V

        if isinstance(e, V.VectorSum) and not isinstance(e.vector, V.VectorVariable):
            if not hasattr(e.vector, "_expressions"):
                raise Unsupported(f"VectorSum over {type(e.vector).__name__}")
            k = len(e.vector._expressions)
            return "(lc (" + " ".join(["1"] * k) + ") " + self.vec(e.vector) + ")"
        return super().node(e)


def run_lean_unit(lines):
    return core.run_lean(lines)


# ----------------------------------------------------------------------------- exact oracle


class NotPoly(Exception):
    pass


class DivZero(Exception):
    pass


def frac_eval(e, vals):
    """value of optyx expression object `e` in exact rational arithmetic for the polynomial
    fragment; NotPoly for everything else.  Independent of optyx's own evaluate/degree code."""
    from optyx.core.expressions import BinaryOp, Constant, UnaryOp, Variable
    from optyx.core.parameters import Parameter
    from optyx.core import vectors as V
    from optyx.core import matrices as M

    def vec(v):
        if isinstance(v, V.VectorVariable):
            return [vals[x.name] for x in v._variables]
        if hasattr(v, "_expressions"):
            return [frac_eval(x, vals) for x in v._expressions]
        raise NotPoly("vector operand")

    def fixed(n):
        """a number as far as the variables are concerned: a Constant, a Parameter (its CURRENT value), or a
        compound without variables"""
        return isinstance(n, (Constant, Parameter)) or (isinstance(n, (BinaryOp, UnaryOp)) and not var_names(n))

    def num(x):
        if isinstance(x, Fraction):
            return x
        if isinstance(x, np.ndarray):
            if x.ndim != 0:
                raise NotPoly("array constant")
            x = x.item()
        if isinstance(x, (bool, np.bool_)):
            return Fraction(int(x))
        if isinstance(x, (int, np.integer)):
            return Fraction(int(x))
        xf = float(x)
        if not math.isfinite(xf):
            raise NotPoly("non-finite constant")
        return Fraction(xf)

    def int_power(k):
        k = num(k)
        if k.denominator != 1 or k < 0:
            raise NotPoly("non-integer / negative power")
        if k > 64:
            raise NotPoly("exponent too large to expand exactly")
        return int(k)

    out = []
    stack = [(e, 0)]
    while stack:
        n, ph = stack.pop()
        if isinstance(n, BinaryOp):
            if ph == 0:
                stack.append((n, 1)); stack.append((n.right, 0)); stack.append((n.left, 0))
                continue
            r = out.pop(); l = out.pop()
            if n.op == "+": out.append(l + r)
            elif n.op == "-": out.append(l - r)
            elif n.op == "*": out.append(l * r)
            elif n.op == "/":
                if not fixed(n.right):
                    raise NotPoly("division by a non-constant")
                if r == 0:
                    raise DivZero()
                out.append(l / r)
            elif n.op == "**":
                if not fixed(n.right):
                    raise NotPoly("non-constant exponent")
                out.append(l ** int_power(n.right.value if isinstance(n.right, Constant) else r))
            else:
                raise NotPoly("operator")
        elif isinstance(n, UnaryOp):
            if n.op != "neg":
                raise NotPoly(n.op)
            if ph == 0:
                stack.append((n, 1)); stack.append((n.operand, 0))
            else:
                out.append(-out.pop())
        elif isinstance(n, Constant):
            out.append(num(n.value))
        elif isinstance(n, Variable):
            out.append(vals[n.name])
        elif isinstance(n, Parameter):
            out.append(num(n.value))    # the value the parameter holds NOW
        elif isinstance(n, V.LinearCombination):
            xs = vec(n.vector)
            out.append(sum((num(c) * x for c, x in zip(np.asarray(n.coefficients).tolist(), xs)), Fraction(0)))
        elif isinstance(n, V.VectorSum):
            out.append(sum(vec(n.vector), Fraction(0)))
        elif isinstance(n, V.VectorExpressionSum):
            out.append(sum(vec(n.expression), Fraction(0)))
        elif isinstance(n, V.DotProduct):
            out.append(sum((a * b for a, b in zip(vec(n.left), vec(n.right))), Fraction(0)))
        elif isinstance(n, M.QuadraticForm):
            xs = vec(n.vector)
            Q = np.asarray(n.matrix).tolist()
            out.append(sum((num(Q[i][j]) * xs[i] * xs[j] for i in range(len(xs)) for j in range(len(xs))), Fraction(0)))
        elif isinstance(n, V.VectorPowerSum):
            k = int_power(n.power)
            out.append(sum((x ** k for x in vec(n.vector)), Fraction(0)))
        elif isinstance(n, M.MatrixSum):
            if isinstance(n.matrix, M.MatrixVariable):
                out.append(sum((vals[x.name] for row in n.matrix._variables for x in row), Fraction(0)))
            else:
                out.append(sum((frac_eval(x, vals) for row in n.matrix._expressions for x in row), Fraction(0)))
        else:
            raise NotPoly(type(n).__name__)
    return out[-1]


class NoValue(Exception):
    pass


class BuildError(Exception):
    pass


_FUN = {"abs": abs, "sin": math.sin, "cos": math.cos, "tan": math.tan, "exp": math.exp, "log": math.log, "log2": math.log2,
        "log10": math.log10, "sqrt": math.sqrt, "tanh": math.tanh, "sinh": math.sinh, "cosh": math.cosh, "asin": math.asin,
        "acos": math.acos, "atan": math.atan, "asinh": math.asinh, "acosh": math.acosh, "atanh": math.atanh}


def tame(c):
    """magnitude normalisation of a numeric constant: a non-zero value of extreme magnitude is replaced by a value
    of ordinary magnitude with the same sign (a fixed function of the value: equal constants stay equal, zero stays
    zero).  Being a polynomial of degree ≤ d does not depend on the magnitude of non-zero coefficients, but a
    float finite difference cannot see a term under a 1e-9 or 1e-300 coefficient."""
    if c == 0.0 or 1e-4 <= abs(c) <= 1e4:
        return c
    m, _ = math.frexp(abs(c))          # m in [0.5, 1)
    return math.copysign(1.0 + m, c)


def float_eval(e, vals, cmap=None):
    """own float interpreter for *all* node kinds (used where the exact interpreter meets a non-polynomial node);
    `cmap` is applied to every numeric constant / coefficient; NoValue at points outside the domain"""
    from optyx.core.expressions import BinaryOp, Constant, UnaryOp, Variable
    from optyx.core.parameters import Parameter
    from optyx.core import vectors as V
    from optyx.core import matrices as M

    cm = cmap or (lambda c: c)

    def num(x):
        if isinstance(x, np.ndarray):
            if x.ndim != 0:
                raise NoValue("array constant")
            x = x.item()
        x = float(x)
        if not math.isfinite(x):
            raise NoValue("non-finite constant")
        return cm(x)

    def vec(v):
        if isinstance(v, V.VectorVariable):
            return [vals[x.name] for x in v._variables]
        if hasattr(v, "_expressions"):
            return [float_eval(x, vals, cmap) for x in v._expressions]
        if hasattr(v, "vector") and hasattr(v, "power"):       # ElementwisePower
            return [power(a, float(v.power)) for a in vec(v.vector)]
        if hasattr(v, "vector") and hasattr(v, "op"):          # ElementwiseUnary
            return [fun(v.op, a) for a in vec(v.vector)]
        raise NoValue("vector operand")

    def pval(n, raw=False):
        """CURRENT value of a scalar Parameter"""
        a = np.asarray(n.value)
        if a.ndim != 0:
            raise NoValue("array-valued parameter")
        x = float(a)
        if not math.isfinite(x):
            raise NoValue("non-finite parameter value")
        return x if raw else cm(x)

    def fun(op, a):
        try:
            return -a if op == "neg" else _FUN[op](a)
        except (ValueError, OverflowError, ZeroDivisionError):
            raise NoValue(op)

    def power(a, b):
        try:
            if float(b).is_integer() and abs(b) <= 64:
                return float(a) ** int(b)
            if a <= 0:
                raise NoValue("power of a non-positive base")
            return math.pow(a, b)
        except (OverflowError, ZeroDivisionError, ValueError):
            raise NoValue("power")

    out = []
    stack = [(e, 0)]
    while stack:
        n, ph = stack.pop()
        if isinstance(n, BinaryOp):
            if ph == 0:
                stack.append((n, 1)); stack.append((n.right, 0)); stack.append((n.left, 0))
                continue
            r = out.pop(); l = out.pop()
            if n.op == "+": out.append(l + r)
            elif n.op == "-": out.append(l - r)
            elif n.op == "*": out.append(l * r)
            elif n.op == "/":
                if abs(r) < 1e-9:
                    raise NoValue("division")
                out.append(l / r)
            elif n.op == "**":
                # a Parameter standing as the exponent keeps its value as it is (normalising the magnitude of an
                # exponent would change the function class)
                out.append(power(l, pval(n.right, raw=True) if isinstance(n.right, Parameter) else r))
            else: raise NoValue("operator")
        elif isinstance(n, UnaryOp):
            if ph == 0:
                stack.append((n, 1)); stack.append((n.operand, 0))
            else:
                out.append(fun(n.op, out.pop()))
        elif isinstance(n, Constant):
            out.append(num(n.value))
        elif isinstance(n, Variable):
            out.append(vals[n.name])
        elif isinstance(n, Parameter):
            out.append(pval(n))
        elif isinstance(n, V.LinearCombination):
            out.append(sum(num(c) * x for c, x in zip(np.asarray(n.coefficients).tolist(), vec(n.vector))))
        elif isinstance(n, V.VectorSum):
            out.append(sum(vec(n.vector)))
        elif isinstance(n, V.VectorExpressionSum):
            out.append(sum(vec(n.expression)))
        elif isinstance(n, V.DotProduct):
            out.append(sum(a * b for a, b in zip(vec(n.left), vec(n.right))))
        elif isinstance(n, V.L2Norm):
            out.append(math.sqrt(sum(a * a for a in vec(n.vector))))
        elif isinstance(n, V.L1Norm):
            out.append(sum(abs(a) for a in vec(n.vector)))
        elif isinstance(n, M.QuadraticForm):
            xs = vec(n.vector)
            Q = np.asarray(n.matrix).tolist()
            out.append(sum(num(Q[i][j]) * xs[i] * xs[j] for i in range(len(xs)) for j in range(len(xs))))
        elif isinstance(n, V.VectorPowerSum):
            out.append(sum(power(a, float(n.power)) for a in vec(n.vector)))
        elif isinstance(n, V.VectorUnarySum):
            out.append(sum(fun(n.op, a) for a in vec(n.vector)))
        elif isinstance(n, M.MatrixSum):
            if isinstance(n.matrix, M.MatrixVariable):
                out.append(sum(vals[x.name] for row in n.matrix._variables for x in row))
            else:
                out.append(sum(float_eval(x, vals, cmap) for row in n.matrix._expressions for x in row))
        elif isinstance(n, M.FrobeniusNorm):
            out.append(math.sqrt(sum(vals[x.name] ** 2 for row in n.matrix._variables for x in row)))
        else:
            raise NoValue(type(n).__name__)
    v = out[-1]
    if not math.isfinite(v):
        raise NoValue("non-finite value")
    return v


def var_names(e):
    """names of the variables of `e`; iterative over BinaryOp/UnaryOp spines (deep chains)"""
    from optyx.core.expressions import BinaryOp, Constant, UnaryOp, Variable

    names = set()
    stack = [e]
    while stack:
        n = stack.pop()
        if isinstance(n, BinaryOp):
            stack.append(n.left); stack.append(n.right)
        elif isinstance(n, UnaryOp):
            stack.append(n.operand)
        elif isinstance(n, Variable):
            names.add(n.name)
        elif isinstance(n, Constant):
            pass
        else:
            # vector / matrix nodes: walk the operands ourselves (some node × operand combinations, e.g. VectorSum
            # over a vector expression, evaluate and classify fine but have no working get_variables())
            found = False
            for attr in ("vector", "left", "right", "expression", "matrix"):
                sub = getattr(n, attr, None)
                if sub is None or isinstance(sub, np.ndarray):
                    continue
                if hasattr(sub, "_expressions"):
                    found = True
                    ex = sub._expressions
                    for x in ex:
                        stack.extend(x if isinstance(x, (list, tuple)) else [x])
                elif hasattr(sub, "_variables"):
                    found = True
                    for x in sub._variables:
                        for v in (x if isinstance(x, (list, tuple)) else [x]):
                            names.add(v.name)
            if not found:
                names |= {v.name for v in n.get_variables()}
    return sorted(names)


def binom_diff(values):
    """Σ_j (-1)^j C(m, j) values[j] for m = len(values) - 1: the m-th forward difference"""
    m = len(values) - 1
    return sum(((-1) ** (m - j)) * math.comb(m, j) * values[j] for j in range(m + 1))


def degree_oracle(e, d, rng, lines=3):
    """None = the claim "degree ≤ d" survived; "skip:<why>"; or a failure dict"""
    names = var_names(e)
    if d > 12:
        return "skip:degree>12"
    for _ in range(lines):
        base = {n: Fraction(rng.randint(-6, 6), rng.choice([1, 2, 4])) for n in names}
        dirn = {n: Fraction(rng.randint(-3, 3), rng.choice([1, 2])) for n in names}
        if names and all(v == 0 for v in dirn.values()):
            dirn[names[0]] = Fraction(1)
        try:
            vals = [frac_eval(e, {n: base[n] + j * dirn[n] for n in names}) for j in range(d + 2)]
        except DivZero:
            return "skip:division by the literal constant 0"
        except NotPoly as ex:
            return numeric_degree_oracle(e, d, rng, str(ex))
        diff = binom_diff(vals)
        if diff != 0:
            return {"what": f"reported degree {d} but the {d + 1}-th finite difference along a rational line is not 0",
                    "base": {k: str(v) for k, v in base.items()}, "dir": {k: str(v) for k, v in dirn.items()},
                    "difference": str(diff), "mode": "exact"}
    return None


def numeric_degree_oracle(e, d, rng, why):
    """the Fraction interpreter met a non-polynomial node although a finite degree was reported: decide
    numerically whether the *function* is a polynomial of degree ≤ d along lines — as written, and with the
    magnitudes of extreme non-zero coefficients normalised (`tame`), so that a non-polynomial term under a
    1e-9 / 1e-300 coefficient is visible to a float finite difference"""
    names = var_names(e)
    if not names:
        return None  # a closed constant expression is a polynomial of degree 0 whatever its nodes
    tried = 0
    for label, cmap in (("", None), (" after normalising the magnitudes of its non-zero coefficients", tame)):
        bad = 0
        for _ in range(6):
            base = {n: rng.randint(-8, 8) / 8 + 1 / 16 for n in names}
            dirn = {n: rng.choice([-1.0, -0.5, 0.5, 1.0, 0.25]) for n in names}
            pts = [{n: base[n] + j * 0.5 * dirn[n] for n in names} for j in range(d + 2)]
            try:
                vals = [float_eval(e, pt, cmap) for pt in pts]
            except NoValue:
                continue
            tried += 1
            scale = max(1.0, max(abs(v) for v in vals)) * (2 ** (d + 1))
            if abs(binom_diff(vals)) > 1e-7 * scale:
                bad += 1
        if bad:
            return {"what": f"reported degree {d} for a function that is not a polynomial of degree ≤ {d}{label} "
                            f"(non-polynomial node: {why}); {bad} numeric finite differences are non-zero",
                    "mode": "numeric" + ("-normalised" if cmap else "")}
    if tried == 0:
        # the function has no value along any of these lines (a non-integer / negative power, a logarithm … of a
        # quantity that changes sign): lines inside the positive orthant
        for label, cmap in (("", None), (" after normalising the magnitudes of its non-zero coefficients", tame)):
            bad = 0
            for _ in range(6):
                base = {n: 0.5 + rng.randint(0, 12) / 8 for n in names}
                dirn = {n: rng.choice([1.0, 0.5, 0.25, 0.75]) for n in names}
                pts = [{n: base[n] + j * 0.5 * dirn[n] for n in names} for j in range(d + 2)]
                try:
                    vals = [float_eval(e, pt, cmap) for pt in pts]
                except NoValue:
                    continue
                tried += 1
                scale = max(1.0, max(abs(v) for v in vals)) * (2 ** (d + 1))
                if abs(binom_diff(vals)) > 1e-7 * scale:
                    bad += 1
            if bad:
                return {"what": f"reported degree {d} for a function that is not a polynomial of degree ≤ {d}{label} "
                                f"(non-polynomial node: {why}); {bad} numeric finite differences along lines in the "
                                f"positive orthant are non-zero", "mode": "numeric-positive" + ("-normalised" if cmap else "")}
    if tried == 0:
        return "skip:non-polynomial node, no regular sample point"
    return None


# ----------------------------------------------------------------------------- observations on the real code


def has_array_constant(e):
    """Constant nodes whose value is an ndarray (incl. 0-d): outside the Lean syntax"""
    from optyx.core.expressions import BinaryOp, Constant, UnaryOp

    stack = [e]
    while stack:
        n = stack.pop()
        if isinstance(n, Constant):
            if isinstance(n.value, np.ndarray) or isinstance(n.value, (bool, np.bool_)):
                return True
        elif isinstance(n, BinaryOp):
            stack += [n.left, n.right]
        elif isinstance(n, UnaryOp):
            stack.append(n.operand)
        else:
            for attr in ("vector", "left", "right", "expression"):
                sub = getattr(n, attr, None)
                if sub is not None and hasattr(sub, "_expressions"):
                    stack += list(sub._expressions)
            m = getattr(n, "matrix", None)
            if m is not None and hasattr(m, "_expressions"):
                stack += [x for row in m._expressions for x in row]
    return False


def show(d):
    return "none" if d is None else str(int(d))


def subnodes(e):
    """the sub-expression objects of `e` (root excluded) in pre-order of the *tree* walk (a shared object
    appears once per occurrence, so positions agree between the original DAG and a rebuilt tree)"""
    from optyx.core.expressions import BinaryOp, UnaryOp

    out = []
    stack = [(e, True)]
    while stack:
        n, is_root = stack.pop()
        if not is_root:
            out.append(n)
        if isinstance(n, BinaryOp):
            stack.append((n.right, False)); stack.append((n.left, False))
        elif isinstance(n, UnaryOp):
            stack.append((n.operand, False))
        else:
            kids = []
            for attr in ("vector", "left", "right", "expression"):
                sub = getattr(n, attr, None)
                if sub is not None and hasattr(sub, "_expressions"):
                    kids += list(sub._expressions)
            m = getattr(n, "matrix", None)
            if m is not None and hasattr(m, "_expressions"):
                kids += [x for row in m._expressions for x in row]
            for k in reversed(kids):
                stack.append((k, False))
    return out


def prequery(e, idxs, pre_T):
    """history: read `.degree` / `is_linear()` on the chosen sub-expression objects, deepest first, so that
    their `_degree` slots hold a degree or the -1 sentinel *before* the root is classified"""
    import optyx.analysis as A

    nodes = subnodes(e)
    old = A._RECURSION_THRESHOLD
    try:
        A._RECURSION_THRESHOLD = pre_T
        for i in sorted(set(idxs), reverse=True):
            if i < len(nodes):
                with warnings.catch_warnings():
                    warnings.simplefilter("ignore")
                    try:
                        if i % 2:
                            nodes[i].is_linear()
                        else:
                            nodes[i].degree
                    except Exception:  # noqa: BLE001  (a raising sub-node is reported when it is a root itself)
                        pass
    finally:
        A._RECURSION_THRESHOLD = old


def choose_pre(e, rng, p):
    n = len(subnodes(e))
    if n > 120:
        # deep chains: a bounded sample (each read is itself a traversal), always with the deepest objects
        k = 24
        return sorted(set(rng.sample(range(n), k)) | set(range(n - 6, n)))
    if p >= 1.0:
        return list(range(n))
    return [i for i in range(n) if rng.random() < p]


def observe(make, T, shallow, pre=None):
    """all observations on a *fresh* object made by `make()`; `pre` = (rng, probability, pre_T) populates
    the `_degree` slots of a random subset of the sub-expression objects first"""
    import optyx.analysis as A

    def grab(fn):
        try:
            with warnings.catch_warnings():
                warnings.simplefilter("ignore")
                return fn()
        except RecursionError:
            return "raise:RecursionError"
        except Exception as ex:  # noqa: BLE001
            return f"raise:{type(ex).__name__}"

    try:
        with warnings.catch_warnings():
            warnings.simplefilter("ignore")
            e = make()
    except RecursionError:
        raise
    except Exception as ex:  # noqa: BLE001
        raise BuildError(type(ex).__name__)
    pre_idx, pre_T = [], None
    if pre is not None:
        prng, p, pre_T = pre
        pre_idx = choose_pre(e, prng, p)
        prequery(e, pre_idx, pre_T)
    old = A._RECURSION_THRESHOLD
    try:
        it = grab(lambda: A._compute_degree_iterative(e))
        A._RECURSION_THRESHOLD = T
        comp = grab(lambda: A.compute_degree(e))
        depth = grab(lambda: A._estimate_tree_depth(e))
        rec = None
        if shallow:
            A._RECURSION_THRESHOLD = 10 ** 9
            rec = grab(lambda: A.compute_degree(e))
            A._RECURSION_THRESHOLD = T
        r1 = grab(lambda: e.degree)
        slot = getattr(e, "_degree", "missing")
        r2 = grab(lambda: e.degree)
        lin = grab(lambda: A.is_linear(e))
        quad = grab(lambda: A.is_quadratic(e))
        lin2 = grab(lambda: e.is_linear())
    finally:
        A._RECURSION_THRESHOLD = old
    return {"e": e, "iter": it, "compute": comp, "depth": depth, "rec": rec, "reads": [r1, r2], "slot": slot,
            "lin": lin, "quad": quad, "lin_method": lin2, "pre": pre_idx, "pre_T": pre_T}


def obs_line(o):
    def s(x):
        return x if isinstance(x, str) else show(x)
    rec = o["rec"] if o["rec"] is not None else o["iter"]
    return (f"(rec {s(rec)}) (iter {s(o['iter'])}) (compute {s(o['compute'])}) (depth {o['depth']}) "
            f"(reads {s(o['reads'][0])} {s(o['reads'][1])}) (lin {str(o['lin']).lower()}) (quad {str(o['quad']).lower()})")


# ----------------------------------------------------------------------------- case generation


def atoms(U):
    from optyx.core.expressions import Constant, BinaryOp
    from optyx.core.functions import sin
    from optyx.core import vectors as V

    x, y = U.scalars[0], U.scalars[1]
    return [
        ("K0", lambda: Constant(0.0)), ("K2", lambda: Constant(2.0)), ("Ki", lambda: Constant(3)),
        ("X", lambda: x), ("Y", lambda: y), ("2X", lambda: 2.0 * x), ("X2", lambda: x ** 2), ("SINX", lambda: sin(x)),
        ("XY", lambda: x * y), ("P", lambda: U.params[0]), ("KE", lambda: Constant(2) + 3),
        ("VS", lambda: U.x.sum()), ("LC", lambda: np.array([1.0, 2.0, 0.5][:U.n] + [1.0] * max(0, U.n - 3)) @ U.x),
        ("DOT", lambda: V.DotProduct(U.x, U.y)), ("PS1", lambda: V.VectorPowerSum(U.x, 1)),
        ("X/K", lambda: x / Constant(4.0)), ("NEG", lambda: -(x + 1.0)),
        # constant-valued compounds and zero-annihilated terms wherever an operand can stand
        ("X**0", lambda: x ** 0), ("0*X", lambda: 0 * x), ("SINK", lambda: sin(Constant(2.0))), ("P*2", lambda: U.params[0] * 2.0),
        ("K/K", lambda: Constant(3.0) / Constant(4.0)), ("(XY)**0", lambda: (x * y) ** 0),
    ]


EXPONENTS = [0, 1, 2, 3, 2.0, 1.0, 0.0, 2.5, -1, -2.0, 0.5, np.float64(2.0), np.float64(0.5), float(np.log(2.0)),
             np.int64(2), np.array(2.0), np.array([2.0]), True,
             # magnitudes and near-integers
             -0.0, 1e-9, 1e-300, 2.0000000000000004, 1.9999999999999998, 3.0000000000000004, 64, 65, 1e8, 1e16, -1e-9, 5e-324,
             # numeric types (NumPy scalars other than float64 become 0-d array Constants)
             np.float32(2.0), np.float16(2.0), np.uint8(2), np.int8(-1), np.uint64(3), np.bool_(True), False, np.float64(-0.0)]


def cell_cover(rng):
    """(tag, make) pairs: one representative per decision cell of _compute_degree_impl /
    _compute_degree_iterative / _estimate_tree_depth, and pairs of interacting cells"""
    from optyx.core.expressions import BinaryOp, Constant, UnaryOp
    from optyx.core import vectors as V
    from optyx.core import matrices as M
    from optyx.core.functions import sin

    U = gen.Universe(rng)
    n = U.n
    at = atoms(U)
    out = []
    out += [("leaf:const", lambda: Constant(1.5)), ("leaf:const-int", lambda: Constant(7)),
            ("leaf:ln2", lambda: Constant(np.log(2.0))), ("leaf:var", lambda: __import__("optyx").Variable("fresh")),
            ("leaf:param", lambda: __import__("optyx").Parameter("pp", 2.0))]
    for op in gen.BIN:
        for (la, l) in at:
            for (ra, r) in at:
                out.append((f"bin{op}:{la}:{ra}", (lambda l=l, r=r, op=op: BinaryOp(l(), r(), op))))
    for k in EXPONENTS:
        for (la, l) in at:
            out.append((f"pow:{type(k).__name__}:{k!r}:{la}", (lambda l=l, k=k: BinaryOp(l(), Constant(k), "**"))))
    for (la, l) in at:  # non-Constant exponents
        out.append((f"powexpr:{la}", (lambda l=l: BinaryOp(l(), Constant(1) + 1, "**"))))
        out.append((f"powvar:{la}", (lambda l=l: BinaryOp(l(), U.scalars[1], "**"))))
    for op in gen.UNARY:
        for (la, a) in at:
            out.append((f"un:{op}:{la}", (lambda a=a, op=op: UnaryOp(a(), op))))
    # vector nodes × operand kinds
    cs = np.array([2.0, -1.0, 0.5][:n] + [1.0] * max(0, n - 3))
    Q = np.array([[(i + 1.0) * (j - 1.0) + (0.5 if i == j else 0.0) for j in range(n)] for i in range(n)])
    views = U.vec_views()
    vexprs = [
        ("x+1", lambda: U.x + 1.0), ("x-y", lambda: U.x - U.y), ("2w", lambda: 2.0 * U.w[0:n]),
        ("sin", lambda: V.VectorExpression([sin(v) for v in U.x])),
        ("consts", lambda: V.VectorExpression([Constant(float(i)) for i in range(n)])),
        ("sq", lambda: V.VectorExpression([v ** 2 for v in U.x])),
        ("xy", lambda: V.VectorExpression([a * b for a, b in zip(U.x, U.y)])),
        ("mixed", lambda: V.VectorExpression([U.x[0], Constant(1.0), U.x[1] ** 3][:n] + [U.x[0]] * max(0, n - 3))),
        ("Qx", lambda: M.MatrixVectorProduct(Q, U.x)),
        ("param", lambda: V.VectorExpression([U.params[0] * v for v in U.x])),
    ]
    vecs = [(f"view{i}", (lambda v=v: v)) for i, v in enumerate(views)] + vexprs
    for (va, v) in vecs:
        out.append((f"lc:{va}", (lambda v=v: V.LinearCombination(cs, v()))))
        out.append((f"l2:{va}", (lambda v=v: V.L2Norm(v()))))
        out.append((f"l1:{va}", (lambda v=v: V.L1Norm(v()))))
        out.append((f"qf:{va}", (lambda v=v: M.QuadraticForm(v(), Q))))
        out.append((f"dotself:{va}", (lambda v=v: (lambda w: V.DotProduct(w, w))(v()))))
        for (vb, v2) in vecs:
            out.append((f"dot:{va}:{vb}", (lambda v=v, v2=v2: V.DotProduct(v(), v2()))))
    for i, v in enumerate(views):
        out.append((f"vs:view{i}", (lambda v=v: V.VectorSum(v))))
        for k in [0, 1, 2, 3, 2.0, 0.5, -1, 2.5, 0.0, -2.0, 7, -0.0, 1e-9, 2.0000000000000004, 1e8, np.float32(2.0), np.uint8(2), np.int64(1), True]:
            out.append((f"ps:{k!r}:view{i}", (lambda v=v, k=k: V.VectorPowerSum(v, k))))
        for op in gen.VOPS:
            out.append((f"us:{op}:view{i}", (lambda v=v, op=op: V.VectorUnarySum(v, op))))
    for (va, v) in vexprs:
        out.append((f"es:{va}", (lambda v=v: v().sum())))
    for mi, m in enumerate((U.M, U.S, U.M.T, U.S[0:2, 0:2])):
        out.append((f"msv:{mi}", (lambda m=m: m.sum())))
        out.append((f"fro:{mi}", (lambda m=m: M.FrobeniusNorm(m))))
        out.append((f"mse:{mi}", (lambda m=m: (m * 2.0).sum())))
    # vector nodes inside scalar arithmetic (delegation from the explicit-stack loop)
    for (va, v) in vecs[:4] + vexprs:
        out.append((f"mix:lc+:{va}", (lambda v=v: V.LinearCombination(cs, v()) + U.scalars[0] * 2.0)))
        out.append((f"mix:dot*:{va}", (lambda v=v: 3.0 * V.DotProduct(v(), U.y) - 1.0)))
        out.append((f"mix:qf**:{va}", (lambda v=v: BinaryOp(M.QuadraticForm(v(), Q), Constant(2), "**"))))
        out.append((f"mix:neg:{va}", (lambda v=v: -V.LinearCombination(cs, v()))))
    return out


SPECIAL_COEFS = [0.0, -0.0, 1e-300, -1e-300, 5e-324, 2.2250738585072014e-308, 1e-12, -1e-12, 1e-9, -1e-9, 9.9e-9, 1e-8, -1e-8,
                 1e-8 * (1 + 2 ** -20), 1e-8 * (1 - 2 ** -20), 1e-7, -1e-7, 1e8, -1e8, 1e16, -1e16]


def coef(rng):
    """a numeric coefficient: mostly small dyadics, sometimes an exact zero or an extreme magnitude"""
    return rng.choice(SPECIAL_COEFS) if rng.random() < 0.15 else gen.const(rng)


def magnitude_cover(rng):
    """coefficient magnitudes: every place a numeric coefficient stands (LinearCombination arrays, matmul rows,
    scalar factors and divisors, QuadraticForm entries, nested) × {0, ±1e-300, denormals, ±1e-12, ±1e-9, around 1e-8,
    ±1e-7, ±1e8, ±1e16}, with the high-degree / non-polynomial element sitting under that coefficient"""
    from optyx.core.expressions import BinaryOp, Constant
    from optyx.core import vectors as V
    from optyx.core import matrices as M
    from optyx.core.functions import sin

    U = gen.Universe(rng)
    x, y = U.scalars[0], U.scalars[1]
    y2 = U.y[0:2]
    highs = [("y3", lambda: y ** 3), ("y2", lambda: y * 2.0 * y if False else y ** 2), ("xy", lambda: x * y), ("sin", lambda: sin(y)),
             ("1/y", lambda: 1.0 / y), ("sqrt", lambda: (y + 3.0) ** 0.5), ("(x+y)4", lambda: (x + y) ** 4)]
    Q1 = np.array([[1.0, 0.5], [0.0, 2.0]])
    def forms_for(m, H, inv):
            forms = [
                ("LC[1,m]", lambda: V.LinearCombination(np.array([1.0, m]), V.VectorExpression([x, H()]))),
                ("LC[m,1]", lambda: V.LinearCombination(np.array([m, 1.0]), V.VectorExpression([H(), x]))),
                ("c@ve", lambda: np.array([2.0, m]) @ V.VectorExpression([x + 1.0, H()])),
                ("ve@c", lambda: V.VectorExpression([H(), x]) @ np.array([m, -1.0])),
                ("c@matmul", lambda: np.array([1.0, 1.0]) @ M.matmul(np.array([[1.0, m], [0.5, 0.0]]), V.VectorExpression([x, H()]))),
                ("matmul[0]", lambda: M.matmul(np.array([[1.0, m], [0.5, 0.0]]), V.VectorExpression([x, H()]))[0]),
                ("dot(matmul,y)", lambda: V.DotProduct(M.matmul(np.array([[m, 1.0], [0.0, 1.0]]), V.VectorExpression([H(), x])), y2)),
                ("QF(matmul)", lambda: M.QuadraticForm(M.matmul(np.array([[1.0, m], [0.0, 1.0]]), V.VectorExpression([x, H()])), Q1)),
                ("QF(Q=m)", lambda: M.QuadraticForm(V.VectorExpression([x, H()]), np.array([[1.0, 0.0], [0.0, m]]))),
                ("nestedLC", lambda: V.LinearCombination(np.array([1.0, 1.0]), V.VectorExpression([x, V.LinearCombination(np.array([m]), V.VectorExpression([H()]))]))),
                ("x+m*H", lambda: x + Constant(m) * H()), ("x+H*m", lambda: x + H() * m), ("-(m*H)+x", lambda: -(Constant(m) * H()) + x),
                ("(m*H+x)**2", lambda: BinaryOp(Constant(m) * H() + x, Constant(2), "**")),
                ("dot(ve[m*H])", lambda: V.DotProduct(V.VectorExpression([x, Constant(m) * H()]), y2)),
                ("VectorSum[m*H]", lambda: V.VectorSum(V.VectorExpression([x, Constant(m) * H()]))),
                ("LC[m]*k", lambda: 3.0 * V.LinearCombination(np.array([1.0, m]), V.VectorExpression([x, H()])) - y),
            ]
            if inv is not None:
                forms.append(("x+H/(1/m)", lambda: x + H() / Constant(inv)))
            return forms

    out = []
    for m in SPECIAL_COEFS:
        inv = None
        if m != 0:
            with np.errstate(all="ignore"):
                t = float(np.float64(1.0) / np.float64(m))
            inv = t if math.isfinite(t) else None
        for hn, H in highs:
            for fn, mk in forms_for(m, H, inv):
                out.append((f"mag:{fn}:{m!r}:{hn}", mk))
    return out


def typed_coef_cover(rng):
    """numeric TYPES of coefficient arrays / matrices (int, unsigned, bool, float16/32, lists, 0-d, Fortran order,
    strided) over a high-degree / non-polynomial element: a classifier that looks at the numbers must not be fooled
    by a dtype (bool False and integer 0 are exact zeros: a *lower* degree would still be sound there)"""
    from optyx.core.expressions import Constant
    from optyx.core import vectors as V
    from optyx.core import matrices as M
    from optyx.core.functions import sin

    U = gen.Universe(rng)
    x, y = U.scalars[0], U.scalars[1]
    y2 = U.y[0:2]
    highs = [("y3", lambda: y ** 3), ("sin", lambda: sin(y)), ("xy", lambda: x * y)]
    dts = [("int", lambda v: np.array([int(t) for t in v])), ("list", lambda v: [float(t) for t in v]), ("int8", lambda v: np.array(v).astype(np.int8)),
           ("uint8", lambda v: np.array(v).astype(np.uint8)), ("uint64", lambda v: np.array(v).astype(np.uint64)), ("bool", lambda v: np.array(v).astype(bool)),
           ("float16", lambda v: np.array(v).astype(np.float16)), ("float32", lambda v: np.array(v).astype(np.float32)),
           ("strided", lambda v: np.array([t for u in v for t in (u, 9.0)])[::2]), ("fortran", lambda v: np.asfortranarray(np.array(v, dtype=float)))]
    out = []
    for dn, mk in dts:
        for hn, H in highs:
            for vals in ([1, 1], [1, 0], [0, 1], [2, 3]):
                def forms(mk=mk, H=H, vals=vals):
                    mat = lambda: (np.asfortranarray(np.array([vals, [0, 1]], dtype=float)) if dn == "fortran" else
                                   ([[float(t) for t in vals], [0.0, 1.0]] if dn == "list" else np.array([vals, [0, 1]]).astype(np.asarray(mk(vals)).dtype)))
                    return [
                        ("LC", lambda: V.LinearCombination(mk(vals), V.VectorExpression([x, H()]))),
                        ("c@ve", lambda: mk(vals) @ V.VectorExpression([x + 1.0, H()])),
                        ("c@matmul", lambda: np.array([1.0, 1.0]) @ M.matmul(mat(), V.VectorExpression([x, H()]))),
                        ("QF", lambda: M.QuadraticForm(V.VectorExpression([x, H()]), mat())),
                        ("dot(matmul,y)", lambda: V.DotProduct(M.matmul(mat(), V.VectorExpression([x, H()])), y2)),
                    ]
                for fn, f in forms():
                    if _builds(f):
                        out.append((f"typed:{fn}:{dn}:{vals}:{hn}", f))
    return out


def shared_cover(rng):
    """sharing: the same compound sub-expression OBJECT at several places (shallow forms, and re-used at many levels of
    deep chains that run through the explicit-stack traversal), polynomial and non-polynomial; balanced trees"""
    from optyx.core.expressions import BinaryOp, Constant, UnaryOp
    from optyx.core import vectors as V
    from optyx.core.functions import sin

    U = gen.Universe(rng)
    x, y = U.scalars[0], U.scalars[1]
    terms = [("lin", lambda: 2.0 * x + 1.0), ("sq", lambda: x ** 2), ("sin", lambda: sin(x) * 3.0), ("xy", lambda: x * y), ("k", lambda: Constant(2) + 3),
             ("lc", lambda: np.ones(U.n) @ U.x), ("lcsq", lambda: np.ones(U.n) @ ((U.x - 1.0) ** 2)), ("dot", lambda: V.DotProduct(U.x, U.y)), ("x/y", lambda: x / y)]
    forms = [("t+t", lambda t: t + t), ("t-t", lambda t: t - t), ("t*t", lambda t: t * t), ("t*2+t", lambda t: t * 2.0 + t), ("(t+y)-(t-y)", lambda t: (t + y) - (t - y)),
             ("-(t)+t/2", lambda t: -t + t / 2.0), ("(t+1)**2-t", lambda t: (t + 1.0) ** 2 - t), ("t**0+t", lambda t: t ** 0 + t), ("k*(t+t)", lambda t: (Constant(1) + 1) * (t + t)),
             ("lc[t,t]", lambda t: np.array([1.0, -2.0]) @ V.VectorExpression([t, t])), ("dot[t..][t..]", lambda t: (lambda v: V.DotProduct(v, v))(V.VectorExpression([t, y]))),
             ("0*t+t", lambda t: 0 * t + t)]
    out = []
    for tn, mk in terms:
        for fn, f in forms:
            g = (lambda mk=mk, f=f: f(mk()))
            if _builds(g):
                out.append((f"shared:{fn}:{tn}", g))
        for d in (399, 401, 450):
            def deep(mk=mk, d=d, stride=rng.choice([7, 37, 101])):
                t = mk()
                e = t
                for i in range(d):
                    u = t if i % stride == 0 else (Constant(float(i % 3)) if i % 2 else y)
                    e = BinaryOp(e, u, "+" if i % 3 else "-") if i % 5 else BinaryOp(u, e, "+")
                return e
            out.append((f"chainshared:{d}:{tn}", deep))
    # balanced trees (depth 7..9: 128..512 leaves, far below every depth threshold but many nodes)
    for depth in (7, 9):
        for (ln, leaf) in [("lin", lambda i: (x if i % 2 else y) * float(1 + i % 3)), ("one-sq", lambda i: x ** 2 if i == 5 else y), ("one-sin", lambda i: sin(x) if i == 77 else y)]:
            def bal(depth=depth, leaf=leaf):
                level = [leaf(i) for i in range(2 ** depth)]
                j = 0
                while len(level) > 1:
                    level = [BinaryOp(level[k], level[k + 1], "+" if (j + k) % 3 else "-") for k in range(0, len(level), 2)]
                    j += 1
                return level[0]
            out.append((f"balanced:{depth}:{ln}", bal))
    return out


def vector_likes(U):
    """(name, maker) of every kind of vector-like object the API produces, length n: VectorVariable and its
    views, matrix rows / columns / diagonals, VectorExpressions of every element class (linear, constant,
    quadratic, bilinear, rational, transcendental, parametric, mixed)"""
    from optyx.core.expressions import Constant
    from optyx.core import vectors as V
    from optyx.core.functions import sin, exp

    n = U.n
    x, y, w = U.x, U.y, U.w
    out = [("x", lambda: x), ("x[::-1]", lambda: x[::-1]), ("w[1:n+1]", lambda: w[1:n + 1]), ("w[0:2n:2]", lambda: w[0:2 * n:2][:n] if len(w[0:2 * n:2]) >= n else w[0:n]),
           ("w[1:][1:3]", lambda: w[1:][1:3]), ("w[::-1][::2]", lambda: w[::-1][::2]), ("x[0:1]", lambda: x[0:1]), ("M.T[1,:]", lambda: U.M.T[1, :]),
           ("M[0:2,0:2][:,1]", lambda: U.M[0:2, 0:2][:, 1]), ("M[::-1,0]", lambda: U.M[::-1, 0]), ("M[0:2,:].T[0,:]", lambda: U.M[0:2, :].T[0, :]),
           ("Sdiag", lambda: U.S.diagonal()), ("S.T[0,:]", lambda: U.S.T[0, :]), ("len1expr", lambda: (x[0:1] - 1.0) ** 2)]
    if U.M.rows >= n or True:
        out += [("Mrow", lambda: U.M[0, :]), ("Mcol", lambda: U.M[:, 1]), ("Mdiag", lambda: U.M.diagonal()), ("Srow", lambda: U.S[1, :])]
    out += [
        ("x+1", lambda: x + 1.0), ("x-y", lambda: x - y), ("2x", lambda: 2.0 * x), ("-x", lambda: -x), ("x/2", lambda: x / 2.0),
        ("1-x", lambda: 1.0 - x), ("(x-1)**2", lambda: (x - 1.0) ** 2), ("(x+y)**3", lambda: (x + y) ** 3), ("(x+1)**1", lambda: (x + 1.0) ** 1),
        ("(x+1)**0", lambda: (x + 1.0) ** 0), ("(x+1)**0.5", lambda: (x + 1.0) ** 0.5), ("x*y", lambda: x * y), ("1/x", lambda: 1.0 / x),
        ("x/y", lambda: x / y), ("sin(x+1)", lambda: sin(x + 1.0)), ("exp(2x)", lambda: exp(2.0 * x)),
        ("consts", lambda: V.VectorExpression([Constant(float(i) - 0.5) for i in range(n)])),
        ("mixed", lambda: V.VectorExpression(([x[0], Constant(1.0), x[1] ** 3, x[0] * 2.0 + y[0]] * n)[:n])),
        ("onebad", lambda: V.VectorExpression(([x[0], x[1] + 1.0] * n)[:n - 1] + [sin(x[0])])),
        ("param", lambda: V.VectorExpression([U.params[0] * v for v in x])),
    ]
    return [(nm, mk) for nm, mk in out if _builds(mk) and _len(mk)]


def _builds(mk):
    try:
        with warnings.catch_warnings():
            warnings.simplefilter("ignore")
            mk()
        return True
    except Exception:  # noqa: BLE001
        return False


def _len(mk):
    try:
        return len(mk())
    except Exception:  # noqa: BLE001
        return None


def _positions(U, mk, L, x0):
    """every vector-operand position for the vector-like maker `mk` of length L"""
    from optyx.core.expressions import BinaryOp, Constant
    from optyx.core import vectors as V
    from optyx.core import matrices as M

    cL = np.array(([2.0, -1.0, 0.5, 3.0] * L)[:L])
    QL = np.array([[(i + 1.0) * (j - 1.0) + (0.5 if i == j else 0.0) for j in range(L)] for i in range(L)])
    xL = U.y[0:L] if L <= len(U.y) else U.w[0:L]
    return [
        ("LC", lambda: V.LinearCombination(cL, mk())), ("c@v", lambda: cL @ mk()),
        ("v@c", lambda: mk() @ cL), ("DotSelf", lambda: (lambda t: V.DotProduct(t, t))(mk())),
        ("Dot(v,v')", lambda: V.DotProduct(mk(), mk())), ("Dot(v,x)", lambda: V.DotProduct(mk(), xL)),
        ("Dot(x,v)", lambda: V.DotProduct(xL, mk())), ("x.dot(v)", lambda: xL.dot(mk())),
        ("v.dot(x)", lambda: mk().dot(xL)), ("v@x", lambda: mk() @ xL), ("QF", lambda: M.QuadraticForm(mk(), QL)),
        ("VectorSum", lambda: V.VectorSum(mk())), (".sum()", lambda: mk().sum()),
        ("vector_sum", lambda: V.vector_sum(mk())), ("L2", lambda: V.L2Norm(mk())), ("L1", lambda: V.L1Norm(mk())),
        ("elem0", lambda: mk()[0]), ("elemLast", lambda: mk()[L - 1]),
        ("2*LC+x", lambda: 2.0 * V.LinearCombination(cL, mk()) + x0),
        ("QF**2", lambda: BinaryOp(M.QuadraticForm(mk(), QL), Constant(2), "**")),
        ("-Dot/2", lambda: -(V.DotProduct(mk(), xL)) / 2.0),
    ]


def vector_operand_cover(rng):
    """every kind of vector-like object (bare, and wrapped in one / two MatrixVectorProducts of different
    shapes) in every vector-operand position of every vector node, alone and inside scalar arithmetic /
    deep chains (delegation from the explicit-stack traversal)"""
    from optyx.core.expressions import BinaryOp, Constant
    from optyx.core import vectors as V
    from optyx.core import matrices as M

    U = gen.Universe(rng)
    n = U.n
    An = np.array([[(i + 1.0) - 0.5 * j for j in range(n)] for i in range(n)])
    Bn = np.array([[1.0 if i == j else (0.5 if j == i + 1 else 0.0) for j in range(n)] for i in range(n)])
    A2 = np.array([[1.0 + j for j in range(n)], [2.0 - j for j in range(n)]])
    A1 = np.array([[2.0] + [0.0] * (n - 1)])
    wrappers = [
        ("", lambda mk: mk),
        ("A@", lambda mk: (lambda: M.matmul(An, mk()))),
        ("A2@", lambda mk: (lambda: M.matmul(A2, mk()))),
        ("A1@", lambda mk: (lambda: M.matmul(A1, mk()))),
        ("B@A@", lambda mk: (lambda: M.matmul(Bn, M.matmul(An, mk())))),
        ("A2@B@", lambda mk: (lambda: M.matmul(A2, M.matmul(Bn, mk())))),
        ("ndarray@", lambda mk: (lambda: An @ mk())),
    ]
    out = []
    x0 = U.scalars[0]
    for nm, mk0 in vector_likes(U):
        for wn, wrap in wrappers:
            mk = wrap(mk0)
            if wn and not _builds(mk):
                continue  # e.g. `ndarray @ VectorExpression` is not an API form
            L = _len(mk)
            if not L:
                continue
            positions = _positions(U, mk, L, x0)
            for pn, pm in positions:
                if _builds(pm):
                    out.append((f"vecop:{pn}:{wn}{nm}", pm))
    # delegation from the explicit-stack loop: vector nodes at the far end of deep chains
    some = [c for c in out if c[0].split(":")[1] in ("LC", "QF", "Dot(x,v)", "VectorSum") and ("A@" in c[0] or "A2@" in c[0])]
    for tag, pm in some[:: max(1, len(some) // 40)]:
        def deep(pm=pm, d=rng.choice([399, 400, 401, 450])):
            e = pm()
            for i in range(d):
                e = BinaryOp(e, Constant(float(i % 2)), "+") if i % 3 else BinaryOp(x0, e, "-")
            return e
        out.append(("chainvec:450:" + tag.split(":", 1)[1], deep))
    return out


# ----------------------------------------------------------------------------- element-wise vectors with DIFFERING elements
#
# A vector expression is a list of unrelated scalar expressions: nothing forces its elements to have the same degree, or
# to be polynomial together.  The family below builds such vectors through the public API the way a user does — as a
# RECIPE (JSON: base vector, a list of element-wise steps with their operands, a consumer) that is interpreted by
# `build_elementwise`, because which constructor / operator overload produced a vector is not visible in the built
# tree (a replay from the serialised tree would hand-build every VectorExpression).


def _ew_high(name, t, u):
    """the element that differs from its neighbours, made from the element `t` it replaces (and a second variable `u`)"""
    from optyx.core.expressions import UnaryOp
    from optyx.core.functions import sin, exp

    if name == "cube": return t ** 3
    if name == "sq": return t * t
    if name == "p2": return t ** 2
    if name == "bilin": return t * u
    if name == "p4": return (t + u) ** 4
    if name == "sin": return sin(t)
    if name == "exp": return exp(t)
    if name == "abs": return UnaryOp(t, "abs")
    if name == "inv": return 1.0 / t
    if name == "t/u": return t / u
    if name == "sqrt": return (t + 3.0) ** 0.5
    if name == "t**u": return t ** u
    if name == "var": return u
    if name == "lin": return 2.0 * t + u
    raise KeyError(name)


EW_HIGH_POLY = ["cube", "sq", "p2", "bilin", "p4"]
EW_HIGH_NONPOLY = ["sin", "exp", "abs", "inv", "t/u", "sqrt", "t**u"]
EW_ARRAY_KINDS = ["f64", "f64", "f64", "list", "list", "list", "mixedlist", "i64", "f32", "strided"]


def _ew_array(kind, vals):
    """the numeric operand in the TYPE the user hands it over"""
    if kind == "list":
        return [float(v) for v in vals]
    if kind == "mixedlist":      # python ints where the value is integral, floats elsewhere
        return [int(v) if float(v).is_integer() and i % 2 == 0 else float(v) for i, v in enumerate(vals)]
    if kind == "i64":
        if all(float(v).is_integer() for v in vals):
            return np.array([int(v) for v in vals])
        return np.array(vals, dtype=float)
    if kind == "f32":
        return np.array(vals, dtype=np.float32)
    if kind == "strided":
        return np.array([t for v in vals for t in (float(v), 9.0)])[::2]
    return np.array([float(v) for v in vals], dtype=float)


def _ew_matrix(name, L):
    if name == "A":
        return np.array([[(i + 1.0) - 0.5 * j for j in range(L)] for i in range(L)])
    if name == "B":
        return np.array([[1.0 if i == j else (0.5 if j == i + 1 else 0.0) for j in range(L)] for i in range(L)])
    if name == "A2":
        return np.array([[1.0 + j for j in range(L)], [2.0 - j for j in range(L)]])
    if name == "A1":
        return np.array([[2.0] + [0.5] * (L - 1)])
    if name == "I":
        return np.eye(L)
    if name == "P":           # reversal: row i picks element L-1-i
        return np.eye(L)[::-1].copy()
    raise KeyError(name)


def _ew_base(name, U):
    from optyx.core import vectors as V
    from optyx.core import matrices as M

    n, x, y = U.n, U.x, U.y
    if name == "x": return x
    if name == "x[::-1]": return x[::-1]
    if name == "w[1:n+1]": return U.w[1:n + 1]
    if name == "2x+1": return 2.0 * x + 1.0
    if name == "x+1": return x + 1.0
    if name == "x-y": return x - y
    if name == "-x": return -x
    if name == "1-x": return 1.0 - x
    if name == "x/2": return x / 2.0
    if name == "x*y": return x * y
    if name == "x**2": return x ** 2                      # ElementwisePower
    if name == "(x+1)**2": return (x + 1.0) ** 2
    if name == "A@x": return M.matmul(_ew_matrix("A", n), x)
    if name == "hand": return V.VectorExpression([2.0 * v + 1.0 for v in x])
    if name == "handvars": return V.VectorExpression(list(x))
    raise KeyError(name)


EW_BASES = ["x", "x[::-1]", "w[1:n+1]", "2x+1", "2x+1", "x+1", "x-y", "x-y", "-x", "1-x", "x/2", "x*y", "x**2", "(x+1)**2", "A@x", "hand", "handvars"]


def _ew_operand(spec, U, L):
    from optyx.core.expressions import Constant
    from optyx.core import vectors as V

    kind = spec[0]
    if kind == "num":
        return spec[1]
    if kind == "arr":
        return _ew_array(spec[1], spec[2])
    if kind == "vec":
        nm = spec[1]
        y = U.y
        return {"y": lambda: y, "x": lambda: U.x, "w": lambda: U.w[0:L], "y[::-1]": lambda: y[::-1], "2y": lambda: 2.0 * y,
                "y+1": lambda: y + 1.0, "y**2": lambda: y ** 2, "-y": lambda: -y}[nm]()
    if kind == "constvec":       # a hand-built vector of Constant nodes
        return V.VectorExpression([Constant(v) for v in spec[1]])
    if kind == "handvec":        # Constant(plain) everywhere, one element of another class at `pos`
        _, pos, H, plain = spec
        el = [Constant(plain) for _ in range(L)]
        el[pos] = _ew_high(H, U.y[pos % U.n], U.x[pos % U.n])
        return V.VectorExpression(el)
    if kind == "handlin":        # linear elements everywhere, one element of another class at `pos`
        _, pos, H = spec
        el = [1.5 * U.y[i % U.n] - 1.0 for i in range(L)]
        el[pos] = _ew_high(H, U.y[pos % U.n], U.x[pos % U.n])
        return V.VectorExpression(el)
    raise KeyError(kind)


def _ew_step(v, step, U):
    from optyx.core import vectors as V
    from optyx.core import matrices as M

    op = step[0]
    L = len(v)
    if op == "neg":
        return -v
    if op == "hand":             # the user's own list: one element replaced by an expression of another class
        _, pos, H = step
        el = list(v)
        el[pos] = _ew_high(H, el[pos], U.y[pos % U.n])
        return V.VectorExpression(el)
    if op == "matmul":
        return M.matmul(_ew_matrix(step[1], L), v)
    if op == "ndarray@":
        return _ew_matrix(step[1], L) @ v
    o = _ew_operand(step[1], U, L)
    if op == "+": return v + o
    if op == "r+": return o + v
    if op == "-": return v - o
    if op == "r-": return o - v
    if op == "*": return v * o
    if op == "r*": return o * v
    if op == "/": return v / o
    if op == "r/": return o / v
    if op == "**": return v ** o
    if op == "r**": return o ** v
    raise KeyError(op)


def elementwise_vector(recipe, U):
    v = _ew_base(recipe["base"], U)
    for step in recipe["steps"]:
        v = _ew_step(v, step, U)
    if not hasattr(v, "__len__") or not (hasattr(v, "_expressions") or hasattr(v, "_variables")):
        raise TypeError("not a vector")
    return v


def build_elementwise(recipe):
    """the scalar expression of a recipe, built on fresh modelling objects through the public API"""
    from optyx.core.expressions import BinaryOp, Constant

    U = gen.Universe(core.Rng(0), nvec=int(recipe["n"]))
    mk = lambda: elementwise_vector(recipe, U)
    L = len(mk())
    e = dict(_positions(U, mk, L, U.scalars[0]))[recipe["consumer"]]()
    for i in range(int(recipe.get("chain") or 0)):
        e = BinaryOp(e, Constant(float(i % 2)), "+") if i % 3 else BinaryOp(U.scalars[0], e, "-")
    return e


EW_CONSUMERS = ["LC", "c@v", "v@c", "DotSelf", "Dot(v,v')", "Dot(v,x)", "Dot(x,v)", "x.dot(v)", "v.dot(x)", "v@x", "QF", "VectorSum", ".sum()",
                "vector_sum", "L2", "L1", "elem0", "elemLast", "2*LC+x", "QF**2", "-Dot/2"]

EW_CORE_CONSUMERS = ["c@v", "v@c", "DotSelf", "Dot(v,x)", "Dot(x,v)", "QF", "VectorSum", ".sum()", "2*LC+x"]

# uniform arithmetic on top of the vector whose elements differ (every element gets the same operation)
EW_POSTS = [[], [], [], [["neg"]], [["+", ["num", 1.0]]], [["*", ["num", 2.0]]], [["r*", ["num", -3]]], [["-", ["vec", "y"]]], [["r-", ["num", 1.0]]],
            [["/", ["num", 2.0]]], [["**", ["num", 1]]], [["neg"], ["+", ["num", 1]]], [["+", ["vec", "2y"]]], [["r+", ["vec", "y"]]],
            [["*", ["num", 0.5]], ["-", ["num", 1.0]]], [["**", ["num", 2]]], [["*", ["vec", "y"]]]]
EW_WRAPS = [[], [], [], [], [["matmul", "A"]], [["matmul", "A"]], [["matmul", "A2"]], [["matmul", "B"], ["matmul", "A"]], [["matmul", "P"]],
            [["matmul", "A1"]], [["ndarray@", "A"]], [["matmul", "I"]]]
EW_POSTS2 = [[], [], [], [["neg"]], [["+", ["num", 1.0]]], [["r*", ["num", 2.0]]], [["neg"], ["+", ["num", 1.0]]]]

# (plain value, value at the special position) of an array of per-element exponents
EW_EXPONENT_PAIRS = [(1.0, 3.0), (1.0, 2.0), (2.0, 3.0), (0.0, 2.0), (0.0, 1.0), (1.0, 0.5), (2.0, 0.5), (0.0, 0.5), (1.0, -1.0), (2.0, -2.0),
                     (1.0, 2.5), (3.0, 7.0), (1.0, 4.0), (2.0, 1.5)]


def elementwise_specials(n, pos, rng):
    """(name, step) — every way ONE step makes the element at `pos` differ in degree / polynomiality from the others"""
    def arr(plain, special):
        a = [plain] * n
        a[pos] = special
        return a

    def ramp(vals):            # all different (as far as there are values), the largest at `pos`
        vals = sorted((vals * n)[:n])
        top = vals.pop()
        rng.shuffle(vals)
        return vals[:pos] + [top] + vals[pos:]

    kind = lambda: rng.choice(EW_ARRAY_KINDS)
    out = []
    for plain, sp in EW_EXPONENT_PAIRS:
        out.append((f"**arr[{plain:g}|{sp:g}]", ["**", ["arr", kind(), arr(plain, sp)]]))
    out.append(("**arr-ramp", ["**", ["arr", kind(), ramp([1.0, 2.0, 3.0, 4.0, 5.0])]]))
    out.append(("**arr-ramp-frac", ["**", ["arr", kind(), ramp([0.5, 1.0, 2.0, 1.5])]]))
    out.append(("**arr-ramp-neg", ["**", ["arr", kind(), [-v for v in ramp([0.0, 1.0, 2.0])]]]))
    for plain, sp in [(1.0, 3.0), (2, 3), (1.0, 0.5), (1, -1)]:
        out.append((f"**constvec[{plain:g}|{sp:g}]", ["**", ["constvec", arr(plain, sp)]]))
    out.append(("**vec-y", ["**", ["vec", "y"]]))
    out.append(("r**arr", ["r**", ["arr", kind(), arr(2.0, 3.0)]]))
    for op in ("*", "r*"):
        for plain, sp in [(0.0, 1.0), (1.0, 0.0), (2.0, -1.0)]:
            out.append((f"{op}arr[{plain:g}|{sp:g}]", [op, ["arr", kind(), arr(plain, sp)]]))
    out.append(("*arr-ramp", ["*", ["arr", kind(), ramp([0.0, 1.0, 2.0])]]))
    for op, pairs in (("/", [(1.0, 2.0), (1.0, 4.0), (2.0, -0.5)]), ("r/", [(0.0, 1.0), (1.0, 2.0)]),
                      ("+", [(0.0, 1.0)]), ("r+", [(1.0, -2.0)]), ("-", [(0.0, 1.0)]), ("r-", [(0.0, 1.0), (1.0, -2.0)])):
        for plain, sp in pairs:
            out.append((f"{op}arr[{plain:g}|{sp:g}]", [op, ["arr", kind(), arr(plain, sp)]]))
    # a hand-built vector operand: constants (or linear terms) everywhere, one element of another class
    for op, plain, Hs in (("*", 1.0, ["cube", "bilin", "sin", "inv", "var", "p2"]), ("*", 0.0, ["sq", "exp"]), ("r*", 2.0, ["cube", "sin", "var"]),
                          ("/", 2.0, ["var", "cube", "lin"]), ("r/", 1.0, ["var"]), ("+", 0.0, ["cube", "sin", "sq", "inv", "sqrt", "p4"]),
                          ("-", 1.0, ["p2", "abs", "t/u"]), ("r-", 0.0, ["cube", "sin", "t**u"]), ("r+", 1.0, ["bilin", "exp"])):
        for H in Hs:
            out.append((f"{op}handvec[{plain:g}|{H}]", [op, ["handvec", pos, H, plain]]))
    for op, Hs in (("+", ["cube", "sin", "bilin"]), ("-", ["sq", "inv"]), ("*", ["var", "sin"]), ("r-", ["p2", "sqrt"])):
        for H in Hs:
            out.append((f"{op}handlin[{H}]", [op, ["handlin", pos, H]]))
    # the user's own list of elements
    for H in EW_HIGH_POLY + EW_HIGH_NONPOLY:
        out.append((f"hand[{H}]", ["hand", pos, H]))
    return out


def ew_case(tag, recipe):
    def make():
        return build_elementwise(recipe)
    make.recipe = recipe
    return (tag, make)


def elementwise_cover(rng, extra=600):
    """vector expressions whose ELEMENTS DIFFER from one another in degree / polynomiality: every way one element-wise
    step produces such a vector (array / list operands of `**`, `*`, `/`, `+`, `-` in both operand orders, hand-built
    operand vectors, the user's own element lists) × the position of the odd element (first … last) × every
    element-scanning consumer; the base vector, the uniform arithmetic applied on top, the matmul wrappers and the
    numeric type of the array drawn per case; other vector lengths, two special steps, and deep chains on top."""
    out = []

    def recipe_for(n, special_steps, consumer, chain=0):
        return {"n": n, "base": rng.choice(EW_BASES), "steps": list(special_steps) + rng.choice(EW_POSTS) + rng.choice(EW_WRAPS) + rng.choice(EW_POSTS2),
                "consumer": consumer, **({"chain": chain} if chain else {})}

    def add(tag, r):
        case = ew_case(tag, r)
        if _builds(case[1]):
            out.append(case)
            return True
        return False

    n = 3
    for pos in range(n):
        for sname, step in elementwise_specials(n, pos, rng):
            # the nodes with an element loop of their own in every spelling; three of the remaining spellings per step
            for cname in EW_CORE_CONSUMERS + rng.sample([c for c in EW_CONSUMERS if c not in EW_CORE_CONSUMERS], 3):
                for _ in range(3):       # another base / post / wrap when the API refuses this combination
                    if add(f"elementwise:{sname}@{pos}:{cname}", recipe_for(n, [step], cname)):
                        break
    # other lengths (1, 2, 4, 5, 8), two special steps at different positions, deep chains
    for i in range(extra):
        n = rng.choice([1, 2, 2, 4, 4, 5, 8, 3])
        pos = rng.choice([0, n - 1, n // 2, rng.randint(0, n - 1)])
        sp = elementwise_specials(n, pos, rng)
        steps = [rng.choice(sp)[1]]
        if rng.random() < 0.4:
            steps.append(rng.choice(elementwise_specials(n, rng.randint(0, n - 1), rng))[1])
        chain = rng.choice([399, 401, 450]) if i % 20 == 0 else 0
        cname = rng.choice(EW_CONSUMERS[:16])
        add(("chainelementwise:450:" if chain else "elementwise:") + f"n={n}:{'+'.join(s[0] for s in steps)}@{pos}:{cname}", recipe_for(n, steps, cname, chain))
    return out


def chain_cases(rng, thorough):
    """deep chains around the 400 switch and the 500 cut-off of the depth estimate"""
    from optyx.core.expressions import BinaryOp, Constant, UnaryOp
    from optyx.core import vectors as V
    from optyx.core.functions import sin

    U = gen.Universe(rng)
    x, y = U.scalars[0], U.scalars[1]
    out = []
    depths = [3, 398, 399, 400, 401, 499, 500, 501, 650] + ([900, 1500] if thorough else [])

    def left_chain(d, leaf, step):
        e = leaf()
        for i in range(d):
            e = step(e, i)
        return e

    def right_chain(d, leaf, step):
        e = leaf()
        for i in range(d):
            e = step(e, i, right=True)
        return e

    def add_step(e, i, right=False):
        t = Constant(float(i % 3)) if i % 2 else x
        return BinaryOp(t, e, "+") if right else BinaryOp(e, t, "+")

    def mul_step(e, i, right=False):
        return BinaryOp(Constant(1.0), e, "*") if right else BinaryOp(e, Constant(1.0), "*")

    def neg_step(e, i, right=False):
        return UnaryOp(e, "neg")

    def mixed_step(e, i, right=False):
        k = i % 4
        if k == 0: return BinaryOp(e, y, "-") if not right else BinaryOp(y, e, "-")
        if k == 1: return UnaryOp(e, "neg")
        if k == 2: return BinaryOp(e, Constant(2.0), "/")
        return BinaryOp(e, Constant(1), "**")

    leaves = [("x", lambda: x), ("sq", lambda: x ** 2), ("sin", lambda: sin(x)),
              ("lcsq", lambda: V.LinearCombination(np.ones(U.n), U.x * U.x)), ("dot", lambda: V.DotProduct(U.x, U.y)),
              ("xy", lambda: x * y)]
    for d in depths:
        for (la, leaf) in leaves:
            out.append((f"chainL+:{d}:{la}", (lambda d=d, leaf=leaf: left_chain(d, leaf, add_step))))
            out.append((f"chainR+:{d}:{la}", (lambda d=d, leaf=leaf: right_chain(d, leaf, add_step))))
        out.append((f"chainL*:{d}", (lambda d=d: left_chain(d, lambda: x, mul_step))))
        out.append((f"chainR*:{d}", (lambda d=d: right_chain(d, lambda: x, mul_step))))
        out.append((f"chainNeg:{d}", (lambda d=d: left_chain(d, lambda: x * 2.0, neg_step))))
        out.append((f"chainMix:{d}", (lambda d=d: left_chain(d, lambda: x, mixed_step))))
        # chains grown from a term whose degree was read *before* it was reused (slot = d or the -1 sentinel)
        for (la, leaf) in leaves + [("sin3", lambda: sin(x) * 3.0), ("abs", lambda: UnaryOp(x, "abs")), ("x/y", lambda: x / y)]:
            def pre_chain(d=d, leaf=leaf, right=False):
                t = leaf()
                with warnings.catch_warnings():
                    warnings.simplefilter("ignore")
                    t.degree
                    t.is_linear()
                return (right_chain if right else left_chain)(d, lambda: t, add_step)
            out.append((f"chainPreL+:{d}:{la}", pre_chain))
            out.append((f"chainPreR+:{d}:{la}", (lambda f=pre_chain: f(right=True))))
            out.append((f"chainPreMix:{d}:{la}", (lambda d=d, leaf=leaf: (lambda t: (t.degree, left_chain(d, lambda: t, mixed_step))[1])(leaf()))))
        # the non-polynomial part sits at the far end of the right operand of the root
        out.append((f"chainLate:{d}", (lambda d=d: BinaryOp(left_chain(d, lambda: x, add_step), sin(y), "+"))))
    return out


def rand_poly(rng, U, depth):
    """random trees biased towards the polynomial fragment (most plain random trees are None)"""
    from optyx.core.expressions import BinaryOp, Constant, UnaryOp
    from optyx.core import vectors as V
    from optyx.core import matrices as M

    if depth <= 0 or rng.random() < 0.15:
        r = rng.random()
        if r < 0.55:
            return rng.choice(U.all_vars())
        if r < 0.97:
            return Constant(coef(rng))
        return rng.choice(U.params)
    r = rng.random()
    n = U.n
    if r < 0.22:
        kind = rng.choice(["lc", "lc", "vs", "dot", "qf", "ps", "es", "msv", "us", "l2"])

        def vec0():
            q = rng.random()
            if q < 0.45:
                return rng.choice(U.vec_views())
            if q < 0.6:
                v = rng.choice(U.vec_views())
                return rng.choice([lambda: v + gen.const(rng), lambda: (v - 1.0) ** rng.choice([1, 2, 3, 0.5]), lambda: 1.0 / v,
                                   lambda: v * rng.choice(U.vec_views()), lambda: -v, lambda: v - rng.choice(U.vec_views())])()
            return V.VectorExpression([rand_poly(rng, U, depth - 2) for _ in range(n)])

        def vec():
            v = vec0()
            while rng.random() < 0.3:   # wrap in (possibly nested) MatrixVectorProducts
                v = M.matmul(np.array([[coef(rng) for _ in range(len(v))] for _ in range(n)], dtype=float), v)
            return v
        if kind == "lc":
            return V.LinearCombination(np.array([coef(rng) for _ in range(n)], dtype=float), vec())
        if kind == "vs":
            return rng.choice(U.vec_views()).sum() if rng.random() < 0.5 else V.VectorSum(vec())
        if kind == "dot":
            return V.DotProduct(vec(), vec())
        if kind == "qf":
            return M.QuadraticForm(vec(), np.array([[coef(rng) for _ in range(n)] for _ in range(n)], dtype=float))
        if kind == "ps":
            return V.VectorPowerSum(rng.choice(U.vec_views()), rng.choice([0, 1, 2, 3, 2.0, 0.5, -1]))
        if kind == "es":
            return (rng.choice(U.vec_views()) + 1.0).sum()
        if kind == "msv":
            return U.M.sum()
        if kind == "us":
            return V.VectorUnarySum(rng.choice(U.vec_views()), rng.choice(gen.VOPS))
        return V.L2Norm(vec())
    if r < 0.30:
        return UnaryOp(rand_poly(rng, U, depth - 1), "neg")
    if r < 0.34:
        return UnaryOp(rand_poly(rng, U, depth - 1), rng.choice(gen.UNARY))
    op = rng.choice(["+", "+", "-", "-", "*", "*", "*", "/", "**", "**"])
    l = rand_poly(rng, U, depth - 1)
    if op == "**":
        if rng.random() < 0.9:
            return BinaryOp(l, Constant(rng.choice([0, 1, 2, 3, 2.0, 1.0, 0.0, 2, 1, 0.5, -1])), "**")
        return BinaryOp(l, rand_poly(rng, U, 1), "**")
    if op == "/":
        if rng.random() < 0.85:
            return BinaryOp(l, Constant(rng.choice([2.0, 4.0, -0.5, 1.0, 8, 0.25, 1e-9, 1e8, -1e-300])), "/")
        return BinaryOp(l, rand_poly(rng, U, 1), "/")
    if op == "*" and rng.random() < 0.6:
        k = Constant(coef(rng)) if rng.random() < 0.6 else (Constant(coef(rng)) + gen.const(rng))
        return BinaryOp(k, l, "*") if rng.random() < 0.5 else BinaryOp(l, k, "*")
    return BinaryOp(l, rand_poly(rng, U, depth - 1), op)


# ----------------------------------------------------------------------------- parameters × histories


# the values a Parameter takes over a history, by the role it plays in the expression
PARAM_POOL = {
    # as an exponent: small / larger non-negative integers, non-integers, negatives, 0 and 1, tiny
    "exp": [0, 1, 2, 3, 4, 5, 7, 0.5, 1.5, 2.5, -1, -2, -0.5, 1e-9, 1.0, 2.0],
    # as a coefficient / divisor / base / additive term: exact zero, ±1, ordinary, tiny, huge, sign flips
    "coef": [0, 1, -1, 2, 2.5, -3, 0.25, 1e-9, -1e-12, 1e8, -0.0, 3],
}
PARAM_INIT = {"exp": [1, 2, 0, 3], "coef": [0, 1, 2.5, -1]}
PARAM_KEYS = ("p", "q", "vp0", "vp1", "vp2")

# how a classification can be asked for first at a step of a history ("none": the value is only set)
PARAM_CHANNELS = ["degree", "is_linear()", "A.is_linear", "A.is_quadratic", "A.compute_degree", "A._compute_degree_iterative",
                  "problem-objective", "problem-constraint", "fresh-problem", "sub-nodes", "none"]

_PTYPES = {
    "int": lambda v: int(v), "float": lambda v: float(v), "float64": lambda v: np.float64(v), "0d": lambda v: np.array(float(v)),
    "int64": lambda v: np.int64(v), "float32": lambda v: np.float32(v), "int8": lambda v: np.int8(v),
}


def typed_value(rng, v):
    """(type name, plain float) — the numeric TYPE in which the value is handed to Parameter(...) / .set(...)"""
    v = float(v)
    names = ["float", "float", "float", "float64", "0d"]
    if v.is_integer() and abs(v) < 100 and not (v == 0 and math.copysign(1.0, v) < 0):
        names += ["int", "int", "int", "int64", "int8"]
    if float(np.float32(v)) == v:
        names.append("float32")
    return [rng.choice(names), v]


class ParamSet:
    """fresh Parameter objects p, q and a VectorParameter vp (3 elements) holding the given typed values"""

    def __init__(self, values):
        from optyx import Parameter, VectorParameter

        mk = lambda tv: _PTYPES[tv[0]](tv[1])
        self.p = Parameter("p", mk(values["p"]))
        self.q = Parameter("q", mk(values["q"]))
        self.vp = VectorParameter("vp", 3, [values[f"vp{i}"][1] for i in range(3)])
        for i in range(3):   # the constructor stores 0-d arrays; a plain number arrives through the element's set()
            if values[f"vp{i}"][0] != "0d":
                self.vp[i].set(mk(values[f"vp{i}"]))

    def apply(self, sets, whole_vector=False):
        mk = lambda tv: _PTYPES[tv[0]](tv[1])
        vkeys = [k for k in sets if k.startswith("vp")]
        if whole_vector and vkeys:
            cur = [float(np.asarray(self.vp[i].value)) for i in range(3)]
            for k in vkeys:
                cur[int(k[2])] = sets[k][1]
            self.vp.set(cur)
        for k, tv in sets.items():
            if k == "p":
                self.p.set(mk(tv))
            elif k == "q":
                self.q.set(mk(tv))
            elif not whole_vector:
                self.vp[int(k[2])].set(mk(tv))

    def now(self):
        out = {"p": self.p.value, "q": self.q.value}
        out.update({f"vp{i}": self.vp[i].value for i in range(3)})
        return {k: float(np.asarray(v)) for k, v in out.items()}


def param_forms(U):
    """(name, {parameter key: role}, build(P)) — Parameters in every position of the classified expression:
    exponent (bare, compound, of compound bases, nested powers, inside vector / matrix nodes, at the far end of
    deep chains, shared objects), coefficient / divisor (both operand orders, over linear / high-degree /
    non-polynomial terms, inside vector nodes), base, additive term; scalar Parameters and VectorParameter elements.
    Deterministic given U."""
    from optyx.core.expressions import BinaryOp, Constant, UnaryOp
    from optyx.core import vectors as V
    from optyx.core import matrices as M
    from optyx.core.functions import sin, exp

    x, y = U.scalars[0], U.scalars[1]
    X, Y = U.x, U.y
    n = U.n
    c3 = np.array(([2.0, -1.0, 0.5] * n)[:n])
    Q = np.array([[(i + 1.0) * (j - 1.0) + (0.5 if i == j else 0.0) for j in range(n)] for i in range(n)])
    A = np.array([[(i + 1.0) - 0.5 * j for j in range(n)] for i in range(n)])
    E, C = "exp", "coef"

    def ve(first):
        return V.VectorExpression(([first, y, x * 2.0 + 1.0] * n)[:n])

    def shared(t, f):
        return f(t)

    def chain(leaf, d, right=False, late=False):
        e = leaf if not late else x
        for i in range(d):
            t = Constant(float(i % 3)) if i % 2 else y
            e = BinaryOp(t, e, "+") if right else BinaryOp(e, t, "+" if i % 3 else "-")
        return BinaryOp(e, leaf, "+") if late else e

    F = [
        # ---- exponent
        ("exp:x**p", {"p": E}, lambda P: x ** P.p),
        ("exp:(x+y)**p", {"p": E}, lambda P: (x + y) ** P.p),
        ("exp:3*x**p+2*y-1", {"p": E}, lambda P: 3 * x ** P.p + 2 * y - 1),
        ("exp:(x+y)**p+4*y", {"p": E}, lambda P: (x + y) ** P.p + 4 * y),
        ("exp:(x**p)**2", {"p": E}, lambda P: (x ** P.p) ** 2),
        ("exp:(x**2)**p", {"p": E}, lambda P: (x ** 2) ** P.p),
        ("exp:(x**p)**q", {"p": E, "q": E}, lambda P: (x ** P.p) ** P.q),
        ("exp:2*x**p", {"p": E}, lambda P: 2.0 * x ** P.p),
        ("exp:x**p*2", {"p": E}, lambda P: x ** P.p * 2.0),
        ("exp:-(x**p)", {"p": E}, lambda P: -(x ** P.p)),
        ("exp:x**p/4", {"p": E}, lambda P: x ** P.p / 4.0),
        ("exp:1-x**p", {"p": E}, lambda P: 1.0 - x ** P.p),
        ("exp:t-t", {"p": E}, lambda P: shared(x ** P.p, lambda t: t - t)),
        ("exp:t+t*2", {"p": E}, lambda P: shared(x ** P.p, lambda t: t + t * 2.0)),
        ("exp:x**p+y**q", {"p": E, "q": E}, lambda P: x ** P.p + y ** P.q),
        ("exp:x**p+y**p", {"p": E}, lambda P: x ** P.p + y ** P.p),
        ("exp:x**vp0+y**vp1", {"vp0": E, "vp1": E}, lambda P: x ** P.vp[0] + y ** P.vp[1]),
        ("exp:(2x+1)**vp2", {"vp2": E}, lambda P: (2.0 * x + 1.0) ** P.vp[2]),
        ("exp:x**(p+1)", {"p": E}, lambda P: x ** (P.p + 1)),
        ("exp:x**(2*p)", {"p": E}, lambda P: x ** (2 * P.p)),
        ("exp:x**(-p)", {"p": E}, lambda P: x ** (-P.p)),
        ("exp:x**(p*q)", {"p": E, "q": E}, lambda P: x ** (P.p * P.q)),
        ("exp:x**(p/2)", {"p": E}, lambda P: x ** (P.p / 2)),
        ("exp:2**p*x", {"p": E}, lambda P: Constant(2.0) ** P.p * x),
        ("exp:x**p*y", {"p": E}, lambda P: x ** P.p * y),
        ("exp:x*x**p", {"p": E}, lambda P: x * x ** P.p),
        ("exp:x/x**p", {"p": E}, lambda P: x / x ** P.p),
        ("exp:sin(x)**p", {"p": E}, lambda P: sin(x) ** P.p),
        ("exp:(x*y)**p", {"p": E}, lambda P: (x * y) ** P.p),
        ("exp:x.x**p", {"p": E}, lambda P: V.DotProduct(X, Y) ** P.p),
        ("exp:LC[x**p]", {"p": E}, lambda P: V.LinearCombination(c3, ve(x ** P.p))),
        ("exp:c@ve[x**p]", {"p": E}, lambda P: c3 @ ve(x ** P.p)),
        ("exp:ve[x**p].sum()", {"p": E}, lambda P: ve(x ** P.p).sum()),
        ("exp:VectorSum[x**p]", {"p": E}, lambda P: V.VectorSum(ve(x ** P.p))),
        ("exp:dot(ve[x**p],Y)", {"p": E}, lambda P: V.DotProduct(ve(x ** P.p), Y)),
        ("exp:dot(Y,ve[x**p])", {"p": E}, lambda P: V.DotProduct(Y, ve(x ** P.p))),
        ("exp:QF(ve[x**p])", {"p": E}, lambda P: M.QuadraticForm(ve(x ** P.p), Q)),
        ("exp:(A@ve[x**p])[0]", {"p": E}, lambda P: M.matmul(A, ve(x ** P.p))[0]),
        ("exp:c@(A@ve[x**p])", {"p": E}, lambda P: c3 @ M.matmul(A, ve(x ** P.p))),
        ("exp:sum X[i]**vp[i]", {"vp0": E, "vp1": E, "vp2": E}, lambda P: V.VectorExpression([X[i] ** P.vp[i] for i in range(min(3, n))]).sum()),
        ("exp:(X**2 elementwise)**p", {"p": E}, lambda P: V.VectorExpression([v ** P.p for v in (X - 1.0)]).sum()),
        ("exp:2*LC[x**p]+x", {"p": E}, lambda P: 2.0 * V.LinearCombination(c3, ve(x ** P.p)) + x),
        ("exp:mse", {"p": E}, lambda P: M.MatrixSum(M.MatrixExpression([[x ** P.p, y], [x, y * 2.0]]))),
        # ---- exponent × depth (the explicit-stack traversal and the per-node slots of a deep tree)
        ("expdeep:L399", {"p": E}, lambda P: chain(x ** P.p, 399)),
        ("expdeep:L401", {"p": E}, lambda P: chain(x ** P.p, 401)),
        ("expdeep:L450", {"p": E}, lambda P: chain(x ** P.p, 450)),
        ("expdeep:R450", {"p": E}, lambda P: chain(x ** P.p, 450, right=True)),
        ("expdeep:late450", {"p": E}, lambda P: chain(x ** P.p, 450, late=True)),
        ("expdeep:L450:(x+y)**vp1", {"vp1": E}, lambda P: chain((x + y) ** P.vp[1], 450)),
        ("expdeep:L450:LC[x**p]", {"p": E}, lambda P: chain(V.LinearCombination(c3, ve(x ** P.p)), 450)),
        # ---- coefficient / divisor
        ("coef:p*x", {"p": C}, lambda P: P.p * x),
        ("coef:x*p", {"p": C}, lambda P: x * P.p),
        ("coef:p*x+q*y", {"p": C, "q": C}, lambda P: P.p * x + P.q * y),
        ("coef:p*x**2+q*x+1", {"p": C, "q": C}, lambda P: P.p * x ** 2 + P.q * x + 1),
        ("coef:x+p*y**3", {"p": C}, lambda P: x + P.p * y ** 3),
        ("coef:x+y**3*p", {"p": C}, lambda P: x + y ** 3 * P.p),
        ("coef:x+p*sin(y)", {"p": C}, lambda P: x + P.p * sin(y)),
        ("coef:x+sin(y)*p", {"p": C}, lambda P: x + sin(y) * P.p),
        ("coef:x+p*(x*y)", {"p": C}, lambda P: x + P.p * (x * y)),
        ("coef:x+p*(1/y)", {"p": C}, lambda P: x + P.p * (1.0 / y)),
        ("coef:x+p*exp(y)", {"p": C}, lambda P: x + P.p * exp(y)),
        ("coef:x+(p*q)*y**2", {"p": C, "q": C}, lambda P: x + (P.p * P.q) * y ** 2),
        ("coef:x+p*(q*y**2)", {"p": C, "q": C}, lambda P: x + P.p * (P.q * y ** 2)),
        ("coef:x+(p-q)*y**2", {"p": C, "q": C}, lambda P: x + (P.p - P.q) * y ** 2),
        ("coef:x-(p*y**2)", {"p": C}, lambda P: x - P.p * y ** 2),
        ("coef:-(p*y**2)+x", {"p": C}, lambda P: -(P.p * y ** 2) + x),
        ("coef:(p*x)**2", {"p": C}, lambda P: (P.p * x) ** 2),
        ("coef:(p*y**2+x)**2", {"p": C}, lambda P: (P.p * y ** 2 + x) ** 2),
        ("coef:y**2/p", {"p": C}, lambda P: x + y ** 2 / P.p),
        ("coef:x/p", {"p": C}, lambda P: x / P.p),
        ("coef:sum vp[i]*X[i]", {"vp0": C, "vp1": C, "vp2": C}, lambda P: V.VectorExpression([P.vp[i] * X[i] for i in range(min(3, n))]).sum()),
        ("coef:sum vp[i]*X[i]**2", {"vp0": C, "vp1": C}, lambda P: x + V.VectorExpression([P.vp[i] * X[i] ** 2 for i in range(min(3, n))]).sum()),
        ("coef:x+vp0*y**3+vp1*sin(y)", {"vp0": C, "vp1": C}, lambda P: x + P.vp[0] * y ** 3 + P.vp[1] * sin(y)),
        ("coef:LC[p*y**3]", {"p": C}, lambda P: V.LinearCombination(c3, ve(P.p * y ** 3))),
        ("coef:LC[p*sin]", {"p": C}, lambda P: V.LinearCombination(c3, ve(P.p * sin(y)))),
        ("coef:dot(ve[p*y**2],Y)", {"p": C}, lambda P: V.DotProduct(ve(P.p * y ** 2), Y)),
        ("coef:QF(ve[p*y**2])", {"p": C}, lambda P: M.QuadraticForm(ve(P.p * y ** 2), Q)),
        ("coef:x+p*dot", {"p": C}, lambda P: x + P.p * V.DotProduct(X, Y)),
        ("coef:x+p*QF", {"p": C}, lambda P: x + P.p * M.QuadraticForm(X, Q)),
        ("coef:x+p*LC", {"p": C}, lambda P: x + P.p * V.LinearCombination(c3, X)),
        ("coefdeep:L450", {"p": C}, lambda P: chain(P.p * y ** 3, 450)),
        ("coefdeep:late450", {"p": C}, lambda P: chain(P.p * sin(y), 450, late=True)),
        # ---- base of a power
        ("base:p**2*x", {"p": C}, lambda P: P.p ** 2 * x),
        ("base:(p+x)**2", {"p": C}, lambda P: (P.p + x) ** 2),
        ("base:(p*x+q)**2", {"p": C, "q": C}, lambda P: (P.p * x + P.q) ** 2),
        ("base:p**x", {"p": C}, lambda P: P.p ** x),
        ("base:p**q*x", {"p": C, "q": E}, lambda P: P.p ** P.q * x),
        ("base:(p*y**2+x)**q", {"p": C, "q": E}, lambda P: (P.p * y ** 2 + x) ** P.q),
        # ---- additive term
        ("add:x+p", {"p": C}, lambda P: x + P.p),
        ("add:p-y**2", {"p": C}, lambda P: P.p - y ** 2),
        ("add:sin(y)+p", {"p": C}, lambda P: sin(y) + P.p),
        ("add:(x+p)*q", {"p": C, "q": C}, lambda P: (x + P.p) * P.q),
        ("add:x**2+p*x+q", {"p": C, "q": C}, lambda P: x ** 2 + P.p * x + P.q),
        ("add:(x+p)**q", {"p": C, "q": E}, lambda P: (x + P.p) ** P.q),
        ("add:LC[x+p]", {"p": C}, lambda P: V.LinearCombination(c3, ve(x + P.p))),
        # ---- exponent and coefficient together
        ("mix:q*x**p", {"p": E, "q": C}, lambda P: P.q * x ** P.p),
        ("mix:(q*x+1)**p", {"p": E, "q": C}, lambda P: (P.q * x + 1.0) ** P.p),
        ("mix:x**p+q", {"p": E, "q": C}, lambda P: x ** P.p + P.q),
        ("mix:y+q*x**p", {"p": E, "q": C}, lambda P: y + P.q * x ** P.p),
        ("mix:vp0*x**vp1+vp2", {"vp0": C, "vp1": E, "vp2": C}, lambda P: P.vp[0] * x ** P.vp[1] + P.vp[2]),
        ("mix:sin(p)*x**q", {"p": C, "q": E}, lambda P: sin(P.p) * x ** P.q),
    ]
    return F


def param_histories(rng, roles, full):
    """histories of one form: [(typed values of the step, first channel, whole-vector set?)]; step 0 holds the
    values the Parameters are CREATED with (every key), later steps the values that are `set`.
    Systematic part: every initial value of the role × next values over the whole pool of the role, for each
    parameter of the form in turn, the first channel cycling; random part: 3-4 steps, values coming back
    (A → B → A), the same value set again, steps that only set, several parameters changed at one step."""
    keys = list(roles)
    out = []

    def defaults():
        v = {k: typed_value(rng, 1.0) for k in PARAM_KEYS}
        for k in keys:
            v[k] = typed_value(rng, rng.choice(PARAM_INIT[roles[k]]))
        return v

    ci = rng.randint(0, len(PARAM_CHANNELS) - 1)
    for k in keys:
        pool = PARAM_POOL[roles[k]]
        for v0 in PARAM_INIT[roles[k]]:
            nxt = [v for v in pool if float(v) != float(v0)]
            if not full:
                nxt = rng.sample(nxt, 4)
            for v1 in nxt:
                first = defaults()
                first[k] = typed_value(rng, v0)
                ch0 = PARAM_CHANNELS[ci % (len(PARAM_CHANNELS) - 1)]     # never "none" at the first step
                ci += 1
                out.append([(first, ch0, False), ({k: typed_value(rng, v1)}, rng.choice(PARAM_CHANNELS[:-1]), rng.random() < 0.3)])
    for _ in range(8 if full else 3):
        h = [(defaults(), rng.choice(PARAM_CHANNELS[:-1]), False)]
        seen = [dict(h[0][0])]
        for _ in range(rng.randint(2, 3)):
            r = rng.random()
            if r < 0.25 and len(seen) > 1:
                sets = {k: list(seen[0][k]) for k in keys}          # back to the values of the beginning
            elif r < 0.35:
                sets = {k: list(seen[-1][k]) for k in keys if k in seen[-1]} or {keys[0]: typed_value(rng, 1.0)}   # the same values again
            else:
                chosen = [k for k in keys if rng.random() < 0.6] or [rng.choice(keys)]
                sets = {k: typed_value(rng, rng.choice(PARAM_POOL[roles[k]])) for k in chosen}
            seen.append({**seen[-1], **sets})
            h.append((sets, rng.choice(PARAM_CHANNELS), rng.random() < 0.3))
        out.append(h)
    return out


def param_history_cover(rng, full=False):
    """(tag, form name, roles, history) for every form × its histories"""
    U = gen.Universe(rng)
    out = []
    for name, roles, _ in param_forms(U):
        deep = "deep" in name.split(":")[0]
        hs = param_histories(rng, roles, full and not deep)
        if deep and not full:
            hs = hs[:: max(1, len(hs) // 8)]
        for h in hs:
            out.append(("paramhist:" + name, name, roles, h))
    return out


def _read_channel(e, ch, probs):
    """one way of asking for the classification of `e`: the bound it claims (a finite degree d, 1 for "linear",
    2 for "quadratic"), or None when nothing is claimed"""
    import optyx.analysis as A
    from optyx import Problem

    if ch == "degree":
        return e.degree
    if ch == "is_linear()":
        return 1 if e.is_linear() else None
    if ch == "A.is_linear":
        return 1 if A.is_linear(e) else None
    if ch == "A.is_quadratic":
        return 2 if A.is_quadratic(e) else None
    if ch == "A.compute_degree":
        return A.compute_degree(e)
    if ch == "A._compute_degree_iterative":
        return A._compute_degree_iterative(e)
    if ch == "problem-objective":       # ONE Problem object over the whole history (the documented re-solve workflow)
        if "obj" not in probs:
            probs["obj"] = Problem().minimize(e)
        return 1 if probs["obj"]._is_linear_problem() else None
    if ch == "problem-constraint":
        if "con" not in probs:
            probs["con"] = Problem().minimize(probs["slack"]).subject_to(e <= 1)
        pr = probs["con"]
        if pr._is_linear_problem():
            return 1
        return 2 if pr._auto_select_method() == "SLSQP" else None
    if ch == "fresh-problem":
        return 1 if Problem().maximize(e)._is_linear_problem() else None
    if ch == "sub-nodes":
        prequery(e, choose_pre(e, core.Rng(len(subnodes(e))), 1.0), A._RECURSION_THRESHOLD)
        return None
    return None


def param_claims(e, first, T, probs):
    """[(channel, bound)] — the channel `first` is asked first, then every other one"""
    import optyx.analysis as A

    out = []
    old = A._RECURSION_THRESHOLD
    try:
        A._RECURSION_THRESHOLD = T
        order = [first] + [c for c in PARAM_CHANNELS if c not in (first, "none", "sub-nodes")]
        for ch in order:
            if ch == "none":
                continue
            try:
                with warnings.catch_warnings():
                    warnings.simplefilter("ignore")
                    b = _read_channel(e, ch, probs)
            except Exception as ex:  # noqa: BLE001   (a refusal claims nothing)
                out.append((ch, f"raise:{type(ex).__name__}"))
                continue
            out.append((ch, b))
    finally:
        A._RECURSION_THRESHOLD = old
    return out


def judge_param_claims(e, claims, rng):
    """the smallest claimed bound is judged against the function `e` denotes for the CURRENT parameter values
    (exact finite differences with the values substituted; numeric ones where the function is not polynomial)"""
    bounds = sorted({int(b) for _, b in claims if isinstance(b, (int, np.integer)) and not isinstance(b, bool)})
    if not bounds:
        return None
    d = bounds[0]
    r = degree_oracle(e, d, rng)
    if r is None or isinstance(r, str):
        return r
    r["claimed_by"] = [c for c, b in claims if not isinstance(b, str) and b is not None and int(b) == d]
    r["degree"] = d
    return r


def run_param_history(name, roles, history, T, rng, U=None, verbose=False):
    """play one history on the real code; returns (failure dict or None, any finite claim seen?, skipped reasons)"""
    from optyx import Variable

    U = U or gen.Universe(rng)
    if getattr(U, "_param_forms", None) is None:
        U._param_forms = {f[0]: f[2] for f in param_forms(U)}
    build = U._param_forms[name]
    P = ParamSet(history[0][0])
    skipped = []
    try:
        with warnings.catch_warnings():
            warnings.simplefilter("ignore")
            e = build(P)
    except Exception as ex:  # noqa: BLE001
        return None, False, [f"construction raised {type(ex).__name__}"]
    probs = {"slack": Variable("slack")}
    claimed = False
    for si, (sets, first, whole) in enumerate(history):
        if si > 0:
            P.apply(sets, whole)
        now = P.now()
        # the SAME object (and the same Problem objects) as at the earlier steps
        objs = [("same object", e, first, probs)]
        # … and one built now, from fresh Parameter objects holding the current values
        try:
            with warnings.catch_warnings():
                warnings.simplefilter("ignore")
                e2 = build(ParamSet({k: ["float", v] for k, v in now.items()}))
            objs.append(("freshly built", e2, first if first != "none" else "degree", {"slack": probs["slack"]}))
        except Exception as ex:  # noqa: BLE001
            skipped.append(f"construction raised {type(ex).__name__}")
        for label, obj, ch, pb in objs:
            if ch == "none":
                continue
            claims = param_claims(obj, ch, T, pb)
            for c, b in claims:
                if isinstance(b, str):
                    skipped.append(f"{c} {b}")
            if verbose:
                print(f"  step {si} [{label}] parameters now {({k: now[k] for k in roles})}: " + ", ".join(f"{c}={b}" for c, b in claims))
            r = judge_param_claims(obj, claims, rng)
            if isinstance(r, str):
                skipped.append("oracle:" + r[5:])
                claimed = True
            elif r is not None:
                try:
                    sx = ser(obj)
                except Exception:  # noqa: BLE001
                    sx = None
                r.update({"what": f"{label}, step {si} of a Parameter.set history: " + r["what"] + " (for the parameter values held now)",
                          "family": "param-history", "form": name, "roles": roles, "step": si, "object": label,
                          "parameters_now": {k: now[k] for k in roles},
                          "history": [{"values" if i == 0 else "set": s, "first": f, "whole_vector_set": w} for i, (s, f, w) in enumerate(history)],
                          "claims": [[c, b] for c, b in claims], "expr": sx if sx is None or len(sx) < 4000 else sx[:4000] + " …", "T": T})
                return r, True, skipped
            elif any(isinstance(b, (int, np.integer)) and not isinstance(b, bool) for _, b in claims):
                claimed = True
    return None, claimed, skipped


def check_param_histories(cases, rep, rng):
    """the parameter × history family: oracle only (the Lean syntax has no mutable store for degree: the model
    classifies a Parameter like the code does, independent of its value)"""
    U = gen.Universe(rng)
    for i, (tag, name, roles, history) in enumerate(cases):
        T = (400, 0, 3)[i % 3] if "deep" not in name.split(":")[0] else rng.choice([400, 400, 0])
        fail, claimed, skipped = run_param_history(name, roles, history, T, rng, U=U)
        rep.evaluations += 1
        key = tag.split(":")[0] + ":" + tag.split(":")[1]
        rep.histogram[key] = rep.histogram.get(key, 0) + 1
        for s in skipped:
            rep.skipped["paramhist:" + s] = rep.skipped.get("paramhist:" + s, 0) + 1
        if claimed:
            rep.nontrivial.add(hash((name, repr(history))))
            rep.histogram["paramhist:finite degree claimed"] = rep.histogram.get("paramhist:finite degree claimed", 0) + 1
        if fail is not None:
            fail["tag"] = tag
            n_fail = sum(1 for f in rep.oracle_failures if f.get("family") == "param-history")
            if n_fail < 40:      # one input is enough for the verdict; the count goes to the histogram
                rep.oracle_failures.append(fail)
            rep.histogram["paramhist:FAILED"] = rep.histogram.get("paramhist:FAILED", 0) + 1


def replay_param_history(f) -> bool:
    history = [(h.get("values", h.get("set")), h["first"], bool(h.get("whole_vector_set"))) for h in f["history"]]
    print(f"form {f['form']}   threshold {f['T']}   expression: {(f.get('expr') or '')[:300]}")
    fail, _, skipped = run_param_history(f["form"], f["roles"], history, int(f["T"]), core.Rng(1), U=gen.Universe(core.Rng(0)), verbose=True)
    if fail is not None:
        print("  oracle:", {k: fail[k] for k in ("what", "claimed_by", "degree", "parameters_now", "mode") if k in fail})
    return fail is None


# ----------------------------------------------------------------------------- caller-owned containers × mutation histories
#
# The expression tree is immutable ONLY IF every public constructor that takes a container of elements (VectorExpression,
# MatrixExpression) or a coefficient array (LinearCombination / c @ v, QuadraticForm, matmul) keeps the caller from
# reaching into it afterwards.  The family plays the ordinary "scratch buffer" idiom on every kind of container the caller
# may own: build the vector / matrix from the caller's container, build a scalar expression on it, classify it (so that
# every cache holds an answer), let the CALLER refill its container with elements of higher degree / non-polynomial
# elements (or change its coefficient arrays in place), classify again.  Either semantics of the constructor is fine
# (copy: value and degree both unchanged; adopt: both follow) — but a finite degree reported at any time must be
# justified by the function the expression evaluates to AT THAT TIME.  Oracle only; two independent criteria:
# the harness's own interpreters over the tree as it is now (`degree_oracle`) and finite differences of what
# `e.evaluate()` of the real code returns now (`evaluate_degree_oracle`).

ALIAS_LOW = ("aff", "shift", "scaled", "var", "const", "other", "sq")
ALIAS_HIGH = ("cube", "sin", "p5", "exp", "sq", "aff2", "xy", "dotXY", "lcsin", "cos2")
ALIAS_INIT = (("aff", "shift", "scaled"), ("var", "var", "var"), ("const", "var", "aff"), ("sq", "var", "shift"), ("other", "scaled", "const"))
ALIAS_VECTOR_CONTAINERS = ("list", "list-subclass", "object-array", "user-sequence", "deque", "tuple-of-a-list", "generator-over-a-list")
ALIAS_MATRIX_CONTAINERS = ("list-of-lists", "tuple-of-lists", "list-of-tuples", "list-of-list-subclasses")
ALIAS_OPS = ("setitem", "slice", "clear-extend", "setitem-all", "append")


def alias_elem(name, U, i):
    """element expression `name` for position i (a fresh object on every call)"""
    from optyx.core.expressions import Constant
    from optyx.core import vectors as V
    from optyx.core.functions import sin, exp, cos

    n = U.n
    xi, yi, a = U.x[i % n], U.y[i % n], U.scalars[0]
    k = float(i % 3 + 1)
    if name == "aff": return 2.0 * xi + k
    if name == "shift": return xi - 3.0
    if name == "scaled": return 0.5 * xi
    if name == "var": return xi
    if name == "const": return Constant(k)
    if name == "other": return a * 1.0
    if name == "sq": return xi ** 2
    if name == "cube": return xi ** 3
    if name == "sin": return sin(xi)
    if name == "p5": return (xi + 1.0) ** 5
    if name == "exp": return exp(xi)
    if name == "aff2": return (2.0 * xi + 1.0) ** 2 * 3.0
    if name == "xy": return xi * yi
    if name == "dotXY": return V.DotProduct(U.x, U.y) + xi
    if name == "lcsin": return np.array([1.0, 2.0]) @ V.VectorExpression([sin(yi), xi])
    if name == "cos2": return 2.0 * cos(xi + yi) - 1.0
    raise KeyError(name)


class _AliasList(list):
    pass


def _alias_user_sequence(items):
    import collections.abc

    class CallerSequence(collections.abc.Sequence):
        def __init__(self, data):
            self.data = data

        def __len__(self):
            return len(self.data)

        def __getitem__(self, i):
            return self.data[i]

    return CallerSequence(items)


class AliasBuf:
    """the caller's container of element expressions: `container` is what is handed to the constructor, `handle` is
    the mutable object the caller keeps and refills afterwards; `names` is the harness's own bookkeeping"""

    def __init__(self, kind, names, U):
        import collections

        self.kind, self.U = kind, U
        self.names = list(names)
        elems = [alias_elem(nm, U, i) for i, nm in enumerate(names)]
        self.handle = list(elems)
        if kind == "list":
            self.container = self.handle
        elif kind == "list-subclass":
            self.handle = _AliasList(elems)
            self.container = self.handle
        elif kind == "object-array":
            self.handle = np.empty(len(elems), dtype=object)
            for i, t in enumerate(elems):
                self.handle[i] = t
            self.container = self.handle
        elif kind == "user-sequence":
            self.container = _alias_user_sequence(self.handle)
        elif kind == "deque":
            self.handle = collections.deque(elems)
            self.container = self.handle
        elif kind == "tuple-of-a-list":
            self.container = tuple(self.handle)
        elif kind == "generator-over-a-list":
            self.container = (t for t in self.handle)
        else:
            raise KeyError(kind)

    def again(self):
        """the container as the caller would hand it over a second time"""
        if self.kind == "tuple-of-a-list":
            return tuple(self.handle)
        if self.kind == "generator-over-a-list":
            return (t for t in self.handle)
        return self.container

    def mutate(self, m):
        U, h = self.U, self.handle
        op = m["op"]
        if op == "restore":
            op, m = "slice", {"elems": list(m["elems"])}
        new = {int(p): nm for p, nm in zip(m.get("pos", range(len(m["elems"]))), m["elems"])}
        if op == "append":
            if hasattr(h, "append"):
                i = len(h)
                h.append(alias_elem(m["elems"][0], U, i))
                self.names.append(m["elems"][0])
            return
        if op == "setitem":
            for p, nm in new.items():
                p = p % len(h)
                h[p] = alias_elem(nm, U, p)
                self.names[p] = nm
            return
        full = list(self.names)
        for p, nm in new.items():
            full[p % len(full)] = nm
        elems = [alias_elem(nm, U, i) for i, nm in enumerate(full)]
        if op == "slice" and isinstance(h, list):
            h[:] = elems
        elif op == "clear-extend" and hasattr(h, "clear"):
            h.clear()
            h.extend(elems)
        else:                       # "setitem-all", and the fall-back of containers without slices / clear
            for i, t in enumerate(elems):
                h[i] = t
        self.names = full


class AliasMatrixBuf:
    """rows × cols caller-owned nested container for MatrixExpression; cells are refilled through the inner row objects
    (`rows[r][c] = t`) where those are mutable, whole rows are replaced through the outer one (`rows[r] = [...]`)"""

    def __init__(self, kind, names, U, cols=2):
        self.kind, self.U, self.cols = kind, U, cols
        self.names = list(names)
        elems = [alias_elem(nm, U, i) for i, nm in enumerate(names)]
        rows = [elems[i:i + cols] for i in range(0, len(elems), cols)]
        inner = {"list-of-lists": list, "tuple-of-lists": list, "list-of-tuples": tuple, "list-of-list-subclasses": _AliasList}[kind]
        rows = [inner(r) for r in rows]
        self.handle = tuple(rows) if kind == "tuple-of-lists" else rows
        self.container = self.handle

    def again(self):
        return self.container

    def mutate(self, m):
        U, h, cols = self.U, self.handle, self.cols
        op = m["op"]
        full = list(self.names)
        if op == "restore":
            full = list(m["elems"])
        else:
            for p, nm in zip(m.get("pos", range(len(m["elems"]))), m["elems"]):
                full[int(p) % len(full)] = nm
        changed = [i for i in range(len(full)) if full[i] != self.names[i]] if op != "restore" else list(range(len(full)))
        inner_mutable = not isinstance(h[0], tuple)
        outer_mutable = not isinstance(h, tuple)
        cellwise = inner_mutable and (op in ("setitem", "setitem-all", "restore") or not outer_mutable)
        if cellwise:
            for i in changed:
                h[i // cols][i % cols] = alias_elem(full[i], U, i)
        elif outer_mutable:
            for r in sorted({i // cols for i in changed}):
                row = [alias_elem(full[i], U, i) for i in range(r * cols, (r + 1) * cols)]
                if op == "slice" and inner_mutable:
                    h[r][:] = row
                else:
                    h[r] = type(h[r])(row)
        else:
            return
        self.names = full


class AliasArrays:
    """the caller's own coefficient arrays / matrices (fresh per expression), changed in place by the step "coef\""""

    def __init__(self, n):
        self.c = np.array(([2.0, -1.0, 0.5] * n)[:n])
        self.Q = np.array([[(i + 1.0) * (j - 1.0) + (0.5 if i == j else 0.0) for j in range(n)] for i in range(n)])
        self.A = np.array([[(i + 1.0) - 0.5 * j for j in range(n)] for i in range(n)])

    def mutate(self):
        n = len(self.c)
        self.c[:] = ([0.0, 3.0, -2.0] * n)[:n]
        self.Q[...] = self.Q.T * 0.5 + 2.0 * np.eye(n)
        self.A[...] = self.A[::-1].copy() * 2.0 + 1.0


def alias_consumers():
    """(name, kind, build(v, U, arr)) — scalar expressions built on the vector / matrix made from the caller's container"""
    from optyx.core.expressions import BinaryOp, Constant
    from optyx.core import vectors as V
    from optyx.core import matrices as M

    def Yn(v, U):
        """a VectorVariable of the length of v"""
        L = len(v)
        return U.y if L == U.n else (U.w[0:L] if L <= len(U.w) else None)

    def chain(e, U, d):
        y = U.scalars[1]
        for i in range(d):
            e = BinaryOp(e, Constant(float(i % 3)) if i % 2 else y, "+" if i % 3 else "-")
        return e

    return [
        ("c@v", "vector", lambda v, U, a: a.c @ v),
        ("v@c", "vector", lambda v, U, a: v @ a.c),
        ("clist@v", "vector", lambda v, U, a: v @ a.c.tolist()),
        ("LC(c,v)", "vector", lambda v, U, a: V.LinearCombination(a.c, v)),
        ("v.dot(Y)", "vector", lambda v, U, a: v.dot(Yn(v, U))),
        ("Y.dot(v)", "vector", lambda v, U, a: Yn(v, U).dot(v)),
        ("v@Y", "vector", lambda v, U, a: v @ Yn(v, U)),
        ("DotProduct(v,v)", "vector", lambda v, U, a: V.DotProduct(v, v)),
        ("QuadraticForm(v,Q)", "vector", lambda v, U, a: M.QuadraticForm(v, a.Q)),
        ("quadratic_form(v,Q)", "vector", lambda v, U, a: M.quadratic_form(v, a.Q)),
        ("v.sum()", "vector", lambda v, U, a: v.sum()),
        ("VectorSum(v)", "vector", lambda v, U, a: V.VectorSum(v)),
        ("vector_sum(v)", "vector", lambda v, U, a: V.vector_sum(v)),
        ("norm(v)**2", "vector", lambda v, U, a: V.norm(v) ** 2),
        ("norm(v,1)", "vector", lambda v, U, a: V.norm(v, 1)),
        ("(A@v)[0]", "vector", lambda v, U, a: M.matmul(a.A, v)[0]),
        ("c@(A@v)", "vector", lambda v, U, a: a.c @ M.matmul(a.A, v)),
        ("(A@v).sum()", "vector", lambda v, U, a: M.matmul(a.A, v).sum()),
        ("2*(c@v)+a", "vector", lambda v, U, a: 2.0 * (a.c @ v) + U.scalars[0]),
        ("(c@v)**2", "vector", lambda v, U, a: (a.c @ v) ** 2),
        ("-(v.dot(Y))/4", "vector", lambda v, U, a: -(v.dot(Yn(v, U))) / 4.0),
        ("a-QF(v,Q)", "vector", lambda v, U, a: U.scalars[0] - M.QuadraticForm(v, a.Q)),
        ("c@[c@v,a,v.sum()]", "vector", lambda v, U, a: np.array([1.0, -1.0, 2.0]) @ V.VectorExpression([a.c @ v, U.scalars[0], v.sum()])),
        ("deep450:c@v", "vector", lambda v, U, a: chain(a.c @ v, U, 450)),
        ("deep450:late v.sum()", "vector", lambda v, U, a: BinaryOp(chain(U.scalars[0], U, 450), v.sum(), "+")),
        # built eagerly from the elements held at construction (element-wise results, single elements): controls
        ("(v+Y).sum()", "vector", lambda v, U, a: (v + Yn(v, U)).sum()),
        ("c@(2*v)", "vector", lambda v, U, a: a.c @ (2.0 * v)),
        ("v[0]+v[-1]", "vector", lambda v, U, a: v[0] + v[-1]),
        ("MatrixSum(ME)", "matrix", lambda m, U, a: M.MatrixSum(m)),
        ("2*MatrixSum(ME)+a", "matrix", lambda m, U, a: 2.0 * M.MatrixSum(m) + U.scalars[0]),
        ("MatrixSum(ME)**2", "matrix", lambda m, U, a: M.MatrixSum(m) ** 2),
        ("flatten().sum()", "matrix", lambda m, U, a: V.VectorExpression(m.flatten()).sum()),
        ("ME[0,0]+ME[1,1]", "matrix", lambda m, U, a: m[0, 0] + m[1, 1]),
    ]


_ALIAS_CONSUMERS = None


def _alias_consumer(name):
    global _ALIAS_CONSUMERS
    if _ALIAS_CONSUMERS is None:
        _ALIAS_CONSUMERS = {c[0]: c for c in alias_consumers()}
    return _ALIAS_CONSUMERS[name]


def alias_history_cover(rng, full=False):
    """specs (JSON-able) of the family: every consumer × every container kind × refills (operation × position × new
    element, cycling so that every value of every axis occurs with every consumer) × what is asked first at each step"""
    out = []
    k = rng.randint(0, 10 ** 6)
    chans = [c for c in PARAM_CHANNELS if c != "none"]
    for cname, kind, _ in alias_consumers():
        deep = cname.startswith("deep")
        containers = ALIAS_VECTOR_CONTAINERS if kind == "vector" else ALIAS_MATRIX_CONTAINERS
        for cont in containers:
            control = cont in ("tuple-of-a-list", "generator-over-a-list")
            reps = (len(ALIAS_OPS) * 2 if full else (3 if cont in ("list", "list-subclass", "list-of-lists") else 2)) if not control else 1
            if deep:
                reps = 1 if cont != "list" else 2
            for _ in range(reps):
                k += 1
                n = (3, 3, 2, 5, 1, 4)[k % 6] if kind == "vector" else 4
                init = [ALIAS_INIT[k % len(ALIAS_INIT)][i % 3] for i in range(n)]
                op = ALIAS_OPS[k % len(ALIAS_OPS)]
                pos = [(0, n - 1, n // 2, rng.randint(0, n - 1))[(k // 2) % 4]]
                elems = [ALIAS_HIGH[(k // 3) % len(ALIAS_HIGH)]]
                if k % 7 == 0:                                   # every position refilled
                    pos = list(range(n))
                    elems = [rng.choice(ALIAS_HIGH) for _ in range(n)]
                ch0 = chans[k % len(chans)] if k % 9 else "none"  # "none": nothing was asked before the refill (control)
                steps = [{"first": ch0}, {"mutate": {"op": op, "pos": pos, "elems": elems}, "first": rng.choice(PARAM_CHANNELS)}]
                r = k % 4
                if r == 0:
                    steps.append({"mutate": {"op": "restore", "elems": list(init)}, "first": rng.choice(chans)})
                elif r == 1:
                    steps.append({"mutate": {"op": rng.choice(ALIAS_OPS[:4]), "pos": [rng.randint(0, n - 1)], "elems": [rng.choice(ALIAS_LOW + ALIAS_HIGH)]},
                                  "first": rng.choice(chans)})
                elif r == 2:
                    steps.append({"mutate": {"op": "coef"}, "first": rng.choice(chans)})
                T = rng.choice([400, 400, 0]) if deep else (400, 0, 3)[k % 3]
                out.append({"consumer": cname, "kind": kind, "container": cont, "n": n, "init": init, "steps": steps, "T": T})
    return out


def evaluate_degree_oracle(e, d, U, rng, lines=4):
    """the claim "degree ≤ d" judged by what `e.evaluate()` of the real code returns NOW: the (d+1)-th finite difference
    of the values along lines (scale-aware tolerance; lines on which the function has no finite value are left out)"""
    if d > 8:
        return None
    names = [v.name for v in U.all_vars()]
    bad, worst = 0, None
    for _ in range(lines):
        base = {n: rng.randint(-8, 8) / 8 + 1 / 16 for n in names}
        dirn = {n: rng.choice([-1.0, -0.5, 0.5, 1.0, 0.25]) for n in names}
        pts = [{n: base[n] + j * 0.5 * dirn[n] for n in names} for j in range(d + 2)]
        try:
            with warnings.catch_warnings(), np.errstate(all="ignore"):
                warnings.simplefilter("ignore")
                vals = [float(np.asarray(e.evaluate(pt))) for pt in pts]
        except Exception:  # noqa: BLE001   (no value on this line: nothing to difference)
            continue
        if not all(math.isfinite(v) for v in vals):
            continue
        scale = max(1.0, max(abs(v) for v in vals)) * (2 ** (d + 1))
        diff = abs(binom_diff(vals))
        if diff > 1e-7 * scale:
            bad += 1
            worst = worst or {"base": base, "dir": {n: 0.5 * dirn[n] for n in names}, "values": vals, "difference": diff}
    if bad:
        return {"what": f"reported degree {d} but the {d + 1}-th finite difference of the values e.evaluate() returns now is not 0 "
                        f"on {bad} of {lines} lines", "mode": "evaluate", **worst}
    return None


def run_alias_history(spec, rng, verbose=False):
    """play one history on the real code; returns (failure dict or None, any finite claim seen?, skipped reasons)"""
    from optyx import Variable
    from optyx.core import vectors as V
    from optyx.core import matrices as M

    n, kind = int(spec["n"]), spec["kind"]
    U = gen.Universe(rng, nvec=n if kind == "vector" else 3)
    _, _, consumer = _alias_consumer(spec["consumer"])
    ctor = V.VectorExpression if kind == "vector" else M.MatrixExpression
    Buf = AliasBuf if kind == "vector" else AliasMatrixBuf
    skipped = []

    def quiet(f, *a):
        with warnings.catch_warnings():
            warnings.simplefilter("ignore")
            return f(*a)

    try:
        buf = Buf(spec["container"], spec["init"], U)
        vec = quiet(ctor, buf.container)
        arr = AliasArrays(n if kind == "vector" else 3)
        e = quiet(consumer, vec, U, arr)
    except Exception as ex:  # noqa: BLE001   (the API refused the container / the operand: nothing to classify)
        return None, False, [f"construction raised {type(ex).__name__}"]
    T = int(spec["T"])
    probs = {"slack": Variable("slack")}
    claimed = False
    for si, step in enumerate(spec["steps"]):
        m = step.get("mutate")
        if m is not None:
            if m["op"] == "coef":
                arr.mutate()
            else:
                buf.mutate(m)
        first = step["first"]
        objs = [("the expression built before, same object", e, first, probs)]
        if si > 0:
            for label, mk in (("a new expression built now on the SAME vector / matrix object", lambda: consumer(vec, U, AliasArrays(len(arr.c)))),
                              ("a second vector / matrix built now from the caller's container", lambda: consumer(ctor(buf.again()), U, AliasArrays(len(arr.c))))):
                try:
                    objs.append((label, quiet(mk), first if first != "none" else "degree", {"slack": probs["slack"]}))
                except Exception as ex:  # noqa: BLE001
                    skipped.append(f"later construction raised {type(ex).__name__}")
        for label, obj, ch, pb in objs:
            if ch == "none":
                continue
            claims = param_claims(obj, ch, T, pb)
            for c, b in claims:
                if isinstance(b, str):
                    skipped.append(f"{c} {b}")
            if verbose:
                print(f"  step {si} [{label}] the caller's container holds {buf.names}: " + ", ".join(f"{c}={b}" for c, b in claims))
            bounds = sorted({int(b) for _, b in claims if isinstance(b, (int, np.integer)) and not isinstance(b, bool)})
            if not bounds:
                continue
            claimed = True
            d = bounds[0]
            r = None
            try:
                r = degree_oracle(obj, d, rng)
            except Exception as ex:  # noqa: BLE001   (the harness's interpreter cannot walk this tree state: the value oracle decides)
                skipped.append(f"oracle:tree interpreter raised {type(ex).__name__}")
            if isinstance(r, str):
                skipped.append("oracle:" + r[5:])
                r = None
            if r is None:
                r = evaluate_degree_oracle(obj, d, U, rng)
            if r is not None:
                try:
                    sx = ser(obj)
                except Exception:  # noqa: BLE001
                    sx = None
                r.update({"what": f"{label}, step {si} of a history in which the caller refills its own container: " + r["what"],
                          "family": "alias-history", "spec": spec, "step": si, "object": label, "degree": d,
                          "claimed_by": [c for c, b in claims if not isinstance(b, str) and b is not None and int(b) == d],
                          "caller_container_now": list(buf.names), "claims": [[c, b] for c, b in claims],
                          "expr": sx if sx is None or len(sx) < 4000 else sx[:4000] + " …", "T": T})
                return r, True, skipped
    return None, claimed, skipped


def check_alias_histories(specs, rep, rng):
    for spec in specs:
        fail, claimed, skipped = run_alias_history(spec, rng)
        rep.evaluations += 1
        for key in ("aliashist:" + spec["container"], "aliashist"):
            rep.histogram[key] = rep.histogram.get(key, 0) + 1
        for s in skipped:
            rep.skipped["aliashist:" + s] = rep.skipped.get("aliashist:" + s, 0) + 1
        if claimed:
            rep.nontrivial.add(hash(repr(spec)))
            rep.histogram["aliashist:finite degree claimed"] = rep.histogram.get("aliashist:finite degree claimed", 0) + 1
        if fail is not None:
            fail["tag"] = f"aliashist:{spec['consumer']}:{spec['container']}"
            if sum(1 for f in rep.oracle_failures if f.get("family") == "alias-history") < 40:
                rep.oracle_failures.append(fail)
            rep.histogram["aliashist:FAILED"] = rep.histogram.get("aliashist:FAILED", 0) + 1


def replay_alias_history(f) -> bool:
    spec = f["spec"]
    print(f"{spec['kind']} built from the caller's {spec['container']} holding {spec['init']}; expression {spec['consumer']}; threshold {spec['T']}")
    for i, s in enumerate(spec["steps"]):
        print(f"  step {i}: " + (f"caller does {s['mutate']}; " if s.get("mutate") else "") + f"first asked: {s['first']}")
    fail, _, skipped = run_alias_history(spec, core.Rng(1), verbose=True)
    if fail is not None:
        print("  oracle:", {k: fail[k] for k in ("what", "claimed_by", "degree", "caller_container_now", "mode", "difference") if k in fail})
    return fail is None


# ----------------------------------------------------------------------------- the run


def check_cases(cases, rep, rng, thorough, T_choices=(400, 0, 3)):
    """cases: (tag, make).  Runs the real code and the model on each, fills `rep`."""
    ids = Ids()
    lines, metas = [], []
    for tag, make in cases:
        T = T_choices[len(metas) % len(T_choices)] if not tag.startswith("chain") else rng.choice([400, 400, 0])
        shallow = not tag.startswith("chain")
        # history dimension: for about half of the cases some / all sub-expression objects have been asked
        # for their degree before (their slots hold d or the -1 sentinel), under a threshold of their own
        pre = None
        if rng.random() < 0.5:
            pre = (rng, rng.choice([0.25, 0.6, 1.0]), rng.choice([0, 400, 3]))
        try:
            o = observe(make, T, shallow, pre)
        except BuildError as ex:
            # the API refused to build the expression on this tree: no expression, nothing to classify
            rep.skipped[f"construction raised {ex}"] = rep.skipped.get(f"construction raised {ex}", 0) + 1
            continue
        e = o["e"]
        o["tag"], o["T"] = tag, T
        o["recipe"] = getattr(make, "recipe", None)
        try:
            s = Ser04(ids).expr(e)
            unsupported = None
        except Unsupported as ex:
            s, unsupported = None, str(ex)
        if unsupported is None and has_array_constant(e):
            unsupported = "array/bool-valued Constant"
        o["sexp"] = s
        o["unsupported"] = unsupported
        # the property oracle runs now and the expression object is dropped: later cases are then built at the
        # addresses of dead ones (object lifetime / id reuse through any id-keyed cache of the code under test)
        d0 = o["compute"]
        o["oracle"] = None
        if isinstance(d0, int) and not isinstance(d0, bool) and not any(isinstance(x, str) for x in (o["iter"], o["reads"][0], o["reads"][1])):
            if tag.startswith("chain") and not thorough and int(tag.split(":")[1]) > 450:
                o["oracle"] = degree_oracle(e, d0, rng, lines=1)
            else:
                o["oracle"] = degree_oracle(e, d0, rng)
        # consumer channel: Problem._is_linear_problem() must agree with is_linear
        o["plin"] = None
        if shallow and len(metas) % 4 == 0:
            try:
                from optyx import Problem
                with warnings.catch_warnings():
                    warnings.simplefilter("ignore")
                    o["plin"] = bool(Problem().minimize(e)._is_linear_problem())
            except Exception as ex:  # noqa: BLE001
                o["plin"] = f"raise:{type(ex).__name__}"
        o["e"] = None
        del e
        if unsupported is None:
            lines.append(f"deg {T} 2 {s}")
            metas.append(o)
        else:
            rep.skipped["correspondence:" + unsupported] = rep.skipped.get("correspondence:" + unsupported, 0) + 1
            metas.append(o)
    outs = iter(run_lean_unit(lines))
    for o in metas:
        tag = o["tag"]
        key = tag.split(":")[0]
        rep.histogram[key] = rep.histogram.get(key, 0) + 1
        rep.evaluations += 1
        if o["pre"]:
            rep.histogram["history:sub-node slots populated first"] = rep.histogram.get("history:sub-node slots populated first", 0) + 1
        hist = {"pre": o["pre"], "pre_T": o["pre_T"]} if o["pre"] else {}
        if o.get("recipe") is not None:      # how the expression was built through the API (the replay builds it the same way)
            hist["recipe"] = o["recipe"]
        impl_line = obs_line(o)
        # internal consistency of the real code: whichever traversal, first and later reads
        seen = [o["iter"], o["compute"], o["reads"][0], o["reads"][1]] + ([o["rec"]] if o["rec"] is not None else [])
        raised = [x for x in seen if isinstance(x, str)]
        d = o["compute"]
        if raised:
            rep.oracle_failures.append({"what": f"degree computation raised {raised[0]}", "expr": o["sexp"], "tag": tag, "T": o["T"], **hist})
            continue
        if any(x != d for x in seen):
            rep.oracle_failures.append({"what": "the traversals / repeated reads of the real code disagree with each other",
                                        "observed": impl_line, "expr": o["sexp"], "tag": tag, "T": o["T"], **hist})
        want_slot = -1 if d is None else d
        if o["slot"] != want_slot:
            rep.corr_mismatches.append({"what": "_degree slot after the first read", "slot": repr(o["slot"]), "expr": o["sexp"], "tag": tag})
        if o["lin"] != (d is not None and d <= 1) or o["quad"] != (d is not None and d <= 2) or o["lin_method"] != o["lin"]:
            rep.oracle_failures.append({"what": "is_linear / is_quadratic inconsistent with the reported degree",
                                        "observed": impl_line, "expr": o["sexp"], "tag": tag, "T": o["T"], **hist})
        if o["plin"] is not None and o["plin"] != o["lin"]:
            rep.oracle_failures.append({"what": "Problem._is_linear_problem() disagrees with is_linear() on the objective",
                                        "observed": impl_line, "problem_is_linear": o["plin"], "expr": o["sexp"], "tag": tag, "T": o["T"], **hist})
        if o["unsupported"] is None:
            model = next(outs)
            if model != impl_line:
                rep.corr_mismatches.append({"tag": tag, "T": o["T"], "expr": (o["sexp"] or "")[:600], "expr_full": o["sexp"], "impl": impl_line, "model": model, **hist})
        # the property oracle on the real code
        if d is not None:
            rep.nontrivial.add(hash(o["sexp"] or tag))
            rep.histogram[f"degree={min(d, 9)}{'+' if d > 9 else ''}"] = rep.histogram.get(f"degree={min(d, 9)}{'+' if d > 9 else ''}", 0) + 1
            r = o["oracle"]
            if isinstance(r, str):
                rep.skipped["oracle:" + r[5:]] = rep.skipped.get("oracle:" + r[5:], 0) + 1
            elif r is not None:
                r.update({"expr": o["sexp"], "tag": tag, "degree": d, "T": o["T"], **hist})
                rep.oracle_failures.append(r)
            elif len(rep.samples) < 8 and o["sexp"] and 30 < len(o["sexp"]) < 160 and d >= 1:
                rep.samples.append({"expr": o["sexp"], "degree": d, "T": o["T"], "model": impl_line})
        else:
            rep.histogram["degree=None"] = rep.histogram.get("degree=None", 0) + 1


def run(ctx) -> core.Report:
    rng = ctx["rng"]
    thorough = ctx["tier"] == "thorough" or ctx["escalate"]
    rep = core.Report(rule="cell cover of _compute_degree_impl / _compute_degree_iterative / _estimate_tree_depth "
                           "(every operator × operand kind, every exponent kind, every unary function, every vector "
                           "node × operand kind, vector nodes inside scalar arithmetic), every kind of vector-like object (views, "
                           "matrix rows/columns/diagonals, vector expressions of every element class, bare and wrapped in one or "
                           "two MatrixVectorProducts) × every vector-operand position, coefficient magnitudes (0, denormals, ±1e-300 … ±1e16) "
                           "in every coefficient position over high-degree / non-polynomial elements, deep chains around the 400 "
                           "switch and the 500 depth cut-off, seeded random trees biased to the polynomial fragment; "
                           "element-wise vectors whose elements differ in degree / polynomiality (array / list operands of ** * / + - in both "
                           "orders, hand-built operands and element lists; the odd element at every position; uniform arithmetic and matmul "
                           "on top) in every element-scanning consumer, built and replayed from API recipes; "
                           "Parameters in every position (exponent, coefficient, divisor, base, additive; scalar and VectorParameter "
                           "elements; shallow, in vector nodes, in deep chains) × histories classify → Parameter.set → classify the "
                           "same and a fresh object through every channel, judged for the current parameter values; "
                           "caller-owned containers (lists, subclasses, object arrays, user sequences, deques, nested lists / tuples) handed to "
                           "VectorExpression / MatrixExpression × every scalar consumer × histories classify → the caller refills its container "
                           "/ coefficient arrays → classify the same object, a new expression on the same vector and a second vector again, "
                           "judged by the function denoted at that time (tree interpreters and e.evaluate() finite differences); "
                           "thresholds 400 / 0 / 3 / 10^9; non-trivial = distinct expressions with a finite degree")
    cases = list(cell_cover(rng)) + vector_operand_cover(rng) + magnitude_cover(rng) + typed_coef_cover(rng) + shared_cover(rng) + chain_cases(rng, thorough)
    cases += elementwise_cover(rng, extra=3000 if thorough else 600)
    n_rand = 40000 if thorough else 4000
    for i in range(n_rand):
        U = gen.Universe(rng)
        depth = rng.randint(1, 6 if thorough else 5)
        if i % 4 == 3:
            cases.append(("rand", (lambda U=U, depth=depth, st=rng.getrandbits(48): gen.rand_expr(core.Rng(st), U, min(depth, 4)))))
        else:
            cases.append(("randpoly", (lambda U=U, depth=depth, st=rng.getrandbits(48): rand_poly(core.Rng(st), U, depth))))
    check_cases(cases, rep, rng, thorough)
    # Parameters inside the classified expression × histories of Parameter.set between classifications
    check_param_histories(param_history_cover(rng, full=thorough), rep, rng)
    # caller-owned containers handed to the public constructors and refilled between classifications
    check_alias_histories(alias_history_cover(rng, full=thorough), rep, rng)
    return rep


def coefficient_variants(sx):
    """S-expression variants of `sx` whose LinearCombination / QuadraticForm coefficient lists have their zeros
    (and, separately, all entries) replaced by extreme magnitudes"""
    import re
    from ser import rat

    out = []
    lists = list(re.finditer(r"\(lc \(([^()]*)\)", sx))
    if not lists:
        return out
    for special in (1e-9, -1e-300, 1e-8 * (1 - 2 ** -20), 1e8):
        sp = rat(special)

        def zeros_to(mo):
            return "(lc (" + " ".join(sp if t == "0" else t for t in mo.group(1).split()) + ")"

        def first_to(mo):
            toks = mo.group(1).split()
            return "(lc (" + " ".join([sp] + toks[1:]) + ")" if toks else mo.group(0)

        def last_to(mo):
            toks = mo.group(1).split()
            return "(lc (" + " ".join(toks[:-1] + [sp]) + ")" if toks else mo.group(0)

        for fn in (zeros_to, first_to, last_to):
            v = re.sub(r"\(lc \(([^()]*)\)", fn, sx)
            if v != sx:
                out.append(v)
    return out[:12]


def search(ctx, rep):
    """proof or correspondence broken and no failing input among this run's cases: widen —
    many more polynomial-biased random trees and the whole cell cover against the oracle only"""
    import optyx.analysis as A

    rng = core.Rng(ctx["seed"] + 104729)
    # first the expressions on which model and implementation disagreed in this run, as they are and with their
    # exactly-zero / ordinary coefficients moved to extreme magnitudes (the disagreement says *where* the code
    # changed; a failing input is usually a neighbour of it)
    pool = []
    seen_expr = set()
    for mm in rep.corr_mismatches:
        sx = mm.get("expr_full")
        if not sx or sx in seen_expr or len(seen_expr) > 400:
            continue
        seen_expr.add(sx)
        pool.append(("mismatch", (lambda sx=sx: deser(sx))))
        for v in coefficient_variants(sx):
            pool.append(("mismatch-variant", (lambda v=v: deser(v))))
    prep = core.Report()
    # (run() has played the full cross product already when the build / translation broke: other random histories here)
    check_param_histories(param_history_cover(rng, full=not ctx.get("escalate")), prep, rng)
    if prep.oracle_failures:
        return prep.oracle_failures[0]
    check_alias_histories(alias_history_cover(rng, full=True), prep, rng)
    if prep.oracle_failures:
        return prep.oracle_failures[0]
    pool += [(t, m) for t, m in cell_cover(rng)] + vector_operand_cover(rng) + magnitude_cover(rng) + typed_coef_cover(rng) + shared_cover(rng) + chain_cases(rng, False)
    pool += elementwise_cover(rng, extra=6000)
    for i in range(30000):
        U = gen.Universe(rng)
        depth = rng.randint(1, 6)
        pool.append(("randpoly", (lambda U=U, depth=depth, st=rng.getrandbits(48): rand_poly(core.Rng(st), U, depth))))
    for tag, make in pool:
        # (threshold, history): history = every sub-expression object (a bounded sample on deep chains) was
        # asked for its degree first
        combos = ((0, False), (0, True), (10 ** 9, False)) if not tag.startswith("chain") else ((0, False), (0, True))
        for T, with_history in combos:
            old = A._RECURSION_THRESHOLD
            pre_idx = []
            try:
                try:
                    e = make()
                except Exception:  # noqa: BLE001   (the API refused to build it on this tree)
                    break
                if with_history:
                    pre_idx = choose_pre(e, rng, 1.0)
                    prequery(e, pre_idx, 400)
                A._RECURSION_THRESHOLD = T
                with warnings.catch_warnings():
                    warnings.simplefilter("ignore")
                    d = e.degree
            except Exception as ex:  # noqa: BLE001
                try:
                    return {"what": f"degree raised {type(ex).__name__}", "expr": ser(e), "tag": tag, "T": T,
                            "pre": pre_idx, "pre_T": 400}
                except Exception:  # noqa: BLE001
                    continue
            finally:
                A._RECURSION_THRESHOLD = old
            if d is None:
                continue
            r = degree_oracle(e, d, rng)
            if r is not None and not isinstance(r, str):
                try:
                    r.update({"expr": ser(e), "tag": tag, "degree": d, "T": T, "pre": pre_idx, "pre_T": 400})
                except Unsupported:
                    r.update({"expr": None, "tag": tag, "degree": d, "T": T})
                if getattr(make, "recipe", None) is not None:
                    r["recipe"] = make.recipe
                return r
    return None


def replay(payload) -> bool:
    import optyx.analysis as A

    f = payload["failure"]
    if f.get("family") == "param-history":
        return replay_param_history(f)
    if f.get("family") == "alias-history":
        return replay_alias_history(f)
    if not f.get("expr") and not f.get("recipe"):
        print("no serialised expression in the replay file; tag:", f.get("tag"))
        return True
    ok = True
    # an expression built from a recipe is rebuilt through the same API calls (the operator overload / constructor that
    # made a vector is not part of the serialised tree); the serialised tree is replayed as well
    builders = []
    if f.get("recipe"):
        print("recipe:", f["recipe"])
        builders.append(("built through the API from the recipe", lambda: build_elementwise(f["recipe"])))
    if f.get("expr"):
        builders.append(("rebuilt from the serialised tree", lambda: deser(f["expr"])))
    # histories: none, the recorded one, and "every sub-expression object was queried first" (covers the
    # cases whose generator reads a term's degree before reusing it)
    histories = [("no history", None)]
    if f.get("pre"):
        histories.append(("recorded history", (list(f["pre"]), int(f.get("pre_T") or 400))))
    histories.append(("all sub-nodes queried first", ("all", 400)))
    for bname, build, hname, h in [(bn, b, hn, h) for bn, b in builders for hn, h in histories]:
        hname = f"{bname}; {hname}" if len(builders) > 1 else hname
        for T in sorted({int(f.get("T", 400)), 0, 400, 10 ** 9}):
            e = build()
            if h is not None:
                idxs = list(range(len(subnodes(e)))) if h[0] == "all" else h[0]
                prequery(e, idxs, h[1])
            old = A._RECURSION_THRESHOLD
            try:
                A._RECURSION_THRESHOLD = T
                try:
                    with warnings.catch_warnings():
                        warnings.simplefilter("ignore")
                        d = e.degree
                        d2 = e.degree
                        it = A._compute_degree_iterative(e)
                except RecursionError:
                    print(f"[{hname}] T={T}: RecursionError (forced recursion on a deep tree: not a property failure)")
                    continue
                except Exception as ex:  # noqa: BLE001
                    print(f"[{hname}] T={T}: raised {type(ex).__name__}: {ex}")
                    ok = False
                    continue
            finally:
                A._RECURSION_THRESHOLD = old
            print(f"[{hname}] T={T}: degree={d} second read={d2} iterative={it}")
            if d != d2 or d != it:
                ok = False
            if d is not None:
                r = degree_oracle(e, d, core.Rng(1), lines=6)
                print("  oracle:", r)
                if r is not None and not isinstance(r, str):
                    ok = False
    return ok
