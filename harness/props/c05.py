"""C05 — the extracted LP is the model the user wrote.

Tie:    `LinearProgramExtractor().extract(P)` (all of c, c0, sense, A_ub, b_ub, A_eq, b_eq, bounds,
        variables, or the class of the raised error), `extract_all_linear_coefficients` under the
        problem's own variable order *and* under permuted / enlarged orders (so the O(1) shortcuts
        both fire and just miss), `extract_constant_term`, `extract_linear_coefficient` are
        compared *exactly* (rationals) with the Lean model `Py.extractLP`, `Py.extractAll`,
        `Py.extractConstantTerm`, `Py.extractLinearCoefficient`.
Oracle: independent of the Lean model: the user's objective / constraint expressions are
        re-evaluated in `fractions.Fraction` arithmetic (own interpreter) at random integer points
        and compared with c·x + c0 and row·x − rhs (>= rows negated), names with columns, bounds
        with the declared bounds.
"""
from __future__ import annotations

import warnings
from fractions import Fraction

import numpy as np

import core
import gen
from ser import Ids, Ser, Unsupported, rat, q as quote, deser
from props.c04 import frac_eval, NotPoly, DivZero

LEAN_MODULE = "Optyx.Props.C05"
EXTRA_MODULES = ["Optyx.Props.PinsC05", "Optyx.Props.LPFastTie"]   # transcription anchors (harness/source_pins.py)
THEOREMS = [
    "Optyx.Props.C05.coeffs_sound",
    "Optyx.Props.C05.walker_sound",
    "Optyx.Props.C05.coeffs_sound_total",
    "Optyx.Props.C05.div_zero_raises",
    "Optyx.Props.C05.extractLP_total",
    "Optyx.Props.C05.shortcuts_eq_general",
    "Optyx.Props.C05.names_eq_of_sorted",
    "Optyx.Props.C05.extractLP_sound",
    "Optyx.Props.Glue.lpRows_table",
    "Optyx.Props.Glue.lpExtract_text",
    "Optyx.Props.C05.shortcutInv_iff_sizes",
    "Optyx.Props.C05.walker_sound_of_source_equations",
    "Optyx.Props.C05.lp_source_equations_solvable",
    "Optyx.Props.LPTie.const_unique",
    "Optyx.Props.LPTie.coeff_unique",
    "Optyx.Props.LPTie.walk_unique",
    "Optyx.Props.LPFastTie.fastBinop_eq",
    "Optyx.Props.LPFastTie.extractAll_eq",
    "Optyx.Props.LPFastTie.extractLinearCoefficient_eq",
    "Optyx.Props.LPFastTie.extractConstantTerm_eq",
    "Optyx.Props.LPFastTie.aligned_iff",
    "Optyx.Props.PinsC05.anchors",
]
ASSUMPTIONS = [
    "theorems are over the reals (NumAlg ℝ), the executable model over exact rationals; float rounding / overflow of "
    "the coefficient arithmetic is not modelled (inputs of the correspondence run are small dyadic rationals: exact)",
    "the variable list handed to the extractor is Problem.variables (its order and duplicate-freeness are C16's subject)",
    "every variable of an extracted expression occurs in that list (holds for Problem.variables by construction)",
    "VectorVariable operands reachable through the public API list their elements in strictly increasing or strictly "
    "decreasing problem order (slices, rows, columns, diagonals): the invariant the O(1) shortcuts rely on",
]

def run_lean_unit(lines):
    return core.run_lean(lines)


# ----------------------------------------------------------------------------- formatting (the model's canonical text)


def rats(xs):
    return " ".join(rat(x) for x in np.asarray(xs, dtype=float).tolist())


def opt_rat(x):
    return "none" if x is None else rat(x)


def lp_text(lp):
    rows = lambda A: " ".join("(" + rats(r) + ")" for r in (A if A is not None else []))
    vec = lambda b: rats(b) if b is not None else ""
    return (f"(lp (c {rats(lp.c)}) (c0 {rat(lp.c0)}) (sense {lp.sense}) (aub {rows(lp.A_ub)}) (bub {vec(lp.b_ub)}) "
            f"(aeq {rows(lp.A_eq)}) (beq {vec(lp.b_eq)}) (bounds "
            + " ".join(f"({opt_rat(lb)} {opt_rat(ub)})" for lb, ub in lp.bounds)
            + ") (vars " + " ".join(quote(n) for n in lp.variables) + "))")


ERRNAMES = {"NonLinearError", "ZeroDivisionError", "NoObjectiveError", "IndexError"}


def err_text(ex):
    return f"(err {type(ex).__name__})"


def problem_line(P, ids):
    """protocol line for the model from what the extractor reads off the Problem"""
    S = Ser(ids)
    obj = S.expr(P.objective) if P.objective is not None else "none"
    sense = "min" if P.sense == "minimize" else "max"
    cons = " ".join(f"({S.expr(c.expr)} {c.sense})" for c in P.constraints)
    vs = " ".join(f"({quote(v.name)} {opt_rat(v.lb)} {opt_rat(v.ub)})" for v in P.variables)
    return f"lp {obj} {sense} ({cons}) ({vs})"


# ----------------------------------------------------------------------------- generators (public API only)


class Pool:
    """modelling objects of one problem"""

    def __init__(self, rng, style):
        from optyx import Variable, VectorVariable, MatrixVariable

        self.rng = rng
        n = rng.randint(1, 4)
        b = lambda: rng.choice([None, None, 0, 0.0, -1.5, 2.0, 4, 0.25])
        self.x = VectorVariable("x", n, lb=b(), ub=b())
        self.vectors = [self.x]
        self.scalars = []
        # style decides which shortcuts can fire: 'only-x' (n = len(x): fires), 'before' (a scalar sorting before
        # x[0]: first index != 0), 'after' (a scalar sorting after: first index 0 but lengths differ), 'two' …
        if style in ("before", "mixed"):
            self.scalars.append(Variable("a", lb=b(), ub=b()))
        if style in ("after", "mixed"):
            self.scalars.append(Variable("z", lb=b(), ub=b()))
        if style in ("two", "mixed"):
            self.y = VectorVariable("y", rng.randint(1, 3), lb=b(), ub=b())
            self.vectors.append(self.y)
        if style == "matrix":
            self.M = MatrixVariable("M", rng.randint(1, 2), rng.randint(1, 3), lb=b(), ub=b())
        else:
            self.M = None
        if style == "binary":
            self.scalars.append(Variable("flag", domain="binary"))

    def views(self):
        out = []
        for v in self.vectors:
            k = len(v)
            out += [v, v, v[0:k], v[::-1]]
            if k >= 2:
                out += [v[0:k - 1], v[1:k], v[0:k:2]]
        if self.M is not None:
            M = self.M
            out += [M[0, :], M[:, 0], M[M.rows - 1, :], M[0, ::-1]]
            if M.rows == M.cols:
                out.append(M.diagonal())
        return out

    def leaves(self):
        out = list(self.scalars)
        for v in self.vectors:
            out += list(v)
        if self.M is not None:
            out += [self.M[i, j] for i in range(self.M.rows) for j in range(self.M.cols)]
        return out


def dy(rng):
    return rng.choice([0.0, 1.0, 2.0, -1.0, 0.5, 3.0, -2.0, 1.5, 0.25, 4.0, -0.5, 2, 1, 0, 3, -3])


def p2(rng):
    return rng.choice([2.0, 4.0, -2.0, 0.5, 1.0, -0.25, 8, 1, -1])


def const_expr(rng, depth=1, P=None):
    """a constant-valued *compound* sub-expression (never a single Constant node): arithmetic on Constant nodes,
    powers, negations, quotients, `k * 0`, `e ** 0` of an arbitrary (variable-containing) base, and — rarer,
    because today's classifier rejects them as non-polynomial — functions of constants, nested"""
    from optyx.core.expressions import Constant, BinaryOp, UnaryOp

    a, b = Constant(dy(rng)), dy(rng)
    r = rng.random()
    if depth > 0 and r < 0.18:
        k1, k2 = const_expr(rng, depth - 1, P), const_expr(rng, depth - 1, P)
        return rng.choice([lambda: k1 + k2, lambda: k1 - k2, lambda: k1 * k2, lambda: -k1, lambda: k1 * 0,
                           lambda: BinaryOp(k1, Constant(rng.choice([0, 1, 2])), "**"), lambda: k1 / Constant(p2(rng))])()
    if r < 0.40:
        return a + b
    if r < 0.55:
        return a - b
    if r < 0.65:
        return a * Constant(dy(rng))
    if r < 0.72:
        return BinaryOp(Constant(rng.choice([2.0, -1.0, 0.5, 3])), Constant(rng.choice([0, 1, 2, 2.0])), "**")
    if r < 0.78:
        return -a
    if r < 0.83:
        return a / Constant(p2(rng))
    if r < 0.87:
        return rng.choice([lambda: a * 0, lambda: 0 * (a + b), lambda: Constant(0.0) * a])()
    if r < 0.93:
        base = rng.choice(P.leaves()) if P is not None else a
        return rng.choice([lambda: base ** 0, lambda: (base + b) ** 0, lambda: BinaryOp(2 * base - 1, Constant(0.0), "**"),
                           lambda: (base ** 0) * b, lambda: (base ** 0) + a])()
    # functions of constants (exact values where possible: exp(0)=1, sqrt(4)=2, abs(-2)=2, log(1)=0, cos(0)=1, sinh(0)=0)
    f = lambda op, x: UnaryOp(x, op)
    return rng.choice([
        lambda: f("exp", Constant(0.0)), lambda: f("sqrt", Constant(4.0)), lambda: f("abs", Constant(-2.0)), lambda: f("log", Constant(1.0)),
        lambda: f("cos", Constant(0)), lambda: f("exp", -f("sqrt", Constant(2.0))), lambda: f("log", f("exp", Constant(1.5)) + 1.0),
        lambda: f("exp", Constant(0.05) * 2), lambda: f("exp", -Constant(0.05)), lambda: f("sqrt", f("exp", Constant(1.0))),
        lambda: f("exp", (rng.choice(P.leaves()) if P is not None else a) ** 0), lambda: f("sqrt", a * a + 1.0),
        lambda: f("sin", Constant(0.5)) * 2, lambda: f("tanh", Constant(1.0) - 0.5) + b, lambda: f("abs", a - 3.0),
        lambda: f("sinh", Constant(0.0)) + a, lambda: f("sqrt", Constant(0.25)) * f("sqrt", Constant(16.0)),
    ])()


def rand_lin(rng, P, depth):
    """a linear expression; with some probability an *already built* compound sub-expression object of this
    problem is reused (DAG sharing: the same Python object at several places of the objective / constraints,
    under different multipliers and signs on the path)"""
    from optyx.core.expressions import Constant, Variable

    made = getattr(P, "made", None)
    if made is None:
        made = P.made = []
    if made and depth >= 0 and rng.random() < 0.14:
        return rng.choice(made)
    e = _rand_lin_fresh(rng, P, depth)
    if not isinstance(e, (Constant, Variable)) and len(made) < 16:
        made.append(e)
    return e


def _rand_lin_fresh(rng, P, depth):
    """a linear expression written in one of the styles the API offers"""
    from optyx.core.expressions import BinaryOp, Constant, UnaryOp
    from optyx.core import vectors as V

    if depth <= 0 or rng.random() < 0.12:
        r = rng.random()
        if r < 0.7:
            return rng.choice(P.leaves())
        return Constant(dy(rng))
    r = rng.random()
    sub = lambda: rand_lin(rng, P, depth - 1)
    if r < 0.16:
        return sub() + sub()
    if r < 0.28:
        return sub() - sub()
    if r < 0.36:
        return rng.choice([lambda: dy(rng) * sub(), lambda: sub() * dy(rng), lambda: Constant(dy(rng)) * sub(),
                           lambda: sub() * Constant(dy(rng))])()
    if r < 0.42:
        k = const_expr(rng, 1, P)
        return rng.choice([lambda: BinaryOp(k, sub(), "*"), lambda: BinaryOp(sub(), k, "*"), lambda: sub() + k, lambda: k - sub(),
                           lambda: sub() * k + k, lambda: -(k * sub())])()
    if r < 0.47:
        return sub() / rng.choice([p2(rng), Constant(p2(rng))])
    if r < 0.51:
        return -sub()
    if r < 0.55:
        return BinaryOp(sub(), Constant(rng.choice([1, 1.0])), "**")
    if r < 0.58:
        return BinaryOp(sub(), Constant(rng.choice([0, 0.0])), "**")
    if r < 0.60:
        return BinaryOp(const_expr(rng, 1, P), Constant(rng.choice([2, 3, 2.0])), "**")
    if r < 0.63:
        return sub() + dy(rng)
    if r < 0.66:
        return dy(rng) - sub()
    v = rng.choice(P.views())
    k = len(v)
    cs = np.array([dy(rng) for _ in range(k)], dtype=float)
    if r < 0.72:
        return v.sum()
    if r < 0.80:
        return cs @ v
    if r < 0.84:
        return cs @ (v + dy(rng))
    if r < 0.87:
        return cs @ (p2(rng) * v)
    if r < 0.89:
        return cs @ (v - rng.choice([w for w in P.views() if len(w) == k]))
    if r < 0.92:
        if rng.random() < 0.35:     # constant-valued compound elements / addends inside the vector expression
            return V.LinearCombination(cs, V.VectorExpression([
                rng.choice([lambda: const_expr(rng, 1, P), lambda: rand_lin(rng, P, depth - 2) + const_expr(rng, 0, P),
                            lambda: const_expr(rng, 0, P) * rng.choice(P.leaves())])() for _ in range(k)]))
        return V.LinearCombination(cs, V.VectorExpression([rand_lin(rng, P, depth - 2) for _ in range(k)]))
    if r < 0.95:
        A = np.array([[dy(rng) for _ in range(k)] for _ in range(rng.randint(1, 3))], dtype=float)
        return rng.choice((A @ v)._expressions)
    if r < 0.96:
        return rng.choice([lambda: v.sum() - dy(rng), lambda: v.sum() + Constant(dy(rng)), lambda: cs @ v - dy(rng),
                           lambda: cs @ v + dy(rng), lambda: dy(rng) * v.sum(), lambda: v.sum() * dy(rng),
                           lambda: Constant(dy(rng)) * v.sum(), lambda: v.sum() * Constant(dy(rng)),
                           lambda: v.sum() - rng.choice(P.leaves()), lambda: cs @ v + rng.choice(P.leaves())])()
    # VectorPowerSum with power 1 / 0 (linear since the fix 35fb4df knows the node), alone and inside arithmetic
    ps = (v ** rng.choice([1, 0, 1.0, 0.0])).sum()
    return rng.choice([lambda: ps, lambda: ps - dy(rng), lambda: dy(rng) * ps, lambda: ps + rng.choice(P.leaves()),
                       lambda: cs @ v - ps, lambda: -ps, lambda: ps / p2(rng)])()


VEC_KINDS = ("lc", "vs", "kvs", "ps1")


def vec_node(kind, view, coeffs, k=2.0):
    """a scalar node over a VectorVariable view: c @ v, v.sum(), k * v.sum(), (v ** 1).sum()"""
    if kind == "lc":
        return np.array(coeffs[:len(view)], dtype=float) @ view
    if kind == "vs":
        return view.sum()
    if kind == "kvs":
        return k * view.sum()
    return (view ** 1).sum()


def vec_views(v):
    """views of one vector: covering all of it (natural / copy / reversed) and partial (strided, shifted)"""
    n = len(v)
    full = [("x", v), ("x[:]", v[:]), ("x[::-1]", v[::-1])]
    part = [("x[::2]", v[::2])]
    if n >= 2:
        part += [("x[1:]", v[1:]), ("x[0:n-1]", v[0:n - 1]), ("x[:0:-1]", v[:0:-1])]
    return full, part


def rand_two_vec(rng, P):
    """top-level `node ± node` whose both operands are vector nodes over views of the same vector"""
    v = rng.choice(P.vectors)
    full, part = vec_views(v)
    pool = full * 3 + part
    (_, a), (_, b) = rng.choice(pool), rng.choice(pool)
    ca = [dy(rng) for _ in range(len(v))]
    cb = [dy(rng) for _ in range(len(v))]
    l = vec_node(rng.choice(VEC_KINDS), a, ca, p2(rng))
    r = vec_node(rng.choice(VEC_KINDS), b, cb, p2(rng))
    return l, r


def rand_problem(rng, style=None):
    from optyx import Problem
    from optyx.core.functions import sin

    style = style or rng.choice(["only-x", "only-x", "before", "after", "two", "mixed", "matrix", "binary"])
    P = Pool(rng, style)
    depth = rng.randint(1, 3)
    prob = Problem()
    obj = rand_lin(rng, P, depth)
    if rng.random() < 0.15:
        l2, r2 = rand_two_vec(rng, P)
        obj = l2 + r2 if rng.random() < 0.5 else l2 - r2
    odd = rng.random()
    if odd < 0.02:
        obj = obj + sin(rng.choice(P.leaves()))            # NonLinearError from the objective
    elif odd < 0.04:
        obj = obj + rng.choice(P.leaves()) ** 2
    elif odd < 0.055:
        obj = obj + rng.choice(P.leaves()) / 0.0            # ZeroDivisionError
    if odd >= 0.99:
        pass                                                 # no objective at all
    elif rng.random() < 0.5:
        prob.minimize(obj)
    else:
        prob.maximize(obj)
    for _ in range(rng.randint(0, 5)):
        lhs = rand_lin(rng, P, rng.randint(1, 3))
        rhs = rng.choice([lambda: dy(rng), lambda: dy(rng), lambda: rand_lin(rng, P, 1), lambda: Constant_(dy(rng)),
                          lambda: const_expr(rng, 1, P)])()
        if rng.random() < 0.15:
            lhs, rhs = rand_two_vec(rng, P)          # `a @ x <= b @ x[::-1]` normalises to node − node
            if rng.random() < 0.3:
                lhs, rhs = lhs + rhs, dy(rng)
        q = rng.random()
        if q < 0.015:
            lhs = lhs * rng.choice(P.leaves())               # NonLinearError from a constraint (unless lhs is constant)
        elif q < 0.025:
            lhs = lhs / 0.0
        s = rng.choice(["<=", ">=", "=="])
        c = (lhs <= rhs) if s == "<=" else (lhs >= rhs) if s == ">=" else lhs.eq(rhs)
        prob.subject_to(c)
    return prob, P, style


def Constant_(k):
    from optyx.core.expressions import Constant

    return Constant(k)


def fixed_problems(rng):
    """hand-written representatives: every shortcut firing / just missing, every sense, F7 repairs"""
    from optyx import Problem, Variable, VectorVariable, MatrixVariable
    from optyx.core.expressions import Constant, BinaryOp

    out = []
    for n in (1, 2, 3):
        x = VectorVariable("x", n, lb=0, ub=4)
        a = Variable("a", lb=-1.5)
        z = Variable("z", ub=2.0)
        c = np.array([1.0, 2.0, -0.5][:n])
        objs = [("vs", lambda: x.sum()), ("lc", lambda: c @ x), ("vs-k", lambda: x.sum() - 3), ("lc+k", lambda: c @ x + 1.5),
                ("k*vs", lambda: 2 * x.sum()), ("vs*k", lambda: x.sum() * 0.5), ("K*vs", lambda: Constant(3) * x.sum()),
                ("vs+K", lambda: x.sum() + Constant(2)), ("lc-K", lambda: c @ x - Constant(1)),
                ("rev-lc", lambda: c @ x[::-1]), ("rev-vs", lambda: x[::-1].sum()), ("slice-lc", lambda: c[: max(1, n - 1)] @ x[0: max(1, n - 1)]),
                ("lc(x+1)", lambda: c @ (x + 1)), ("(x+5)**1", lambda: (x[0] + 5) ** 1), ("(2+3)*x", lambda: (Constant(2) + 3) * x[0]),
                ("x*(2+3)", lambda: x[0] * (Constant(2) + 3)), ("vs+var", lambda: x.sum() + x[0]), ("lc-var", lambda: c @ x - x[n - 1]),
                ("vs-vs", lambda: x.sum() - x.sum()), ("neg-vs", lambda: -x.sum()), ("vs/2", lambda: x.sum() / 2),
                ("x**0", lambda: x[0] ** 0 + x.sum()), ("k**2*x", lambda: BinaryOp(Constant(2) + 1, Constant(2), "**") * x[0]),
                ("2-vs", lambda: 2 - x.sum()), ("k", lambda: Constant(2.5) + 1),
                ("ps1", lambda: (x ** 1).sum()), ("ps0", lambda: (x ** 0).sum() + x[0]), ("ps1.0-k", lambda: (x ** 1.0).sum() - 3),
                ("k*ps1", lambda: 2 * (x ** 1).sum()), ("ps1rev", lambda: (x[::-1] ** 1).sum()),
                ("vs+ps0", lambda: x.sum() + (x ** 0).sum()), ("lc-ps1", lambda: c @ x - (x ** 1).sum()),
                ("ps0**2", lambda: BinaryOp((x ** 0).sum(), Constant(2), "**") * x[0]), ("ps0*x", lambda: (x ** 0).sum() * x[n - 1])]
        for (tag, mk) in objs:
            for extra in ("none", "a", "z", "both"):
                for sense in ("<=", ">=", "=="):
                    P = Problem()
                    e = mk()
                    (P.minimize if sense != ">=" else P.maximize)(e)
                    lhs = mk()
                    con = (lhs <= 2) if sense == "<=" else (lhs >= 2) if sense == ">=" else lhs.eq(2)
                    P.subject_to(con)
                    if extra in ("a", "both"):
                        P.subject_to(a + x[0] >= 1)
                    if extra in ("z", "both"):
                        P.subject_to((2 * z - x[n - 1]).eq(0.5))
                    out.append((f"fixed:{tag}:n{n}:{extra}:{sense}", P))
    # top-level sum / difference of TWO vector nodes over views of the same vector (full / copy / reversed /
    # strided / shifted), both orders, non-palindromic coefficients, as objective and as constraint (3 senses)
    CA = [1.0, 2.0, 4.0, 8.0]
    CB = [3.0, -1.0, 0.5, 5.0]
    for n in (2, 3):
        x = VectorVariable("x", n, lb=0, ub=4)
        full, part = vec_views(x)
        pairs = [(a, b) for a in full for b in full] + [(a, b) for a in full[:1] + full[2:] for b in part[:3]]
        pairs += [(b, a) for a in full[:1] + full[2:] for b in part[:3]] + [(part[0], part[-1]), (part[-1], part[0])]
        for ka in VEC_KINDS:
            for kb in VEC_KINDS:
                for (na, va), (nb, vb) in pairs:
                    mk = lambda op: (vec_node(ka, va, CA) + vec_node(kb, vb, CB)) if op == "+" else (vec_node(ka, va, CA) - vec_node(kb, vb, CB))
                    for op in ("+", "-"):
                        P = Problem()
                        (P.minimize if op == "+" else P.maximize)(mk(op))
                        P.subject_to(x.sum() <= 4)
                        out.append((f"fixed2:{ka}{op}{kb}:{na}:{nb}:n{n}:obj", P))
                    P = Problem().minimize(x.sum())
                    P.subject_to(vec_node(ka, va, CA) <= vec_node(kb, vb, CB))
                    P.subject_to(vec_node(ka, va, CA) >= vec_node(kb, vb, CB))
                    P.subject_to(vec_node(ka, va, CA).eq(vec_node(kb, vb, CB)))
                    P.subject_to(vec_node(kb, vb, CB) + vec_node(ka, va, CA) <= 3)
                    out.append((f"fixed2:{ka}?{kb}:{na}:{nb}:n{n}:con", P))
    # matrix rows / columns, 1×k matrix whose row is the whole variable list
    M = MatrixVariable("M", 1, 3, lb=0)
    out.append(("fixed:matrow", Problem().minimize(np.array([1.0, 2.0, 3.0]) @ M[0, :]).subject_to(M[0, :].sum() <= 4)))
    out.append(("fixed:matrowrev", Problem().minimize(np.array([1.0, 2.0, 3.0]) @ M[0, ::-1]).subject_to(M[0, ::-1].sum() >= 1)))
    M2 = MatrixVariable("N", 2, 2, ub=5)
    out.append(("fixed:matcol", Problem().maximize(np.array([1.0, -1.0]) @ M2[:, 1] + M2[0, 0]).subject_to(M2[1, :].sum() <= 3).subject_to(M2.diagonal().sum().eq(1))))
    # A @ x rows
    x = VectorVariable("x", 3, lb=0)
    A = np.array([[1.0, 2.0, 0.0], [0.5, -1.0, 4.0]])
    P = Problem().minimize(np.array([1.0, 1.0, 2.0]) @ x)
    for i, row in enumerate((A @ x)._expressions):
        P.subject_to(row <= float(i + 1))
    out.append(("fixed:Ax", P))
    # x / Constant(0), no objective
    out.append(("fixed:div0-obj", Problem().minimize(x[0] / Constant(0) + x.sum())))
    out.append(("fixed:div0-con", Problem().minimize(x.sum()).subject_to(x[1] / 0.0 <= 1)))
    out.append(("fixed:div0-pow0", Problem().minimize((x[0] / Constant(0)) ** 0 + x[1])))
    out.append(("fixed:noobj", Problem().subject_to(x.sum() <= 1)))
    out.append(("fixed:nonlin-con", Problem().minimize(x.sum()).subject_to(x[0] * x[1] <= 1)))
    return out


def deep_problems(rng, thorough):
    """objectives / constraints accumulated term by term to depth 399 / 400 / 401 / 450 / 900 (left-deep and
    zig-zag, i.e. the accumulator alternately on the left and on the right), with and without *shared* compound
    sub-expression objects (scalar and vector `fee` terms, whole shared sub-chains) placed under different signs
    and multipliers"""
    from optyx import Problem, Variable, VectorVariable
    from optyx.core.expressions import BinaryOp, Constant, UnaryOp

    out = []
    depths = [399, 400, 401, 450, 900] + ([650, 930] if thorough else [])
    reps = 3 if thorough else 1
    for d in depths:
        for shape in ("left", "zigzag"):
            for sharing in ("none", "fee", "fee-vec", "subchain", "nested"):
                for _ in range(reps):
                    n = rng.randint(2, 5)
                    x = VectorVariable("x", n, lb=0, ub=8)
                    y, z = Variable("y", lb=-1), Variable("z", ub=3.0)
                    cs = np.array([dy(rng) for _ in range(n)], dtype=float)
                    fees = []
                    if sharing in ("fee", "nested"):
                        fees.append(2 * y + 3 * z - 4)
                        fees.append(-(y - 0.5))
                    if sharing in ("fee-vec", "nested"):
                        fees.append(cs @ x - 1.5)
                        fees.append(x.sum() * 0.5)
                    if sharing == "nested":
                        inner = fees[0] + fees[2]
                        fees.append(inner / 2 - fees[0])          # shared objects inside a shared object
                    marks = sorted(rng.sample(range(d), min(d, 6))) if fees else []

                    def term(i):
                        k = i % 6
                        v = x[i % n]
                        if k == 0: return dy(rng) * v
                        if k == 1: return v * Constant(p2(rng))
                        if k == 2: return Constant(dy(rng))
                        if k == 3: return v / 2
                        if k == 4: return -(y if i % 4 else z)
                        return (Constant(2) + 1) * v

                    def grow(acc, lo, hi):
                        for i in range(lo, hi):
                            t = term(i)
                            if i in marks:
                                f = rng.choice(fees)
                                t = rng.choice([lambda: f, lambda: 2 * f, lambda: f / 4, lambda: -f, lambda: f + t, lambda: t - f])()
                            minus = rng.random() < 0.3
                            on_right = shape == "zigzag" and i % 5 == 0
                            if on_right:
                                acc = BinaryOp(t, acc, "-" if minus else "+")
                            else:
                                acc = BinaryOp(acc, t, "-" if minus else "+")
                            if i % 97 == 96:
                                acc = rng.choice([lambda: UnaryOp(acc, "neg"), lambda: acc * 0.5, lambda: 2 * acc, lambda: acc / 2])()
                        return acc

                    start = fees[0] if fees else x[0]
                    if sharing == "subchain":
                        half = grow(y + 1, 0, d // 2)                 # the same deep object used twice below
                        e = grow(half, d // 2, d - 2)
                        e = (e - half) + 3 * half
                    else:
                        e = grow(start, 0, d - (2 if fees else 0))
                        if fees:
                            e = (e + fees[0]) - fees[-1]              # first occurrence was the innermost node
                    other = grow(x[0] + 1, 0, 5)
                    role = rng.choice(["obj", "con", "both"])
                    P = Problem()
                    if role in ("obj", "both"):
                        (P.minimize if rng.random() < 0.5 else P.maximize)(e)
                    else:
                        P.minimize(other)
                    if role in ("con", "both"):
                        s = rng.choice(["<=", ">=", "=="])
                        rhs = rng.choice([lambda: 3.0, lambda: other, lambda: fees[0] if fees else 1.0])()
                        P.subject_to((e <= rhs) if s == "<=" else (e >= rhs) if s == ">=" else e.eq(rhs))
                        if fees:
                            P.subject_to(fees[0] - fees[-1] >= -2)    # the shared objects also stand alone elsewhere
                    else:
                        P.subject_to(x.sum() <= 4)
                    out.append((f"deep:{d}:{shape}:{sharing}:{role}", P))
    return out


def const_fold_problems(rng):
    """every kind of constant-valued compound sub-expression × every place a number can stand (coefficient factor on
    either side, additive term, right-hand side, element / addend inside a vector expression, power base, divisor).
    Whether the tree under test accepts the model as an LP is its business; if it does, the oracle must agree."""
    from optyx import Problem, Variable, VectorVariable
    from optyx.core.expressions import BinaryOp, Constant, UnaryOp
    from optyx.core import vectors as V

    f = lambda op, a: UnaryOp(a, op)
    x = VectorVariable("x", 2, lb=0, ub=5)
    y = Variable("y", lb=-1.0)
    kinds = [
        ("2+3", lambda: Constant(2) + 3), ("2*3-1", lambda: Constant(2) * 3 - 1), ("(2+1)**2", lambda: BinaryOp(Constant(2) + 1, Constant(2), "**")),
        ("-(K)", lambda: -Constant(1.5)), ("K/4", lambda: Constant(3.0) / Constant(4.0)), ("K*0", lambda: Constant(3.0) * 0),
        ("0*(K+1)", lambda: 0 * (Constant(3.0) + 1)), ("y**0", lambda: y ** 0), ("(x0+y)**0", lambda: (x[0] + y) ** 0), ("(y**0)*3", lambda: (y ** 0) * 3),
        ("((K+1)*(K-1))/2", lambda: ((Constant(3) + 1) * (Constant(3) - 1)) / 2), ("K**0", lambda: Constant(5.0) ** 0),
        ("exp(0)", lambda: f("exp", Constant(0.0))), ("sqrt(4)", lambda: f("sqrt", Constant(4.0))), ("abs(-2)", lambda: f("abs", Constant(-2.0))),
        ("log(1)", lambda: f("log", Constant(1.0))), ("exp(-0.05)", lambda: f("exp", Constant(-0.05))), ("sqrt(2)", lambda: f("sqrt", Constant(2.0))),
        ("exp(-sqrt(2))", lambda: f("exp", -f("sqrt", Constant(2.0)))), ("log(exp(1.5)+1)", lambda: f("log", f("exp", Constant(1.5)) + 1.0)),
        ("exp(K*2)", lambda: f("exp", Constant(0.05) * 2)), ("exp(-K)", lambda: f("exp", -Constant(0.05))), ("sqrt(exp(1))", lambda: f("sqrt", f("exp", Constant(1.0)))),
        ("exp(y**0)", lambda: f("exp", y ** 0)), ("sqrt(K*K+1)", lambda: f("sqrt", Constant(2.0) * Constant(2.0) + 1.0)), ("cos(0)*2", lambda: f("cos", Constant(0)) * 2),
        ("sinh(0)+1", lambda: f("sinh", Constant(0.0)) + 1), ("tanh(K-K)", lambda: f("tanh", Constant(1.0) - 1.0)), ("abs(K-3)", lambda: f("abs", Constant(1.0) - 3.0)),
        ("exp(0)**2", lambda: BinaryOp(f("exp", Constant(0.0)), Constant(2), "**")), ("sqrt(4)*sqrt(16)", lambda: f("sqrt", Constant(4.0)) * f("sqrt", Constant(16.0))),
    ]
    c = np.array([1.0, -2.0])
    places = [
        ("k*x", lambda k: k() * x[0] + y), ("x*k", lambda k: x[1] * k() - y), ("x+k", lambda k: x.sum() + k()), ("k-x", lambda k: k() - (c @ x)),
        ("k*(x+k)", lambda k: k() * (x[0] + k())), ("lc[k*x]", lambda k: V.LinearCombination(c, V.VectorExpression([k() * x[0], x[1] + k()]))),
        ("lc[k]", lambda k: V.LinearCombination(c, V.VectorExpression([k(), y])) + x[0]), ("k**2*x", lambda k: BinaryOp(k(), Constant(2), "**") * x[0]),
        ("x/k", lambda k: x[0] / k() + y), ("-(k)*x/2", lambda k: -(k()) * x[1] / 2), ("(k+x)**1", lambda k: (k() + x[0]) ** 1), ("alone", lambda k: k() + 0 * y),
    ]
    out = []
    for kn, k in kinds:
        for pn, place in places:
            for s in ("<=", ">=", "=="):
                try:
                    P = Problem()
                    (P.minimize if s != ">=" else P.maximize)(place(k))
                    lhs = place(k)
                    P.subject_to((lhs <= k()) if s == "<=" else (lhs >= k()) if s == ">=" else lhs.eq(k()))
                    P.subject_to(x.sum() + y <= 4)
                except Exception:  # noqa: BLE001   (a form the API refuses to build)
                    continue
                out.append((f"constfold:{kn}:{pn}:{s}", P))
    return out


def shared_shallow_problems(rng):
    """the same compound object at several places of shallow expressions (every depth 1..4 of the sharing point)"""
    from optyx import Problem, Variable, VectorVariable
    from optyx.core.expressions import Constant

    out = []
    for n in (1, 3):
        x = VectorVariable("x", n, lb=0)
        y, z = Variable("y"), Variable("z", lb=-2.0)
        c = np.array([1.0, -2.0, 0.5][:n])
        fees = [("scalar", lambda: 2 * y + 3 * z - 4), ("vec", lambda: c @ x - 1.5), ("sum", lambda: x.sum() + y),
                ("neg", lambda: -(y - 0.5)), ("lc(x+1)", lambda: c @ (x + 1)), ("kexpr", lambda: (Constant(2) + 3) * z + 1)]
        forms = [("f+f", lambda f, t: f + f), ("f-f", lambda f, t: f - f), ("f+t+f", lambda f, t: f + t + f),
                 ("2f-(t-f)", lambda f, t: 2 * f - (t - f)), ("-(f)+f/2", lambda f, t: -f + f / 2), ("(f+t)-(f-t)", lambda f, t: (f + t) - (f - t)),
                 ("((t+f)*2+f)/4-f", lambda f, t: ((t + f) * 2 + f) / 4 - f), ("(f+1)**1+f", lambda f, t: (f + 1) ** 1 + f),
                 ("k*(f+f)", lambda f, t: (Constant(1) + 1) * (f + f)), ("t-(t-(t-(f+f)))", lambda f, t: t - (t - (t - (f + f))))]
        for fn, mkf in fees:
            for gn, g in forms:
                f = mkf()
                t = 3 * x[0] - z
                e = g(f, t)
                for s in ("<=", ">=", "=="):
                    P = Problem().minimize(e) if s != ">=" else Problem().maximize(e)
                    lhs = g(f, t)                                   # a second tree sharing the same `f` and `t` objects
                    P.subject_to((lhs <= f) if s == "<=" else (lhs >= 2) if s == ">=" else lhs.eq(t))
                    out.append((f"shared:{fn}:{gn}:n{n}:{s}", P))
    return out


# ----------------------------------------------------------------------------- oracle on the real code


# ----------------------------------------------------------------------------- mirror recipes (exact expected LP)
#
# A recipe is ONE Python function `build(B)` run on two back-ends: B = OptyxB (the real API of the tree under test)
# and B = AffB (exact affine arithmetic over Fractions, below).  Whatever NumPy array / scalar type, operator form or
# view the recipe uses, the Aff run yields the affine function the user *wrote* — independent of optyx's expression
# construction, folding, and extraction — and the extracted LP is compared with it entry by entry.


def _num(v):
    """exact rational value of a user-supplied number of any type"""
    if isinstance(v, Aff):
        if any(c != 0 for c in v.co.values()):
            raise NotAffine("non-constant used as a number")
        return v.k
    if isinstance(v, np.ndarray):
        if v.ndim != 0:
            raise NotAffine("array used as a scalar")
        v = v.item()
    if isinstance(v, (bool, np.bool_)):
        return Fraction(int(v))
    if isinstance(v, (int, np.integer)):
        return Fraction(int(v))
    if isinstance(v, Fraction):
        return v
    return Fraction(float(v))


class NotAffine(Exception):
    pass


class Aff:
    """exact affine function Σ co[name]·name + k"""
    __array_ufunc__ = None
    __slots__ = ("co", "k")

    def __init__(self, co=None, k=0):
        self.co = {n: c for n, c in (co or {}).items() if c != 0}
        self.k = Fraction(k)

    @staticmethod
    def var(name):
        return Aff({name: Fraction(1)})

    @staticmethod
    def lift(o):
        return o if isinstance(o, Aff) else Aff(None, _num(o))

    def is_const(self):
        return not self.co

    def __add__(s, o):
        o = Aff.lift(o)
        co = dict(s.co)
        for n, c in o.co.items():
            co[n] = co.get(n, 0) + c
        return Aff(co, s.k + o.k)
    __radd__ = __add__

    def __neg__(s):
        return Aff({n: -c for n, c in s.co.items()}, -s.k)

    def __sub__(s, o):
        return s + (-Aff.lift(o))

    def __rsub__(s, o):
        return Aff.lift(o) - s

    def __mul__(s, o):
        o = Aff.lift(o)
        if o.is_const():
            return Aff({n: c * o.k for n, c in s.co.items()}, s.k * o.k)
        if s.is_const():
            return Aff({n: c * s.k for n, c in o.co.items()}, s.k * o.k)
        raise NotAffine("product of two non-constants")
    __rmul__ = __mul__

    def __truediv__(s, o):
        q = _num(o)
        if q == 0:
            raise ZeroDivisionError
        return Aff({n: c / q for n, c in s.co.items()}, s.k / q)

    def __pow__(s, o):
        q = _num(o)
        if q == 1:
            return s
        if q == 0:
            return Aff(None, 1)
        if s.is_const() and q.denominator == 1 and q > 0:
            return Aff(None, s.k ** int(q))
        raise NotAffine("power")


class AffVec:
    __array_ufunc__ = None

    def __init__(self, items):
        self.items = list(items)

    def __len__(self): return len(self.items)
    def __iter__(self): return iter(self.items)

    def __getitem__(self, i):
        r = self.items[i]
        return AffVec(r) if isinstance(i, slice) else r

    def _zip(self, o, f):
        if isinstance(o, AffVec):
            if len(o) != len(self):
                raise NotAffine("length")
            return AffVec([f(a, b) for a, b in zip(self.items, o.items)])
        if isinstance(o, (np.ndarray, list, tuple)) and np.ndim(o) == 1:
            return AffVec([f(a, b) for a, b in zip(self.items, list(np.asarray(o).tolist()))])
        return AffVec([f(a, o) for a in self.items])

    def __add__(s, o): return s._zip(o, lambda a, b: a + b)
    __radd__ = __add__
    def __sub__(s, o): return s._zip(o, lambda a, b: a - b)
    def __rsub__(s, o): return s._zip(o, lambda a, b: b - a)
    def __mul__(s, o): return s._zip(o, lambda a, b: a * b)
    __rmul__ = __mul__
    def __truediv__(s, o): return s._zip(o, lambda a, b: a / b)
    def __neg__(s): return AffVec([-a for a in s.items])
    def __pow__(s, o): return AffVec([a ** o for a in s.items])

    def sum(self):
        t = Aff()
        for a in self.items:
            t = t + a
        return t

    def _mat(self, A, left):
        A = np.asarray(A)
        rows = A.tolist()
        if A.ndim == 1:
            if len(rows) != len(self):
                raise NotAffine("length")
            t = Aff()
            for c, a in zip(rows, self.items):
                t = t + a * c
            return t
        if A.ndim == 2 and left:
            return AffVec([_rowdot(r, self.items) for r in rows])
        raise NotAffine("matmul form")

    def __rmatmul__(self, A): return self._mat(A, True)
    def __matmul__(self, A): return self._mat(A, False) if np.ndim(A) == 1 else (_ for _ in ()).throw(NotAffine("v @ matrix"))

    def dot(self, o):
        raise NotAffine("dot product")


def _rowdot(row, items):
    if len(row) != len(items):
        raise NotAffine("length")
    t = Aff()
    for c, a in zip(row, items):
        t = t + a * c
    return t


class AffB:
    """the exact back-end: mirrors the modelling objects of an OptyxB by the *names* of their variables"""
    exact = True

    def __init__(self, ob):
        self.ob = ob

    def vec(self, key):
        return AffVec([Aff.var(v.name) for v in self.ob.vec(key)])

    def var(self, key):
        return Aff.var(self.ob.var(key).name)

    def const(self, k):
        return Aff(None, _num(k))

    def ob_row(self, key, i):
        return AffVec([Aff.var(v.name) for v in self.ob.objs[key][i, :]])

    def ob_col(self, key, j):
        return AffVec([Aff.var(v.name) for v in self.ob.objs[key][:, j]])

    def matmul(self, A, v):
        return v.__rmatmul__(A)

    def le(self, a, b): return (Aff.lift(a) - Aff.lift(b), "<=")
    def ge(self, a, b): return (Aff.lift(a) - Aff.lift(b), ">=")
    def eq(self, a, b): return (Aff.lift(a) - Aff.lift(b), "==")


class OptyxB:
    """the real back-end; `objs` maps keys to modelling objects / views (built once per case by `setup`)"""
    exact = False

    def __init__(self, objs):
        self.objs = objs

    def vec(self, key): return self.objs[key]
    def var(self, key): return self.objs[key]
    def ob_row(self, key, i): return self.objs[key][i, :]
    def ob_col(self, key, j): return self.objs[key][:, j]

    def const(self, k):
        from optyx.core.expressions import Constant
        return Constant(k)

    def matmul(self, A, v):
        from optyx.core.matrices import matmul
        return matmul(A, v)

    def le(self, a, b): return a <= b
    def ge(self, a, b): return a >= b
    def eq(self, a, b): return a.eq(b)


class Case:
    """a problem with (optionally) the exact LP the user wrote, and what to do with it"""

    def __init__(self, tag, P, expect=None, corr=True, rel_tol=None, arrays=()):
        self.tag, self.P, self.expect, self.corr, self.rel_tol = tag, P, expect, corr, rel_tol
        self.arrays = [(a, a.tobytes(), a.dtype, a.shape, a.strides) for a in arrays if isinstance(a, np.ndarray)]


def mirror_case(tag, setup, build, corr=True, rel_tol=None):
    """run `build` on both back-ends; returns a Case or None (the API refuses the form / the recipe is not affine)"""
    from optyx import Problem

    arrays = []
    try:
        with warnings.catch_warnings():
            warnings.simplefilter("ignore")
            objs = setup()
            ob = OptyxB(objs)
            obj, sense, cons = build(ob, arrays)
            P = Problem()
            (P.minimize if sense == "min" else P.maximize)(obj)
            for c in cons:
                P.subject_to(c)
    except RecursionError:
        raise
    except Exception as ex:  # noqa: BLE001
        return ("build", f"{type(ex).__name__}")
    try:
        eobj, esense, econs = build(AffB(ob), [])
        expect = {"obj": Aff.lift(eobj), "sense": esense, "cons": [(Aff.lift(e), s) for e, s in econs],
                  "bounds": objs.get("_declared") if isinstance(objs, dict) else None}
    except (NotAffine, ZeroDivisionError, OverflowError) as ex:
        expect = None
    return Case(tag, P, expect, corr, rel_tol, arrays)


def expect_oracle(case, lp):
    """the extracted LP against the exact affine functions of the recipe"""
    ex = case.expect
    fails = []
    names = list(lp.variables)
    F = lambda t: Fraction(float(t))
    tol = case.rel_tol

    def same(want, got):
        if tol is None:
            return want == got
        if want == 0:
            return got == 0
        return abs(got - want) <= Fraction(tol) * abs(want)

    def check_row(what, aff, row, const_got, sign):
        foreign = [n for n in aff.co if n not in names]
        if foreign:
            fails.append({"what": f"{what}: variable(s) of the user's expression missing from LP.variables", "missing": foreign})
            return
        for i, n in enumerate(names):
            want = sign * aff.co.get(n, Fraction(0))
            if not same(want, F(row[i])):
                fails.append({"what": f"{what}: coefficient of {n} differs from what the user wrote", "got": repr(float(row[i])), "want": str(want)})
                return
        if not same(sign * aff.k, const_got):
            fails.append({"what": f"{what}: constant differs from what the user wrote", "got": str(const_got), "want": str(sign * aff.k)})

    if lp.sense != ex["sense"]:
        fails.append({"what": "sense differs from the recipe", "got": lp.sense})
    if ex.get("bounds"):
        def same_bound(w, g):
            if w is None or g is None:
                return w is None and g is None
            try:
                return Fraction(float(w)) == Fraction(float(g))
            except (OverflowError, ValueError):
                return False
        channels = [("LPData.bounds", list(lp.bounds))]
        try:
            channels.append(("Problem.get_bounds()", list(case.P.get_bounds())))
        except Exception as exx:  # noqa: BLE001
            fails.append({"what": f"Problem.get_bounds() raised {type(exx).__name__}"})
        for chan, got in channels:
            for i, n in enumerate(names):
                if n in ex["bounds"] and i < len(got):
                    wl, wu = ex["bounds"][n]
                    if not (same_bound(wl, got[i][0]) and same_bound(wu, got[i][1])):
                        fails.append({"what": f"{chan}: bounds of {n} differ from the declared bounds", "got": repr(tuple(got[i])),
                                      "want": repr((wl, wu))})
                        break
    check_row("objective", ex["obj"], list(lp.c), F(lp.c0), 1)
    ub = [(a, s) for a, s in ex["cons"] if s != "=="]
    eq = [(a, s) for a, s in ex["cons"] if s == "=="]
    Aub = lp.A_ub if lp.A_ub is not None else []
    Aeq = lp.A_eq if lp.A_eq is not None else []
    if len(Aub) != len(ub) or len(Aeq) != len(eq):
        fails.append({"what": "number of rows differs from the recipe", "got": [len(Aub), len(Aeq)], "want": [len(ub), len(eq)]})
        return fails
    for r, (a, s) in enumerate(ub):
        check_row(f"{s} constraint (ub row {r})", a, list(Aub[r]), -F(lp.b_ub[r]), -1 if s == ">=" else 1)
    for r, (a, s) in enumerate(eq):
        check_row(f"== constraint (eq row {r})", a, list(Aeq[r]), -F(lp.b_eq[r]), 1)
    return fails


DTYPES = [("int", None), ("list", "list"), ("int8", np.int8), ("uint8", np.uint8), ("int16", np.int16), ("uint16", np.uint16),
          ("int32", np.int32), ("uint32", np.uint32), ("int64", np.int64), ("uint64", np.uint64), ("float16", np.float16),
          ("float32", np.float32), ("float64", np.float64), ("bool", np.bool_)]
# scalars that overflow the narrow integer types when folded into an array of that type
BIG = {"int8": 200, "uint8": 300, "int16": 70000, "uint16": 70000, "int32": 2 ** 33, "uint32": 2 ** 33, "bool": 5}


def _arr(vals, dt, layout="c"):
    """the user's coefficient array of a given dtype / container / memory layout (values valid in the dtype)"""
    if dt == "list":
        return [float(v) for v in vals]
    if dt is None:
        a = np.array([int(v) for v in vals])
    elif dt is np.bool_:
        a = np.array([bool(int(v) % 2) for v in vals])
    else:
        a = np.array(vals).astype(dt)
    if layout == "strided":
        b = np.zeros(2 * len(a), dtype=a.dtype); b[::2] = a
        return b[::2]
    if layout == "reversed":
        return a[::-1].copy()[::-1]
    return a


def _scalar(k, dt):
    if dt in (None, "list"):
        return k
    if dt is np.bool_:
        return np.bool_(bool(k % 2))
    return dt(k)


def typed_cases(rng):
    """numeric TYPES: every dtype / container / memory layout for coefficient arrays, matmul matrices and scalar
    factors, incl. scalars that overflow the array's dtype if optyx folds them into it"""
    from optyx import Variable, VectorVariable

    out = []

    def setup():
        return {"x": VectorVariable("x", 3, lb=0, ub=9), "y": Variable("y", lb=-2)}

    for dn, dt in DTYPES:
        big = BIG.get(dn, 1000)
        small = 3 if dn != "bool" else 1
        for layout in (("c", "strided", "reversed") if dt not in ("list",) else ("c",)):
            def forms(dn=dn, dt=dt, layout=layout, big=big, small=small):
                A2 = [[1, 2, 3], [3, 0, 1]]

                def mk(vals, B, arrays):
                    a = _arr(vals, dt, layout)
                    if not B.exact:
                        arrays.append(a)
                    return a

                def mat(B, arrays, fortran=False):
                    if dt == "list":
                        return [[float(v) for v in r] for r in A2]
                    a = np.array(A2) if dt is None else (np.array(A2) % 2 == 1 if dt is np.bool_ else np.array(A2).astype(dt))
                    a = np.asfortranarray(a) if fortran else a
                    if not B.exact:
                        arrays.append(a)
                    return a
                sc = lambda k: _scalar(k, dt)
                x, y = (lambda B: B.vec("x")), (lambda B: B.var("y"))
                return [
                    ("c@x", lambda B, A: (mk([1, 2, 3], B, A) @ x(B), "min", [B.le(x(B).sum(), 4)])),
                    ("x@c", lambda B, A: (x(B) @ mk([1, 2, 3], B, A), "max", [B.le(x(B).sum(), 4)])),
                    ("big*(c@x)", lambda B, A: (big * (mk([1, 2, 3], B, A) @ x(B)), "min", [B.ge(mk([1, 0, 3], B, A) @ x(B), 1)])),
                    ("(c@x)*big-1", lambda B, A: ((mk([1, 2, 3], B, A) @ x(B)) * big - 1, "min", [])),
                    ("-(c@x)", lambda B, A: (-(mk([1, 2, 3], B, A) @ x(B)), "max", [B.eq(mk([3, 2, 1], B, A) @ x(B), 2)])),
                    ("(c@x)/2", lambda B, A: ((mk([1, 2, 3], B, A) @ x(B)) / 2, "min", [])),
                    ("1.5-(c@x)", lambda B, A: (1.5 - (mk([1, 2, 3], B, A) @ x(B)), "min", [])),
                    ("c@(x+1)", lambda B, A: (mk([1, 2, 3], B, A) @ (x(B) + 1), "min", [B.le(mk([1, 2, 3], B, A) @ (x(B) + 1), 10)])),
                    ("c@(big*x)", lambda B, A: (mk([1, 2, 3], B, A) @ (big * x(B)), "min", [])),
                    ("c@(x*big-y)", lambda B, A: (mk([1, 2, 3], B, A) @ (x(B) * big - 1), "min", [])),
                    ("ones@matmul", lambda B, A: (np.array([1.0, 1.0]) @ B.matmul(mat(B, A), x(B)), "min", [])),
                    ("c2@matmulF", lambda B, A: (mk([2, 1], B, A) @ B.matmul(mat(B, A, True), x(B)), "min", [])),
                    ("matmul[i]<=", lambda B, A: (x(B).sum(), "min", [B.le(B.matmul(mat(B, A), x(B))[0], 3), B.ge(B.matmul(mat(B, A), x(B))[1], sc(1))])),
                    ("s*y+vs", lambda B, A: (sc(small) * y(B) + x(B).sum(), "min", [])),
                    ("y*s", lambda B, A: (y(B) * sc(small) - x(B)[0], "max", [B.le(y(B) * sc(small), sc(1))])),
                    ("y/s", lambda B, A: (y(B) / sc(2 if small > 1 else 1) + x(B)[1], "min", [])),
                    ("s*vs", lambda B, A: (sc(small) * x(B).sum(), "min", [B.le(x(B).sum() * sc(small), 7)])),
                    ("y+s", lambda B, A: (y(B) + sc(1) + x(B)[0], "min", [B.eq(y(B) - sc(1), x(B)[2])])),
                    ("s-y", lambda B, A: (sc(1) - y(B), "max", [B.ge(sc(small) - x(B).sum(), 0)])),
                    ("s*(c@x)", lambda B, A: (sc(small) * (mk([1, 2, 3], B, A) @ x(B)), "min", [])),
                    ("c@x<=s", lambda B, A: (x(B).sum(), "min", [B.le(mk([1, 2, 3], B, A) @ x(B), sc(small)), B.ge(mk([1, 2, 3], B, A) @ x(B), 0.5)])),
                    ("0d*y", lambda B, A: (np.array(small if dt in (None, "list") else sc(small)) * y(B) + x(B)[0], "min", [])),
                    ("K(s)*x", lambda B, A: (B.const(sc(small)) * x(B)[0] + B.const(sc(1)), "min", [B.le(x(B)[0] * B.const(sc(small)), B.const(sc(1)))])),
                ]
            for fn, build in forms():
                r = mirror_case(f"typed:{dn}:{layout}:{fn}", setup, build)
                out.append(r if isinstance(r, Case) else (f"typed:{dn}:{layout}:{fn}", r))
    return out


def wrapper_cases(rng):
    """operator forms: every wrapper (reflected and plain, nested) around every vector reduction node at the ROOT of
    an objective / constraint, and on both sides of a constraint"""
    from optyx import Variable, VectorVariable, MatrixVariable

    def setup():
        return {"x": VectorVariable("x", 3, lb=0), "y": Variable("y"), "M": MatrixVariable("M", 2, 2, lb=0)}

    c = [2.0, -1.0, 0.5]
    nodes = [
        ("vs", lambda B: B.vec("x").sum()), ("lc", lambda B: np.array(c) @ B.vec("x")), ("lc.rev", lambda B: np.array(c) @ B.vec("x")[::-1]),
        ("ps1", lambda B: (B.vec("x") ** 1).sum()), ("lc(x+1)", lambda B: np.array(c) @ (B.vec("x") + 1)),
        ("lc(2x-x)", lambda B: np.array(c) @ (2 * B.vec("x") - B.vec("x")[::-1])), ("kvs", lambda B: 3 * B.vec("x").sum()),
        ("mat[0]", lambda B: B.matmul(np.array([[1.0, 2.0, 0.0], [0.5, -1.0, 4.0]]), B.vec("x"))[0]), ("vs.slice", lambda B: B.vec("x")[0:2].sum()),
        ("vs+y", lambda B: B.vec("x").sum() + B.var("y")),
    ]
    wraps = [
        ("id", lambda e: e), ("k+e", lambda e: 1.5 + e), ("e+k", lambda e: e + 1.5), ("k-e", lambda e: 2 - e), ("e-k", lambda e: e - 2),
        ("k*e", lambda e: 4 * e), ("e*k", lambda e: e * 0.5), ("e/k", lambda e: e / 4), ("-e", lambda e: -e), ("e**1", lambda e: e ** 1),
        ("e+0", lambda e: e + 0), ("0+e", lambda e: 0 + e), ("1*e", lambda e: 1 * e), ("e*0", lambda e: e * 0), ("-(k-e)", lambda e: -(2 - e)),
        ("(k*e+k)/k", lambda e: (2 * e + 3) / 2), ("k-(-e)*k", lambda e: 1 - (-e) * 2), ("(e-k)*k-k", lambda e: (e - 1) * 4 - 0.5),
        ("-(-e)", lambda e: -(-e)), ("k*(k*e)", lambda e: 2 * (0.5 * e)), ("e-e", lambda e: e - e), ("e+e", lambda e: e + e),
    ]
    out = []
    for nn, node in nodes:
        for wn, w in wraps:
            def build(B, A, node=node, w=w):
                e = w(node(B))
                x, y = B.vec("x"), B.var("y")
                return e, "min", [B.le(w(node(B)), 3), B.ge(w(node(B)), y), B.eq(y - 1, w(node(B))), B.le(2, w(node(B)) + y) if False else B.ge(w(node(B)) + y, 2)]
            r = mirror_case(f"wrap:{wn}:{nn}", setup, build)
            out.append(r if isinstance(r, Case) else (f"wrap:{wn}:{nn}", r))
    return out


def view_cases(rng):
    """every kind of vector-like object in the linear nodes: strided / reversed views, slices of slices, length-1,
    matrix rows / columns / diagonals / blocks / transposes (of slices), symmetric matrices (shared off-diagonal
    variables), 1×n and n×1 matrices, integer / binary domains, ≥ 11 elements, digits and clones in names"""
    from optyx import Variable, VectorVariable, MatrixVariable

    def setup():
        x = VectorVariable("x", 5, lb=0, ub=3)
        M = MatrixVariable("M", 3, 3, lb=-1)
        S = MatrixVariable("S", 3, 3, symmetric=True, ub=5)
        R = MatrixVariable("R", 1, 4)
        C = MatrixVariable("C", 4, 1)
        z = VectorVariable("z", 12, lb=0)                       # natural order ≠ lexicographic order
        i = VectorVariable("i", 3, domain="integer", lb=0, ub=7)
        b = VectorVariable("b", 2, domain="binary")
        x2 = VectorVariable("x2", 3)                            # digits inside base names, prefixes of one another
        x10 = VectorVariable("x10", 2)
        xx = VectorVariable("x", 5, lb=0, ub=3)                 # a clone: same names, other objects
        from optyx.core.matrices import diag_matrix
        dv = VectorVariable("d", 3, lb=0, ub=4)
        D = diag_matrix(dv)                                     # rows / columns are NOT in natural name order
        views = {
            "D[0,:]": D[0, :], "D[1,:]": D[1, :], "D[2,:]": D[2, :], "D[:,1]": D[:, 1], "D[1,::-1]": D[1, ::-1], "D.diag": D.diagonal(),
            "x": x, "x[::2]": x[::2], "x[::-1]": x[::-1], "x[1:4]": x[1:4], "x[1:5][1:3]": x[1:5][1:3], "x[::-1][::2]": x[::-1][::2],
            "x[4:5]": x[4:5], "x[3:0:-1]": x[3:0:-1], "M[0,:]": M[0, :], "M[:,2]": M[:, 2], "M.diag": M.diagonal(), "M.T[0,:]": M.T[0, :],
            "M[0:2,1:3][1,:]": M[0:2, 1:3][1, :], "M[::2,::2][:,1]": M[::2, ::2][:, 1], "M[0:2,:].T[1,:]": M[0:2, :].T[1, :], "M[::-1,0]": M[::-1, 0],
            "S[1,:]": S[1, :], "S[:,0]": S[:, 0], "S.diag": S.diagonal(), "S.T[2,:]": S.T[2, :], "S[0:2,0:2][:,1]": S[0:2, 0:2][:, 1],
            "R[0,:]": R[0, :], "R[0,::-1]": R[0, ::-1], "C[:,0]": C[:, 0], "C.T[0,:]": C.T[0, :], "z": z, "z[::-1]": z[::-1], "z[9:12]": z[9:12],
            "i": i, "i[::-1]": i[::-1], "b": b, "x2": x2, "x10": x10, "xx": xx, "xx[::-1]": xx[::-1],
        }
        views.update({"y": Variable("y", lb=-1), "x1": Variable("x1"), "x01": Variable("x01"), "x[0]a": Variable("x[0]a", ub=2.0),
                      "x[2": Variable("x[2"), "S": S, "M": M})
        return views

    keys = ["x", "x[::2]", "x[::-1]", "x[1:4]", "x[1:5][1:3]", "x[::-1][::2]", "x[4:5]", "x[3:0:-1]", "M[0,:]", "M[:,2]", "M.diag", "M.T[0,:]",
            "M[0:2,1:3][1,:]", "M[::2,::2][:,1]", "M[0:2,:].T[1,:]", "M[::-1,0]", "S[1,:]", "S[:,0]", "S.diag", "S.T[2,:]", "S[0:2,0:2][:,1]",
            "R[0,:]", "R[0,::-1]", "C[:,0]", "C.T[0,:]", "z", "z[::-1]", "z[9:12]", "i", "i[::-1]", "b", "x2", "x10", "xx", "xx[::-1]",
            "D[0,:]", "D[1,:]", "D[2,:]", "D[:,1]", "D[1,::-1]", "D.diag"]
    cs = [1.0, -2.0, 0.5, 4.0, 3.0, -1.0, 2.0, 8.0, -0.5, 1.5, 6.0, -3.0]
    nodes = [
        ("vs", lambda v: v.sum()), ("lc", lambda v: np.array(cs[:len(v)]) @ v), ("lc-k", lambda v: np.array(cs[:len(v)]) @ v - 2),
        ("k*vs", lambda v: 2 * v.sum()), ("ps1", lambda v: (v ** 1).sum()), ("lc(v+1)", lambda v: np.array(cs[:len(v)]) @ (v + 1)),
        ("lc(2v)", lambda v: np.array(cs[:len(v)]) @ (2 * v)), ("v@c", lambda v: v @ np.array(cs[:len(v)])), ("chain", lambda v: v[0] * 2 - v[len(v) - 1] + 1),
    ]
    extras = ["y", "x1", "x01", "x[0]a", "x[2"]
    out = []
    for ki, k in enumerate(keys):
        for nn, node in nodes:
            for mode in ("alone", "plus-other", "two-views"):
                def build(B, A, k=k, node=node, mode=mode, ki=ki):
                    v = B.vec(k)
                    e = node(v)
                    cons = [B.le(node(v), 4)]
                    if mode == "plus-other":
                        o = B.var(extras[ki % len(extras)])
                        e = e + 3 * o
                        cons.append(B.ge(o - node(v), -1))
                    elif mode == "two-views":
                        w = B.vec(keys[(ki * 7 + 3) % len(keys)])
                        e = e - w.sum()
                        cons.append(B.eq(node(v), np.array(cs[:len(w)]) @ w))
                    return e, ("min" if ki % 2 else "max"), cons
                r = mirror_case(f"view:{k}:{nn}:{mode}", setup, build)
                out.append(r if isinstance(r, Case) else (f"view:{k}:{nn}:{mode}", r))
    # trace / symmetric-matrix sums written element by element (shared off-diagonal variables counted twice)
    def build_sym(B, A):
        S = B.vec("S[1,:]"); S0 = B.vec("S[:,0]"); D = B.vec("S.diag")
        e = S.sum() + S0.sum() + 2 * D.sum()
        return e, "min", [B.le(S.sum() + S0.sum(), 5), B.eq(D.sum(), 1), B.ge(np.array([1.0, 2.0, 3.0]) @ S - np.array([3.0, 2.0, 1.0]) @ S0, 0)]
    r = mirror_case("view:symmetric:rows+cols+trace", setup, build_sym)
    out.append(r if isinstance(r, Case) else ("view:symmetric", r))
    return out


def magnitude_cases(rng):
    """numeric magnitudes of every stored number: coefficients, scalar factors, divisors, constants, rhs, bounds.
    Each variable gets contributions of one magnitude only (no cancellation), so a relative tolerance of 1e-12 per
    entry is safe for float arithmetic and a dropped 1e-300 is still an error.  Oracle only (floats round)."""
    from optyx import Variable, VectorVariable

    specials = [0.0, 1e-300, -1e-300, 5e-324, 1e-12, -1e-9, 9.9e-9, 1e-8, 1.0000001e-8, -1e-7, 0.3, -7.0, 1e8, -1e16, 3e17, 1e300]
    out = []
    for mi, m in enumerate(specials):
        m2 = specials[(mi + 5) % len(specials)]

        def setup(m=m, m2=m2):
            lb = m if abs(m) < 1e200 else None
            return {"x": VectorVariable("x", 3, lb=lb, ub=(abs(m2) + abs(m) + 1.0)), "y": Variable("y", lb=-abs(m2) - 1.0, ub=m if m > -1.0 else None)}
        forms = [
            ("k*x", lambda B, A: (m * B.vec("x")[0] + B.var("y"), "min", [B.le(m * B.vec("x")[1], m2)])),
            ("x*k+c", lambda B, A: (B.vec("x")[0] * m + m2, "min", [B.ge(B.vec("x")[2] * m2 - B.var("y"), m)])),
            ("lc", lambda B, A: (np.array([m, 1.0, m2]) @ B.vec("x"), "max", [B.le(np.array([1.0, m, 0.0]) @ B.vec("x"), 1.0)])),
            ("lc-rhs", lambda B, A: (B.vec("x").sum(), "min", [B.le(np.array([m, m2, 1.0]) @ B.vec("x") - m, 0), B.eq(np.array([m, 2.0, 1.0]) @ B.vec("x"), m2)])),
            ("k*vs", lambda B, A: (m * B.vec("x").sum(), "min", [B.ge(B.vec("x").sum() * m2, 1.0)])),
            ("K*x", lambda B, A: (B.const(m) * B.vec("x")[0] + B.const(m2) * B.var("y") + B.const(m), "min", [])),
            ("lc(x+k)", lambda B, A: (np.array([1.0, 2.0, 4.0]) @ (B.vec("x") + m), "min", [])),
            ("lc(k*x)", lambda B, A: (np.array([1.0, 2.0, 4.0]) @ (m * B.vec("x")), "min", [B.le(np.array([1.0, 0.0, 0.0]) @ (m2 * B.vec("x")), m)])),
            ("matmul", lambda B, A: (np.array([1.0, 1.0]) @ B.matmul(np.array([[m, 0.0, 1.0], [0.0, m2, 0.0]]), B.vec("x")), "min", [])),
        ]
        if m != 0 and 1e-300 <= abs(m) <= 1e300:
            forms.append(("x/k", lambda B, A: (B.vec("x")[0] / m + B.var("y"), "min", [B.le(B.var("y") / m, 1.0)])))
        for fn, build in forms:
            r = mirror_case(f"mag:{m!r}:{fn}", setup, build, corr=False, rel_tol=1e-12)
            out.append(r if isinstance(r, Case) else (f"mag:{m!r}:{fn}", r))
    return out


def overlap_cases(rng):
    """OVERLAPPING TERMS: several terms of one expression touching the SAME variables, in every order, with + and −,
    pairs and triples, as objective, as constraint body and split over the two sides of a constraint"""
    from optyx import Variable, VectorVariable, MatrixVariable

    def setup():
        return {"x": VectorVariable("x", 3, lb=0, ub=10), "y": Variable("y"), "M": MatrixVariable("M", 2, 3, lb=0)}

    a, b = np.array([1.0, 2.0, 4.0]), np.array([8.0, -1.0, 0.5])
    terms = [
        ("x0", lambda B: B.vec("x")[0]), ("2x1", lambda B: 2 * B.vec("x")[1]), ("-x2", lambda B: -B.vec("x")[2]), ("vs", lambda B: B.vec("x").sum()),
        ("a@x", lambda B: a @ B.vec("x")), ("b@x", lambda B: b @ B.vec("x")), ("a@rev", lambda B: a @ B.vec("x")[::-1]), ("a2@x[0:2]", lambda B: a[:2] @ B.vec("x")[0:2]),
        ("b2@x[1:3]", lambda B: b[:2] @ B.vec("x")[1:3]), ("ps1", lambda B: (B.vec("x") ** 1).sum()), ("a@(x+1)", lambda B: a @ (B.vec("x") + 1)),
        ("k*(b@x)", lambda B: 3 * (b @ B.vec("x"))), ("-(a@x)", lambda B: -(a @ B.vec("x"))), ("vs[::2]", lambda B: B.vec("x")[::2].sum()),
        ("x@a", lambda B: B.vec("x") @ a), ("(a@x)/2", lambda B: (a @ B.vec("x")) / 2), ("a@x+y", lambda B: a @ B.vec("x") + B.var("y")),
        ("row", lambda B: B.matmul(np.array([[1.0, 0.0, 2.0], [0.5, 4.0, 0.0]]), B.vec("x"))[1]),
    ]
    out = []

    def add(tag, build):
        r = mirror_case(tag, setup, build)
        out.append(r if isinstance(r, Case) else (tag, r))

    for i, (n1, t1) in enumerate(terms):
        for j, (n2, t2) in enumerate(terms):
            for op in ("+", "-"):
                def build(B, A, t1=t1, t2=t2, op=op, k=i + j):
                    comb = (lambda: t1(B) + t2(B)) if op == "+" else (lambda: t1(B) - t2(B))
                    cons = [B.le(comb(), 6), B.ge(comb(), B.var("y")), B.eq(comb(), 1.5), B.le(t1(B), t2(B)), B.ge(t1(B) + 1, t2(B) - B.vec("x")[k % 3])]
                    return comb(), ("max" if k % 2 else "min"), cons
                add(f"overlap:{n1}{op}{n2}", build)
    # triples and longer sums, every rotation
    for _ in range(60):
        pick = [terms[rng.randrange(len(terms))] for _ in range(rng.choice([3, 3, 4, 5]))]
        signs = [rng.choice([1, -1]) for _ in pick]
        def build3(B, A, pick=pick, signs=signs):
            def total():
                e = None
                for (nm, t), sg in zip(pick, signs):
                    v = t(B)
                    e = (v if sg > 0 else -v) if e is None else (e + v if sg > 0 else e - v)
                return e
            return total(), "min", [B.le(total(), 9), B.eq(total() - B.vec("x").sum(), 2)]
        add("overlap3:" + "".join(("+" if sg > 0 else "-") + nm for (nm, _), sg in zip(pick, signs)), build3)
    return out


DOMAIN_BOUNDS = [(None, None), (0.5, 3.7), (-2.5, None), (None, 7.25), (-3.5, -0.5), (0, 4), (0.0, 1.0), (3, 3), (2.5, 2.5), (-0.0, 2),
                 (2.999999999, 3.000000001), (-1e16, 1e16), (1e-9, 1e9 + 0.5), (5e-324, 1e300), (-7, 7.999999999999999), (0.2, 0.8),
                 (np.float64(1.25), np.float32(6.5)), (1, None), (None, -1), (1e16 + 2, 1e17)]


def domain_bound_cases(rng):
    """DOMAIN × BOUNDS: continuous / integer / binary × scalar Variable, VectorVariable, MatrixVariable × non-integral,
    negative, huge, tiny, None, one-sided, equal and explicit-but-redundant bounds.  The declared bounds are part of the
    model: LPData.bounds (and Problem.get_bounds()) must equal them exactly for every domain; binary is [0, 1] as documented."""
    from optyx import Variable, VectorVariable, MatrixVariable

    out = []
    for di, dom in enumerate(("continuous", "integer", "binary")):
        for bi, (lb, ub) in enumerate(DOMAIN_BOUNDS):
            for cont in ("scalar", "vector", "matrix", "mixed"):
                def setup(dom=dom, lb=lb, ub=ub, cont=cont, bi=bi):
                    declared = {}
                    want = (0.0, 1.0) if dom == "binary" else (lb, ub)
                    objs = {}
                    if cont in ("scalar", "mixed"):
                        objs["s"] = Variable("s", lb=lb, ub=ub, domain=dom)
                        declared["s"] = want
                    if cont in ("vector", "mixed"):
                        objs["v"] = VectorVariable("v", 3, lb=lb, ub=ub, domain=dom)
                        declared.update({f"v[{i}]": want for i in range(3)})
                    if cont in ("matrix", "mixed"):
                        objs["M"] = MatrixVariable("M", 2, 2, lb=lb, ub=ub, domain=dom)
                        declared.update({f"M[{i},{j}]": want for i in range(2) for j in range(2)})
                    # a continuous companion with other bounds (bounds must not leak between variables)
                    lb2, ub2 = DOMAIN_BOUNDS[(bi + 7) % len(DOMAIN_BOUNDS)]
                    objs["c"] = Variable("c", lb=lb2, ub=ub2)
                    declared["c"] = (lb2, ub2)
                    objs["_declared"] = declared
                    return objs

                def build(B, A, cont=cont):
                    e = 2 * B.var("c")
                    cons = []
                    if cont in ("scalar", "mixed"):
                        e = e + 3 * B.var("s")
                        cons.append(B.le(B.var("s") + B.var("c"), 10))
                    if cont in ("vector", "mixed"):
                        v = B.vec("v")
                        e = e + np.array([1.0, -1.0, 0.5]) @ v
                        cons.append(B.ge(v.sum(), -20))
                        cons.append(B.le(v[::-1][0] - v[0], 4))
                    if cont in ("matrix", "mixed"):
                        e = e + B.ob_row("M", 0).sum() - B.ob_col("M", 1).sum()
                        cons.append(B.eq(B.ob_row("M", 1).sum(), B.var("c")))
                    return e, ("min" if len(cons) % 2 else "max"), cons
                tag = f"dombounds:{dom}:{cont}:{lb!r},{ub!r}"
                r = mirror_case(tag, setup, build)
                out.append(r if isinstance(r, Case) else (tag, r))
    return out


VE_CONTAINERS = ("x", "z", "M", "Q")
VE_CS = [1.0, -2.0, 0.5, 4.0, 3.0, -1.0, 2.0, 8.0, -0.5, 1.5, 6.0, -3.0]
VE_NODES = [
    ("vs", lambda v: v.sum()), ("lc", lambda v: np.array(VE_CS[:len(v)]) @ v), ("kvs", lambda v: 2 * v.sum()), ("ps1", lambda v: (v ** 1).sum()),
    ("v@c", lambda v: v @ np.array(VE_CS[:len(v)])), ("lc-k", lambda v: np.array(VE_CS[:len(v)]) @ v - 2), ("-lc", lambda v: -(np.array(VE_CS[:len(v)]) @ v)),
    ("vs/2+k", lambda v: v.sum() / 2 + 1.5), ("lc(v+1)", lambda v: np.array(VE_CS[:len(v)]) @ (v + 1)), ("lc+vs", lambda v: np.array(VE_CS[:len(v)]) @ v + v.sum()),
]
# (objective, sense, constraints) from: the back-end B, N = the vector node over THE view object (every call builds a
# new node over the same view object), N2 = a node over ANOTHER view of the same container, e / e2 = bare elements
VE_FORMS = [
    ("N+ke|N", lambda B, N, N2, e, e2: (N() + 3 * e, "min", [B.le(N(), 4)])),
    ("ke+N|N", lambda B, N, N2, e, e2: (2 * e + N(), "max", [B.ge(N(), 1)])),
    ("N|N-ke", lambda B, N, N2, e, e2: (N(), "min", [B.le(N() - 2 * e, 5)])),
    ("N|e>=", lambda B, N, N2, e, e2: (N(), "min", [B.ge(e, 1)])),
    ("N|ke<=,e2==", lambda B, N, N2, e, e2: (N(), "max", [B.le(3 * e, 6), B.eq(e2, 2)])),
    ("N-e|N-2e,e", lambda B, N, N2, e, e2: (N() - e, "min", [B.ge(N() - 2 * e, 1), B.le(e, 3)])),
    ("N+e+e2|e-e2", lambda B, N, N2, e, e2: (N() + e + 0.5 * e2, "min", [B.le(e - e2, 1), B.ge(N() + e2, 0)])),
    ("ke|N", lambda B, N, N2, e, e2: (2 * e - 1, "max", [B.le(N(), 4), B.ge(N() + e2, -3)])),
    ("N|N,e+N==", lambda B, N, N2, e, e2: (N(), "min", [B.le(N(), 4), B.eq(e + N(), 2)])),
    ("k(N+e)|(N-e)/k", lambda B, N, N2, e, e2: (2 * (N() + e) - 1, "min", [B.le((N() - e) / 2, 3)])),
    ("N+N|e<=N", lambda B, N, N2, e, e2: (N() + N(), "max", [B.le(e, N()), B.ge(4 * e2, 1)])),
    ("N+e|N2-e2", lambda B, N, N2, e, e2: (N() + e, "min", [B.le(N2() - e2, 3), B.ge(N(), -1)])),
]


def ve_setup(cont):
    """one container (vector, long vector, matrix, square matrix), its views, and every element under 'e<flat index>'"""
    from optyx import VectorVariable, MatrixVariable

    if cont == "x":
        x = VectorVariable("x", 7, lb=0, ub=10)
        elems, bounds = list(x), (0, 10)
        views = {"x": x, "x[2:5]": x[2:5], "x[3:]": x[3:], "x[:4]": x[:4], "x[1:6]": x[1:6], "x[::2]": x[::2], "x[1::2]": x[1::2],
                 "x[1:6:2]": x[1:6:2], "x[::-1]": x[::-1], "x[5:1:-1]": x[5:1:-1], "x[2:7][1:3]": x[2:7][1:3], "x[4:5]": x[4:5],
                 "x[6:2:-2]": x[6:2:-2], "x[5:]": x[5:]}
    elif cont == "z":                                               # ≥ 11 elements: natural order ≠ lexicographic order
        z = VectorVariable("z", 12, lb=-1, ub=None)
        elems, bounds = list(z), (-1, None)
        views = {"z[9:12]": z[9:12], "z[2:11:3]": z[2:11:3], "z[10:3:-2]": z[10:3:-2], "z[1:11]": z[1:11]}
    elif cont == "M":
        M = MatrixVariable("M", 3, 4, lb=-1, ub=6)
        elems, bounds = [M[i, j] for i in range(3) for j in range(4)], (-1, 6)
        views = {"M[1,:]": M[1, :], "M[:,2]": M[:, 2], "M[2,1:3]": M[2, 1:3], "M[0,::-1]": M[0, ::-1], "M[1:,0]": M[1:, 0],
                 "M.T[3,:]": M.T[3, :], "M[0:2,1:4][1,:]": M[0:2, 1:4][1, :], "M[::2,3]": M[::2, 3]}
    else:
        Q = MatrixVariable("Q", 3, 3, lb=None, ub=2.5)
        elems, bounds = [Q[i, j] for i in range(3) for j in range(3)], (None, 2.5)
        views = {"Q.diag": Q.diagonal(), "Q[2,:]": Q[2, :], "Q.T[0,:]": Q.T[0, :], "Q[::-1,1]": Q[::-1, 1]}
    objs = dict(views)
    objs.update({f"e{i}": v for i, v in enumerate(elems)})
    objs["_declared"] = {v.name: bounds for v in elems}
    objs["_views"] = list(views)
    objs["_n"] = len(elems)
    return objs


def ve_picks(objs, key):
    """bare elements of the container relative to the view `key`: flat indices, one or two per class — outside the
    view below / above its range / in its gaps, outside with index < len(view) and ≥ len(view), for matrices outside
    but in a row / column the view touches, and inside the view (first, last, index ≥ len(view))"""
    n = objs["_n"]
    pos = {objs[f"e{i}"].name: i for i in range(n)}
    inside = [pos[v.name] for v in objs[key]]
    L, lo, hi = len(inside), min(inside), max(inside)
    out = [i for i in range(n) if i not in inside]
    rc = lambda i: tuple(objs[f"e{i}"].name.partition("[")[2].rstrip("]").split(","))
    rows = {rc(i)[0] for i in inside}
    cols = {rc(i)[-1] for i in inside}
    matrix = len(rc(0)) == 2
    classes = [
        [i for i in out if i < lo], [i for i in out if i > hi], [i for i in out if lo < i < hi],
        [i for i in out if i < L], [i for i in out if i >= L],
        [i for i in out if matrix and rc(i)[0] in rows], [i for i in out if matrix and rc(i)[-1] in cols],
        [i for i in out if matrix and rc(i)[0] not in rows and rc(i)[-1] not in cols],
        inside[:1], inside[-1:], [i for i in inside if i >= L][:1],
    ]
    picks = []
    for cl in classes:
        for i in (cl[:1] + cl[-1:]):
            if i not in picks:
                picks.append(i)
    return picks


def view_element_cases(rng, thorough=False):
    """VIEW × BARE ELEMENTS OF THE PARENT CONTAINER, nothing else in the problem (so that every single-container
    shortcut — of Problem.variables, of the extractor — is in play): every vector node over ONE view object (unit /
    offset / strided / reversed slices, slices of slices, length 1, the whole vector; matrix rows, columns, partial and
    reversed rows, transposes, blocks, diagonals) mixed with bare scalar elements of the parent container inside the view
    and outside it (below / above / in the gaps of its index range, index < and ≥ len(view), same row / column), in the
    objective only, in a constraint only, in both, as a bare-leaf constraint, element first and node first, under
    wrappers, and beside a second view.  Expected LP: the recipe's exact affine functions over ALL variables written."""
    out = []
    for cont in VE_CONTAINERS:
        probe = ve_setup(cont)
        vkeys = probe["_views"]
        for vi, key in enumerate(vkeys):
            picks = ve_picks(probe, key)
            for pi, ei in enumerate(picks):
                e2i = picks[(pi + 1) % len(picks)]
                other = vkeys[(vi + 3) % len(vkeys)]
                # quick tier: half of the forms per (view, element), one node kind per form — every form still meets
                # every view and every element class many times over; thorough: every form, three node kinds each
                chosen = set(range(len(VE_FORMS))) if thorough else set(rng.sample(range(len(VE_FORMS)), len(VE_FORMS) // 2))
                for fi, (fn, form) in enumerate(VE_FORMS):
                    if fi not in chosen:
                        continue
                    kinds = rng.sample(VE_NODES, 3) if thorough else [VE_NODES[rng.randrange(len(VE_NODES))]]
                    for nn, node in kinds:
                        def build(B, A, key=key, other=other, ei=ei, e2i=e2i, node=node, form=form, k2=(vi + pi + fi)):
                            v, w = B.vec(key), B.vec(other)
                            n2 = VE_NODES[k2 % 4][1]
                            return form(B, lambda: node(v), lambda: n2(w), B.var(f"e{ei}"), B.var(f"e{e2i}"))
                        tag = f"viewelem:{key}:{nn}:e{ei},e{e2i}:{fn}"
                        r = mirror_case(tag, lambda cont=cont: ve_setup(cont), build)
                        out.append(r if isinstance(r, Case) else (tag, r))
    return out


# ----------------------------------------------------------------------------- histories on ONE Problem object
#
# After every step of a history the extraction of the (mutated, possibly cache-carrying) Problem must equal the
# extraction of a FRESH Problem built from the current model, and must satisfy the oracle.  A history is a pure
# function of its seed, so a replay file only needs the seed.

HIST_NAMES = ["a0", "audit", "b", "hold", "k[0]", "k[1]", "k[2]", "m", "ship", "t10", "t9", "waste", "z"]


def fresh_copy(P):
    from optyx import Problem

    Q = Problem()
    if P.objective is not None:
        (Q.minimize if P.sense == "minimize" else Q.maximize)(P.objective)
    for c in P.constraints:
        Q.subject_to(c)
    return Q


def run_history(hseed, want_lines=False):
    """returns (failures, steps_done, lines) — lines = [(protocol line of the current model, extraction text)]"""
    from optyx import Problem, Variable, VectorVariable
    from optyx.core.expressions import Constant

    rng = core.Rng(hseed)
    b = lambda: rng.choice([None, None, 0, -1.5, 2.0, 8, 0.25])
    vec = VectorVariable("k", 3, lb=b(), ub=b())
    scal = {n: Variable(n, lb=b(), ub=b()) for n in HIST_NAMES if not n.startswith("k[")}
    byname = dict(scal)
    byname.update({v.name: v for v in vec})
    names = sorted(byname)

    def lin(vs, const=True):
        e = None
        for v in vs:
            t = rng.choice([lambda: dy(rng) * v, lambda: v * dy(rng), lambda: v, lambda: -v, lambda: v / p2(rng), lambda: (Constant(2) + 1) * v])()
            e = t if e is None else (e + t if rng.random() < 0.7 else e - t)
        if e is None:
            e = Constant(dy(rng))
        if const and rng.random() < 0.5:
            e = e + dy(rng)
        return e

    def objective_over(vs):
        r = rng.random()
        if r < 0.2 and all(v.name.startswith("k[") for v in vs) and len(vs) == 3:
            return rng.choice([lambda: vec.sum(), lambda: np.array([dy(rng) for _ in range(3)]) @ vec, lambda: np.array([1.0, 2.0, 4.0]) @ vec[::-1] - 1])()
        return lin(vs)

    def constraint_over(vs):
        lhs = lin(vs)
        rhs = rng.choice([lambda: dy(rng), lambda: lin(vs[:1], False), lambda: dy(rng)])()
        s = rng.choice(["<=", ">=", "=="])
        return (lhs <= rhs) if s == "<=" else (lhs >= rhs) if s == ">=" else lhs.eq(rhs)

    # the model: constraint variables C, plus one objective-only variable that later moves to the other side of C
    k = rng.randint(1, 4)
    mid = sorted(rng.sample(names[2:-2], k))
    C = [byname[n] for n in mid]
    lo = [n for n in names if n < mid[0]]
    hi = [n for n in names if n > mid[-1]]
    inner = [n for n in names if mid[0] < n < mid[-1] and n not in mid]
    P = Problem()
    only = byname[rng.choice(hi if rng.random() < 0.5 else lo)]
    (P.minimize if rng.random() < 0.5 else P.maximize)(objective_over(C + [only]) if rng.random() < 0.8 else objective_over([only]))
    for _ in range(rng.randint(1, 3)):
        P.subject_to(constraint_over(rng.sample(C, rng.randint(1, len(C)))))

    fails, lines = [], []
    steps = []

    def observe(step):
        lpH, exH = extract_real(P)
        tH = lp_text(lpH) if lpH is not None else err_text(exH)
        Q = fresh_copy(P)
        lpF, exF = extract_real(Q)
        tF = lp_text(lpF) if lpF is not None else err_text(exF)
        where = {"history_seed": hseed, "step": len(steps), "steps": list(steps), "after": step}
        if tH != tF:
            fails.append({"what": "extraction of the Problem after this history differs from the extraction of a fresh Problem "
                                  "built from the current model", "history": tH[:600], "fresh": tF[:600], **where})
        if lpH is not None:
            for f in lp_oracle(P, lpH, rng, "history"):
                f.update(where)
                fails.append(f)
        if want_lines:
            try:
                lines.append((problem_line(Q, Ids()), tH))
            except Unsupported:
                pass
        return lpH

    steps.append("build")
    observe("build")
    for _ in range(rng.randint(2, 6)):
        if fails:
            break
        op = rng.choice(["swap-objective-same-size", "swap-objective-same-size", "swap-objective-same-size", "objective-other-size", "add-constraint",
                         "add-constraint-new-var", "edit-bounds", "flip-sense", "same-objective-again", "solve", "read-only"])
        try:
            if op == "swap-objective-same-size":
                # a variable used only by the old objective drops out, a new objective-only variable on the OTHER side (or
                # inside the span) of the constraint variables comes in: same number of columns, shifted layout
                pool = [n for n in (lo + hi + inner) if n != only.name]
                other_side = [n for n in pool if (n < mid[0]) != (only.name < mid[0])] or pool
                only = byname[rng.choice(other_side if rng.random() < 0.8 else pool)]
                keep = C if rng.random() < 0.7 else rng.sample(C, rng.randint(0, len(C)))
                (P.minimize if rng.random() < 0.5 else P.maximize)(objective_over(list(keep) + [only]))
            elif op == "objective-other-size":
                extra = [byname[n] for n in rng.sample(lo + hi + inner, rng.randint(0, 3))]
                (P.minimize if rng.random() < 0.5 else P.maximize)(objective_over(rng.sample(C, rng.randint(0, len(C))) + extra))
            elif op == "add-constraint":
                P.subject_to(constraint_over(rng.sample(C, rng.randint(1, len(C)))))
            elif op == "add-constraint-new-var":
                P.subject_to(constraint_over(rng.sample(C, 1) + [byname[rng.choice(lo + hi + inner)]]))
            elif op == "edit-bounds":
                v = rng.choice(P.variables) if P.variables else only
                v.lb, v.ub = rng.choice([None, -2.5, 0.0, 0.5]), rng.choice([None, 3.5, 7.25, 1e16])
            elif op == "flip-sense":
                (P.maximize if P.sense == "minimize" else P.minimize)(P.objective)
            elif op == "same-objective-again":
                (P.minimize if P.sense == "minimize" else P.maximize)(P.objective)
            elif op == "solve":
                with warnings.catch_warnings(), np.errstate(all="ignore"):
                    warnings.simplefilter("ignore")
                    try:
                        P.solve()
                    except Exception:  # noqa: BLE001   (unbounded / infeasible models etc. are not this property's business)
                        pass
                cached = getattr(P, "_lp_cache", None)
                if cached is not None:
                    lpF, _ = extract_real(fresh_copy(P))
                    if lpF is not None and lp_text(cached) != lp_text(lpF):
                        fails.append({"what": "the LP cached by solve() differs from the extraction of a fresh Problem of the current model",
                                      "cached": lp_text(cached)[:600], "fresh": lp_text(lpF)[:600], "history_seed": hseed, "steps": list(steps) + [op]})
            else:
                _ = (P.variables, P.n_variables, P.n_constraints, P.get_bounds(), repr(P), P._is_linear_problem())
                if hasattr(P, "summary"):
                    try:
                        P.summary()
                    except Exception:  # noqa: BLE001
                        pass
        except RecursionError:
            raise
        except Exception as ex:  # noqa: BLE001
            steps.append(f"{op}: raised {type(ex).__name__}")
            continue
        steps.append(op)
        observe(op)
    return fails, len(steps), lines


# ----------------------------------------------------------------------------- parametric linear models
#
# Models that are linear in the variables with scalar Parameters as coefficients / right-hand sides / constants,
# SEVERAL DISTINCT Parameter objects with the SAME name included (Parameter.__eq__ / __hash__ go by name), in
# histories  solve -> set one (or two) parameters -> solve -> ...   The oracle is conditional: WHENEVER the tree under
# test holds LP data for such a model (Problem._lp_cache after a solve, LinearProgramExtractor().extract, the arrays
# handed to linprog), these data must denote the model at the parameter values the HARNESS last passed to set() (its
# own bookkeeping `pv`, not read back from the objects), judged by Fraction evaluation of the recipe at integer points.

PARAM_VAR_NAMES = ["a", "b", "cap", "k1", "k10", "k2", "load", "x", "y"]
PARAM_BASE_NAMES = ["cost", "demand", "p", "price", "rate"]


def _close(want, got):
    w, g = float(want), float(got)
    return abs(w - g) <= 1e-9 * (1.0 + abs(w) + abs(g))


def run_param_history(hseed):
    """a pure function of its seed.  returns (failures, steps done, number of LP data sets judged)"""
    from optyx import Parameter, Problem, Variable
    import scipy.optimize as LPS   # the seam: solve_lp does `from scipy.optimize import linprog` inside the call

    rng = core.Rng(hseed)
    Fr = Fraction
    pval = lambda: rng.choice([1.0, 2.0, 3.0, -1.0, 0.5, 1.5, 4.0, -2.0, 0.25, 5, 2, -3, 8.0])   # never 0: x / p stays regular
    nv = rng.randint(2, 4)
    xs = [Variable(nm, lb=rng.choice([0, 0.0, -1.0, 0.5]), ub=rng.choice([6, 4.0, 10.0, 2.5]))
          for nm in sorted(rng.sample(PARAM_VAR_NAMES, nv))]
    npar = rng.randint(2, 4)
    scheme = rng.choice(["distinct", "all-same", "all-same", "pairs", "pairs", "same-as-variable"])
    base = rng.choice(PARAM_BASE_NAMES)
    if scheme == "distinct":
        pnames = [f"{base}{j}" for j in range(npar)]
    elif scheme == "all-same":
        pnames = [base] * npar
    elif scheme == "pairs":
        pnames = [f"{base}{j // 2}" for j in range(npar)]
    else:   # a parameter called like a variable of the model, the others share one name
        pnames = [xs[0].name] + [base] * (npar - 1)
    pv = [Fr(pval()) for _ in range(npar)]                      # the harness's bookkeeping
    params = [Parameter(nm, float(v)) for nm, v in zip(pnames, pv)]
    numeric_only = rng.random() < 0.12                          # no Parameter in the model: an LP on every tree

    def pexpr():
        """a parameter-valued scalar: (optyx node or number, pv -> Fraction)"""
        k = rng.choice([2.0, 0.5, 3, -1.0, 4.0, 1.5, -2])
        if numeric_only or rng.random() < 0.15:
            return k, (lambda pv, k=k: Fr(k))
        i, j = rng.randrange(npar), rng.randrange(npar)
        p, q = params[i], params[j]
        return rng.choice([
            lambda: (p, lambda pv: pv[i]),
            lambda: (p, lambda pv: pv[i]),
            lambda: (k * p, lambda pv: Fr(k) * pv[i]),
            lambda: (p * k, lambda pv: pv[i] * Fr(k)),
            lambda: (-p, lambda pv: -pv[i]),
            lambda: (p + k, lambda pv: pv[i] + Fr(k)),
            lambda: (k - p, lambda pv: Fr(k) - pv[i]),
            lambda: (p / 2, lambda pv: pv[i] / 2),
            lambda: (p + q, lambda pv: pv[i] + pv[j]),
            lambda: (p - q, lambda pv: pv[i] - pv[j]),
            lambda: (p * q, lambda pv: pv[i] * pv[j]),
        ])()

    def term(x):
        """coefficient · x in one of the writing styles: (optyx expr, pv -> Fraction coefficient)"""
        w, f = pexpr()
        r = rng.random()
        if r < 0.4:
            return w * x, f
        if r < 0.75:
            return x * w, f
        if r < 0.85 and not numeric_only:
            i = rng.randrange(npar)                              # x / p: parameter values are never 0
            return x / params[i], (lambda pv: 1 / pv[i])
        if r < 0.93:
            return -(w * x), (lambda pv: -f(pv))
        return (w * x) * 2, (lambda pv: 2 * f(pv))

    def lin(vs, const_p):
        """(optyx expr, pv -> ({name: Fraction}, Fraction))"""
        e, parts = None, []
        for x in vs:
            t, f = term(x)
            sub = e is not None and rng.random() < 0.3
            e = t if e is None else (e - t if sub else e + t)
            parts.append((x.name, f, -1 if sub else 1))
        kf = None
        if rng.random() < const_p:
            w, kf = pexpr()
            left = rng.random() < 0.25 and not isinstance(w, (int, float))
            e = (w + e) if left else (e + w)

        def aff(pv):
            co = {}
            for nm, f, s in parts:
                co[nm] = co.get(nm, Fr(0)) + s * f(pv)
            return co, (kf(pv) if kf is not None else Fr(0))
        return e, aff

    def constraint():
        vs = rng.sample(xs, rng.randint(1, len(xs)))
        if rng.random() < 0.25:
            vs = vs + [rng.choice(vs)]                           # the same variable twice: coefficients add up
        lhs, fl = lin(vs, 0.3)
        w, fr = pexpr()
        s = rng.choice(["<=", "<=", ">=", ">=", "=="])
        con = (lhs <= w) if s == "<=" else (lhs >= w) if s == ">=" else lhs.eq(w)

        def aff(pv):
            co, k = fl(pv)
            return co, k - fr(pv)
        return con, aff, s

    def objective():
        vs = rng.sample(xs, rng.randint(1, len(xs)))
        return lin(vs, 0.6)

    P = Problem()
    model = {"obj": None, "sense": None, "cons": []}

    def set_objective():
        e, aff = objective()
        model["sense"] = rng.choice(["min", "max"])
        (P.minimize if model["sense"] == "min" else P.maximize)(e)
        model["obj"] = aff

    def add_constraint():
        con, aff, s = constraint()
        P.subject_to(con)
        model["cons"].append((aff, s))

    fails, steps, judged = [], [], [0]

    def where():
        return {"param_history_seed": hseed, "steps": list(steps), "parameter_names": pnames,
                "parameter_values_last_set": [str(v) for v in pv], "naming": scheme}

    def judge(what, names, c, c0, sense, A_ub, b_ub, A_eq, b_eq):
        """LP data of the tree under test vs the recipe at the harness's parameter values"""
        judged[0] += 1
        want_names = [v.name for v in P.variables]
        if list(names) != want_names:
            fails.append({"what": f"{what}: variables are not the problem's variable order", "got": list(names), "want": want_names, **where()})
            return
        if sense is not None and sense != model["sense"]:
            fails.append({"what": f"{what}: sense differs", "got": sense, "want": model["sense"], **where()})
        F = lambda a: [Fr(float(t)) for t in np.asarray(a, dtype=float).ravel().tolist()]
        rows = {"ub": ([F(r) for r in A_ub] if A_ub is not None else [], F(b_ub) if b_ub is not None else []),
                "eq": ([F(r) for r in A_eq] if A_eq is not None else [], F(b_eq) if b_eq is not None else [])}
        ub = [(aff, s) for aff, s in model["cons"] if s != "=="]
        eq = [(aff, s) for aff, s in model["cons"] if s == "=="]
        if [len(rows["ub"][0]), len(rows["ub"][1]), len(rows["eq"][0]), len(rows["eq"][1])] != [len(ub), len(ub), len(eq), len(eq)]:
            fails.append({"what": f"{what}: number of rows differs from the number of constraints of that kind", **where()})
            return
        cc = F(c)
        if len(cc) != len(names):
            fails.append({"what": f"{what}: len(c) != number of variables", **where()})
            return
        prng = core.Rng(hseed ^ 0x5A5A)
        for _ in range(3):
            pt = {nm: Fr(prng.randint(-5, 5)) for nm in names}
            value = lambda co, k: sum((a * pt[nm] for nm, a in co.items()), Fr(0)) + k
            dot = lambda row: sum((a * pt[nm] for a, nm in zip(row, names)), Fr(0))
            n0 = len(fails)
            if c0 is not None:
                want, got = value(*model["obj"](pv)), dot(cc) + Fr(float(c0))
                if not _close(want, got):
                    fails.append({"what": f"{what}: c·x + c0 differs from the objective at the parameter values last set",
                                  "point": {k: str(v) for k, v in pt.items()}, "got": str(got), "want": str(want), **where()})
            else:   # no constant available on this channel (linprog kwargs): compare the differences to the origin
                co, _k = model["obj"](pv)
                want, got = value(co, Fr(0)), dot(cc)
                if not _close(want, got):
                    fails.append({"what": f"{what}: c·x differs from the linear part of the objective at the parameter values last set",
                                  "point": {k: str(v) for k, v in pt.items()}, "got": str(got), "want": str(want), **where()})
            for kind, cons in (("ub", ub), ("eq", eq)):
                for r, (aff, s) in enumerate(cons):
                    val = value(*aff(pv))
                    want = -val if s == ">=" else val
                    got = dot(rows[kind][0][r]) - rows[kind][1][r]
                    if not _close(want, got):
                        fails.append({"what": f"{what}: row·x − rhs differs from the user's constraint ({s}, {kind} row {r}) at the parameter values last set",
                                      "point": {k: str(v) for k, v in pt.items()}, "got": str(got), "want": str(want), **where()})
            if len(fails) > n0:
                return

    def judge_lp(what, lp):
        judge(what, lp.variables, lp.c, lp.c0, lp.sense, lp.A_ub, lp.b_ub, lp.A_eq, lp.b_eq)

    def solve():
        seen = []
        orig = LPS.linprog

        def spy(*a, **kw):
            seen.append({k: (np.array(kw[k], dtype=float, copy=True) if kw.get(k) is not None else None) for k in ("c", "A_ub", "b_ub", "A_eq", "b_eq")})
            return orig(*a, **kw)

        sol = None
        LPS.linprog = spy
        try:
            with warnings.catch_warnings(), np.errstate(all="ignore"):
                warnings.simplefilter("ignore")
                try:
                    # "problems optyx treats as a linear program": the default route when the tree classifies the model as
                    # linear, else an explicit request for the LP route (the tree may refuse: an error class, not judged);
                    # models the tree sends to the NLP solvers are not this property's subject (and slow)
                    if P._is_linear_problem():
                        method = rng.choice(["auto", "auto", "auto", "linprog", "highs"])
                    else:
                        method = rng.choice(["linprog", "highs"])
                    steps[-1] = f"solve(method={method!r})"
                    sol = P.solve(method=method)
                except Exception as ex:  # noqa: BLE001   (infeasible / unbounded / refused models: not this property)
                    steps.append(f"solve raised {type(ex).__name__}")
        finally:
            LPS.linprog = orig
        names = [v.name for v in P.variables]
        for kw in seen[:1]:
            if kw["c"] is not None:
                c = kw["c"] if model["sense"] == "min" else -kw["c"]
                judge("the arrays solve() handed to linprog", names, c, None, None, kw["A_ub"], kw["b_ub"], kw["A_eq"], kw["b_eq"])
        cached = getattr(P, "_lp_cache", None)
        if cached is not None and not fails:
            judge_lp("Problem._lp_cache after solve()", cached)
        if seen and sol is not None and not fails and getattr(sol, "is_optimal", False) and sol.objective_value is not None:
            # the LP route answered "optimal": the reported objective value is the user's objective at the reported point
            try:
                pt = {nm: Fr(float(sol.values[nm])) for nm in names}
                co, k = model["obj"](pv)
                want = float(sum((a * pt[nm] for nm, a in co.items()), Fr(0)) + k)
                if abs(want - float(sol.objective_value)) > 1e-6 * (1.0 + abs(want)):
                    fails.append({"what": "LP route: Solution.objective_value is not the user's objective (at the parameter values last set) at Solution.values",
                                  "got": repr(float(sol.objective_value)), "want": repr(want), "values": {k2: float(v) for k2, v in sol.values.items()}, **where()})
            except KeyError:
                pass
        return cached

    def observe(after_solve=True):
        # between set() and the next solve() the cache may legitimately hold the previous values (a tree may validate it
        # when solving): it is judged only right after a solve
        cached = getattr(P, "_lp_cache", None) if after_solve else None
        lpE, _ = extract_real(P)
        if lpE is not None and not fails:
            judge_lp("LinearProgramExtractor().extract(problem)", lpE)
        lpF, _ = extract_real(fresh_copy(P))
        if lpF is not None and not fails:
            judge_lp("extract of a fresh Problem of the current model", lpF)
            if cached is not None and lp_text(cached) != lp_text(lpF):
                fails.append({"what": "the LP cached by solve() differs from the extraction of a fresh Problem of the current model",
                              "cached": lp_text(cached)[:600], "fresh": lp_text(lpF)[:600], **where()})

    set_objective()
    for _ in range(rng.randint(1, 3)):
        add_constraint()
    steps.append("build")
    steps.append("solve")
    solve()
    observe()
    for _ in range(rng.randint(2, 6)):
        if fails:
            break
        op = rng.choice(["set-one", "set-one", "set-one", "set-one", "set-two", "set-same-value", "add-constraint", "new-objective", "read-only"])
        if op in ("set-one", "set-two"):
            for j in rng.sample(range(npar), 1 if op == "set-one" else 2):
                new = rng.choice([pval(), pval(), -float(pv[j]), 1.0, float(pv[j]) + 1.0])
                if new == 0:
                    new = 1.0
                params[j].set(new)
                pv[j] = Fr(new)
                steps.append(f"parameter #{j} ({pnames[j]!r}).set({new!r})")
        elif op == "set-same-value":
            j = rng.randrange(npar)
            params[j].set(float(pv[j]))
            steps.append(f"parameter #{j} ({pnames[j]!r}).set(same value)")
        elif op == "add-constraint":
            add_constraint()
            steps.append(op)
        elif op == "new-objective":
            set_objective()
            steps.append(op)
        else:
            _ = (P.variables, P.n_variables, P.n_constraints, repr(P), P._is_linear_problem())
            steps.append(op)
        if rng.random() < 0.25:
            observe(after_solve=False)                          # a fresh extract between set() and solve() must not hide / cause anything
            steps.append("extract")
        steps.append("solve")
        solve()
        if not fails:
            observe()
    return fails, len(steps), judged[0]


class SkipPoint(Exception):
    pass


def user_value(e, pt):
    """value of the user's expression at the rational point `pt`: ("exact", Fraction) through the Fraction
    interpreter, else ("float", float) through the independent float interpreter (transcendental constants …)"""
    import oracle

    try:
        return "exact", frac_eval(e, pt)
    except DivZero:
        raise SkipPoint("division by the literal 0")
    except NotPoly:
        pass
    try:
        with warnings.catch_warnings(), np.errstate(all="ignore"):
            warnings.simplefilter("ignore")
            v = float(oracle.prim(oracle.ref_eval(e, {k: float(x) for k, x in pt.items()})))
    except (oracle.NotRegular, OverflowError, ZeroDivisionError, ValueError, AttributeError, TypeError):
        raise SkipPoint("no regular value")
    return "float", v


def differs(mode, want, got):
    if mode == "exact":
        return want != got
    g = float(got)
    return abs(want - g) > 1e-9 * (1.0 + abs(want) + abs(g))


def lp_oracle(P, lp, rng, tag, values=True):
    """the property itself, checked on the real extraction result with exact rationals.
    returns a list of failure dicts (empty = holds)"""
    fails = []
    V = P.variables
    names = [v.name for v in V]
    if list(lp.variables) != names:
        fails.append({"what": "LP.variables is not the problem's variable order", "got": list(lp.variables), "want": names})
        return fails
    n = len(names)
    F = lambda a: [Fraction(float(t)) for t in np.asarray(a, dtype=float).tolist()]
    c = F(lp.c)
    if len(c) != n:
        return [{"what": "len(c) != number of variables"}]
    decl = [(v.lb, v.ub) for v in V]
    if [tuple(b) for b in lp.bounds] != decl:
        fails.append({"what": "bounds differ from the declared bounds", "got": str(lp.bounds), "want": str(decl)})
    if lp.sense != ("min" if P.sense == "minimize" else "max"):
        fails.append({"what": "sense differs", "got": lp.sense})
    ub = [k for k in P.constraints if k.sense != "=="]
    eq = [k for k in P.constraints if k.sense == "=="]
    Aub = [F(r) for r in lp.A_ub] if lp.A_ub is not None else []
    bub = F(lp.b_ub) if lp.b_ub is not None else []
    Aeq = [F(r) for r in lp.A_eq] if lp.A_eq is not None else []
    beq = F(lp.b_eq) if lp.b_eq is not None else []
    if (len(Aub), len(bub), len(Aeq), len(beq)) != (len(ub), len(ub), len(eq), len(eq)):
        fails.append({"what": "number of rows differs from the number of constraints of that kind",
                      "got": [len(Aub), len(bub), len(Aeq), len(beq)], "want": [len(ub), len(eq)]})
        return fails
    # ALL variables the user wrote (own explicit-stack walk of the expressions, not Problem.variables): a variable
    # without a column is judged like everything else, by the values — with a non-zero coefficient A·x − b cannot
    # reproduce the user's expression — at points that single each such variable out
    used = user_variables(P)
    missing = sorted(nm for nm in used if nm not in set(names))
    everything = names + missing
    points = []
    for _ in range(3 if values else 0):
        points.append({nm: Fraction(rng.randint(-5, 5)) for nm in everything})
    for m in (missing[:6] if values else []):
        pt = {nm: Fraction(rng.randint(-5, 5)) for nm in names}
        pt.update({nm: Fraction(0) for nm in missing})
        pt[m] = Fraction(rng.choice([-3, -2, -1, 1, 2, 3]))
        points.append(pt)
    n_before = len(fails)
    for pt in points:
        xv = [pt[nm] for nm in names]
        dot = lambda row: sum((a * b for a, b in zip(row, xv)), Fraction(0))
        # whatever the tree under test accepted as an LP must reproduce the user's expressions: exact rationals
        # where the Fraction interpreter applies, the float interpreter (tolerance) otherwise
        try:
            mode, want = user_value(P.objective, pt)
            got = dot(c) + Fraction(float(lp.c0))
            if differs(mode, want, got):
                fails.append({"what": "c·x + c0 differs from the objective", "point": {k: str(v) for k, v in pt.items()},
                              "got": str(got) if mode == "exact" else repr(float(got)), "want": str(want), "mode": mode})
        except SkipPoint:
            pass  # e.g. (x / 0) ** 0: the extractor never looks below a zero exponent; NumPy evaluates it to 1
        for kind, cons, A, b in (("ub", ub, Aub, bub), ("eq", eq, Aeq, beq)):
            for r, k in enumerate(cons):
                try:
                    mode, val = user_value(k.expr, pt)
                except SkipPoint:
                    continue
                want = -val if k.sense == ">=" else val
                got = dot(A[r]) - b[r]
                if differs(mode, want, got):
                    fails.append({"what": f"row·x − rhs differs from the user's constraint ({k.sense}, {kind} row {r})",
                                  "point": {kk: str(v) for kk, v in pt.items()},
                                  "got": str(got) if mode == "exact" else repr(float(got)), "want": str(want), "mode": mode})
        if len(fails) > n_before:
            break
    if missing:
        for f in fails[n_before:]:
            f["variables_without_column"] = missing
            f["what"] += " (the user's expressions mention variable(s) that have no column in LP.variables)"
    return fails


def user_variables(P):
    """names of all variables occurring in the objective / constraints the user wrote (harness's own traversal)"""
    used = {}
    for e in ([P.objective] if P.objective is not None else []) + [k.expr for k in P.constraints]:
        used.update(gen.iter_vars(e))
    return used


def dag_dump(P):
    """the problem as a DAG (object sharing preserved): nodes in children-first order, children by index.
    Replays need it: a defect may depend on the *same object* occurring twice, which the tree syntax loses."""
    from optyx.core.expressions import BinaryOp, Constant, UnaryOp, Variable
    from optyx.core import vectors as V

    nodes, index = [], {}
    keep = []

    def vec_spec(v):
        if isinstance(v, V.VectorVariable):
            return {"vv": v.name, "id": id(v), "vars": [index[id(x)] for x in v._variables]}
        return {"ve": [index[id(x)] for x in v._expressions]}

    def children(n):
        if isinstance(n, BinaryOp):
            return [n.left, n.right]
        if isinstance(n, UnaryOp):
            return [n.operand]
        if isinstance(n, (Constant, Variable)):
            return []
        v = getattr(n, "vector", None)
        if v is None:
            raise Unsupported(f"dag node {type(n).__name__}")
        return list(v._variables) if isinstance(v, V.VectorVariable) else list(v._expressions)

    roots = ([P.objective] if P.objective is not None else []) + [c.expr for c in P.constraints]
    for root in roots:
        stack = [(root, False)]
        while stack:
            n, done = stack.pop()
            if id(n) in index:
                continue
            if not done:
                stack.append((n, True))
                for ch in children(n):
                    if id(ch) not in index:
                        stack.append((ch, False))
                continue
            keep.append(n)
            if isinstance(n, Constant):
                d = {"k": "c", "v": rat(n.value)}
            elif isinstance(n, Variable):
                d = {"k": "v", "name": n.name, "lb": opt_rat(n.lb), "ub": opt_rat(n.ub)}
            elif isinstance(n, BinaryOp):
                d = {"k": "b", "op": n.op, "l": index[id(n.left)], "r": index[id(n.right)]}
            elif isinstance(n, UnaryOp):
                d = {"k": "u", "op": n.op, "a": index[id(n.operand)]}
            elif isinstance(n, V.LinearCombination):
                d = {"k": "lc", "cs": [rat(t) for t in np.asarray(n.coefficients, dtype=float).tolist()], "vec": vec_spec(n.vector)}
            elif isinstance(n, V.VectorPowerSum):
                d = {"k": "ps", "p": rat(n.power), "vec": vec_spec(n.vector)}
            elif isinstance(n, V.VectorSum):
                d = {"k": "vs", "vec": vec_spec(n.vector)}
            else:
                raise Unsupported(f"dag node {type(n).__name__}")
            index[id(n)] = len(nodes)
            nodes.append(d)
    return {"nodes": nodes, "objective": index[id(P.objective)] if P.objective is not None else None,
            "sense": "min" if P.sense == "minimize" else "max",
            "constraints": [[index[id(c.expr)], c.sense] for c in P.constraints]}


def dag_rebuild(dag):
    from optyx import Problem, Variable
    from optyx.constraints import Constraint
    from optyx.core.expressions import BinaryOp, Constant, UnaryOp
    from optyx.core import vectors as V

    num = lambda t: None if t == "none" else float(Fraction(t))
    objs, vvs = [], {}

    def vec(spec):
        if "vv" in spec:
            if spec["id"] not in vvs:
                vvs[spec["id"]] = V.VectorVariable._from_variables(spec["vv"], [objs[i] for i in spec["vars"]])
            return vvs[spec["id"]]
        return V.VectorExpression([objs[i] for i in spec["ve"]])

    byname = {}
    for d in dag["nodes"]:
        k = d["k"]
        if k == "c":
            o = Constant(num(d["v"]))
        elif k == "v":
            o = byname.get(d["name"]) or Variable(d["name"], lb=num(d["lb"]), ub=num(d["ub"]))
            byname[d["name"]] = o
        elif k == "b":
            o = BinaryOp(objs[d["l"]], objs[d["r"]], d["op"])
        elif k == "u":
            o = UnaryOp(objs[d["a"]], d["op"])
        elif k == "lc":
            o = V.LinearCombination(np.array([num(t) for t in d["cs"]]), vec(d["vec"]))
        elif k == "ps":
            o = V.VectorPowerSum(vec(d["vec"]), num(d["p"]))
        else:
            o = V.VectorSum(vec(d["vec"]))
        objs.append(o)
    P = Problem()
    if dag["objective"] is not None:
        (P.minimize if dag["sense"] == "min" else P.maximize)(objs[dag["objective"]])
    for i, sense in dag["constraints"]:
        P.subject_to(Constraint(expr=objs[i], sense=sense))
    return P


def dag_payload(P):
    try:
        return dag_dump(P)
    except Exception as ex:  # noqa: BLE001
        return {"error": f"{type(ex).__name__}: {ex}"[:200]}


def problem_payload(P, ids=None):
    ids = ids or Ids()
    try:
        return problem_line(P, ids)
    except Unsupported as ex:
        return f"unsupported:{ex}"


def extract_real(P):
    from optyx.analysis import LinearProgramExtractor

    with warnings.catch_warnings():
        warnings.simplefilter("ignore")
        try:
            return LinearProgramExtractor().extract(P), None
        except RecursionError as ex:
            return None, ex
        except Exception as ex:  # noqa: BLE001
            return None, ex


def history_checks(case, lp, impl, rng):
    """the same Problem object observed again in other states / through other channels; returns failure dicts"""
    import optyx.analysis as A
    from optyx import Variable

    P = case.P
    fails = []

    def again(what):
        lp2, ex2 = extract_real(P)
        t = lp_text(lp2) if lp2 is not None else err_text(ex2)
        return lp2, t

    # (1) a second extraction, and one with every depth threshold forced to 0 (depth-dependent paths on every tree)
    _, t2 = again("second")
    if t2 != impl:
        fails.append({"what": "a second extraction of the same problem differs from the first", "second": t2[:500]})
    old = A._RECURSION_THRESHOLD
    try:
        A._RECURSION_THRESHOLD = 0
        _, t3 = again("threshold 0")
    finally:
        A._RECURSION_THRESHOLD = old
    if t3 != impl:
        fails.append({"what": "extraction with _RECURSION_THRESHOLD = 0 differs from the normal one", "got": t3[:500]})
    # (2) other channels for the same numbers
    names = list(lp.variables)
    try:
        with warnings.catch_warnings():
            warnings.simplefilter("ignore")
            per_var = [float(A.extract_linear_coefficient(P.objective, Variable(nm))) for nm in names[:12]]
            c0 = float(A.extract_constant_term(P.objective))
        if [Fraction(v) for v in per_var] != [Fraction(float(v)) for v in list(lp.c)[:12]] or Fraction(c0) != Fraction(float(lp.c0)):
            fails.append({"what": "extract_linear_coefficient / extract_constant_term disagree with LPData.c / c0",
                          "per_variable": per_var, "c0": c0})
    except Exception as ex:  # noqa: BLE001
        fails.append({"what": f"extract_linear_coefficient raised {type(ex).__name__} on an objective that was extracted"})
    # (3) user-supplied arrays: untouched, and not aliased by the LP data
    for a, raw, dt, shape, strides in case.arrays:
        if a.tobytes() != raw or a.dtype != dt or a.shape != shape or a.strides != strides:
            fails.append({"what": "a user-supplied NumPy array was modified by building / extracting the problem"})
        for nm in ("c", "A_ub", "b_ub", "A_eq", "b_eq"):
            arr = getattr(lp, nm)
            if arr is not None and np.shares_memory(arr, a):
                fails.append({"what": f"LPData.{nm} shares memory with a user-supplied array"})
    # (4) the same objective object with the sense flipped, then bound edits: re-extraction must follow
    try:
        obj = P.objective
        flipped = "max" if lp.sense == "min" else "min"
        (P.maximize if flipped == "max" else P.minimize)(obj)
        lp4, t4 = again("sense flip")
        if lp4 is None or lp4.sense != flipped or lp_text(lp4).replace(f"(sense {flipped})", f"(sense {lp.sense})") != impl:
            fails.append({"what": "after flipping the sense on the same objective object the extracted LP is not the same data with the other sense", "got": t4[:500]})
        vs = P.variables
        if vs:
            v = vs[rng.randrange(len(vs))]
            if getattr(v, "domain", "continuous") in ("continuous", "integer"):
                old_b = (v.lb, v.ub)
                v.lb, v.ub = rng.choice([None, -2.5, 0.0, 1e-9, 0.5]), rng.choice([None, 3.5, 1e16, 7.25])
                lp5, t5 = again("bound edit")
                if lp5 is None or [tuple(b) for b in lp5.bounds] != [(w.lb, w.ub) for w in vs]:
                    fails.append({"what": "bounds edited on a variable object are not the extracted bounds", "got": t5[:400]})
                v.lb, v.ub = old_b
    except Exception as ex:  # noqa: BLE001
        fails.append({"what": f"re-extraction after a sense flip / bound edit raised {type(ex).__name__}: {ex}"[:300]})
    return fails


def kind_of(P):
    """match key for KNOWN_FINDINGS: which special node class the problem contains"""
    from optyx.core.vectors import VectorPowerSum
    from optyx.core.expressions import BinaryOp, UnaryOp

    stack = [P.objective] + [c.expr for c in P.constraints]
    while stack:
        n = stack.pop()
        if n is None:
            continue
        if isinstance(n, VectorPowerSum):
            return "vector_power_sum_in_linear_problem"
        if isinstance(n, BinaryOp):
            stack += [n.left, n.right]
        elif isinstance(n, UnaryOp):
            stack.append(n.operand)
        else:
            sub = getattr(n, "vector", None)
            if sub is not None and hasattr(sub, "_expressions"):
                stack += list(sub._expressions)
    return None


# ----------------------------------------------------------------------------- the run


def run(ctx) -> core.Report:
    import optyx.analysis as A

    rng = ctx["rng"]
    thorough = ctx["tier"] == "thorough" or ctx["escalate"]
    rep = core.Report(rule="hand-written problems (every shortcut × {fires, misses by length, misses by first index} × "
                           "every sense, F7 forms, matrix rows/columns, A@x rows, x/Constant(0), missing objective) + "
                           "seeded random linear problems (≤ 8 variables, ≤ 5 constraints) in every writing style; "
                           "each expression also extracted under permuted / enlarged variable orders; "
                           "non-trivial = distinct problems for which an LP was extracted")
    problems = [(t, P) for t, P in fixed_problems(rng)] + shared_shallow_problems(rng) + const_fold_problems(rng) + deep_problems(rng, thorough)
    cases = [Case(t, P) for t, P in problems]
    for fam in (typed_cases, wrapper_cases, view_cases, magnitude_cases, overlap_cases, domain_bound_cases,
                lambda g: view_element_cases(g, thorough)):
        for r in fam(rng):
            if isinstance(r, Case):
                cases.append(r)
            else:   # (tag, ("build", ExceptionName)): the API refuses this form on this tree
                k = f"{r[0].split(':')[0]}: construction raised {r[1][1]}"
                rep.skipped[k] = rep.skipped.get(k, 0) + 1
    problems = []
    n_rand = 12000 if thorough else 1500
    for _ in range(n_rand):
        try:
            P, pool, style = rand_problem(rng)
        except RecursionError:
            raise
        except Exception as ex:  # noqa: BLE001   (the API refused to build a form on this tree: nothing to extract)
            k = f"construction raised {type(ex).__name__}"
            rep.skipped[k] = rep.skipped.get(k, 0) + 1
            continue
        cases.append(Case(f"rand:{style}", P))

    ids = Ids()
    lines, metas = [], []
    for case in cases:
        tag, P = case.tag, case.P
        line = None
        if case.corr:
            try:
                line = problem_line(P, ids)
            except Unsupported as ex:
                # no syntax for it (bool / array constant …): no model comparison, the oracles still run
                rep.skipped["correspondence unsupported:" + str(ex)] = rep.skipped.get("correspondence unsupported:" + str(ex), 0) + 1
        if line is None:
            metas.append((case, None, []))
            continue
        idx = len(lines)
        lines.append(line)
        # per-expression commands under the problem's order and under two other orders
        exprs = ([P.objective] if P.objective is not None else []) + [c.expr for c in P.constraints]
        names = [v.name for v in P.variables]
        sub = []
        S = Ser(ids)
        # stand-alone function commands: all expressions for the small hand-written / random problems, two for the big
        # systematic families (their LPs are compared as a whole, most of them also against an exact recipe)
        heavy = tag.split(":")[0] in ("fixed2", "constfold", "overlap", "overlap3", "wrap", "view", "typed", "dombounds", "shared", "deep", "viewelem")
        for e in exprs[:(2 if heavy and not thorough else 4)]:
            s = S.expr(e)
            # (order, invariant): the second component says whether the order is one Problem.variables can
            # produce (sorted); under a permuted order the shortcuts may fire although the vector is not the
            # variable list — correspondence only there (the model must reproduce the wrong answer too)
            orders = [(names, True)]
            if len(names) >= 2:
                perm = names[:]
                rng.shuffle(perm)
                orders.append((perm, perm == names))
            orders.append((["a0"] + names, True) if rng.random() < 0.5 else (names + ["zz9"], True))
            for order, inv in orders:
                sub.append(("coeffs" if inv else "coeffs-perm", e, order, len(lines)))
                lines.append(f"coeffs {s} ({' '.join(quote(nm) for nm in order)})")
                # which branch the model takes (evidence) and what the bare walker would return there
                sub.append(("path", e, (order, inv), len(lines)))
                lines.append(f"path {s} ({' '.join(quote(nm) for nm in order)})")
                lines.append(f"coeffs_general {s} ({' '.join(quote(nm) for nm in order)})")
            sub.append(("const", e, None, len(lines)))
            lines.append(f"const {s}")
            if names:
                nm = rng.choice(names)
                sub.append(("coeff1", e, nm, len(lines)))
                lines.append(f"coeff1 {s} {quote(nm)}")
        metas.append((case, idx, sub))
    # histories on one Problem object (each a pure function of its seed)
    n_hist = 2500 if thorough else 200
    hist_lines = []
    for _ in range(n_hist):
        hseed = rng.getrandbits(40)
        try:
            hf, nsteps, hl = run_history(hseed, want_lines=True)
        except RecursionError:
            raise
        except Exception as ex:  # noqa: BLE001
            rep.skipped[f"history: construction raised {type(ex).__name__}"] = rep.skipped.get(f"history: construction raised {type(ex).__name__}", 0) + 1
            continue
        rep.evaluations += nsteps
        rep.histogram["history steps (extraction vs fresh problem)"] = rep.histogram.get("history steps (extraction vs fresh problem)", 0) + nsteps
        for f in hf:
            f.update({"tag": "history", "kind_of_input": "history"})
            rep.oracle_failures.append(f)
        for ln, txt in hl:
            hist_lines.append((len(lines), txt, hseed))
            lines.append(ln)
    # parametric linear models: solve -> set parameter(s) -> solve, LP data (cache / extract / linprog arrays) judged by the recipe
    n_par = 1200 if thorough else 120
    for _ in range(n_par):
        hseed = rng.getrandbits(40)
        try:
            hf, nsteps, nj = run_param_history(hseed)
        except RecursionError:
            raise
        except Exception as ex:  # noqa: BLE001
            k = f"parametric history: construction raised {type(ex).__name__}"
            rep.skipped[k] = rep.skipped.get(k, 0) + 1
            continue
        rep.evaluations += nsteps
        rep.histogram["parametric history steps"] = rep.histogram.get("parametric history steps", 0) + nsteps
        rep.histogram["parametric histories: LP data sets judged against the recipe"] = rep.histogram.get("parametric histories: LP data sets judged against the recipe", 0) + nj
        for f in hf[:1]:
            f.update({"tag": "param-history", "kind_of_input": "parametric history"})
            rep.oracle_failures.append(f)
    outs = run_lean_unit(lines)
    for li, txt, hseed in hist_lines:
        if outs[li] != txt and "RecursionError" not in txt:
            rep.corr_mismatches.append({"tag": "history", "history_seed": hseed, "problem": lines[li][:1500], "problem_full": lines[li],
                                        "impl": txt[:700], "model": outs[li][:700]})

    for case, idx, sub in metas:
        tag, P = case.tag, case.P
        key = tag.split(":")[1] if tag.startswith("rand") else tag.split(":")[0]
        rep.histogram["style:" + key] = rep.histogram.get("style:" + key, 0) + 1
        rep.evaluations += 1
        lp, ex = extract_real(P)
        impl = lp_text(lp) if lp is not None else err_text(ex)
        pline = lines[idx] if idx is not None else problem_payload(P)
        if idx is not None:
            model = outs[idx]
            if impl != model and not isinstance(ex, RecursionError):
                rep.corr_mismatches.append({"tag": tag, "problem": pline[:1500], "problem_full": pline if len(pline) < 60000 else None,
                                            "impl": impl[:700], "model": model[:700]})
        if lp is not None:
            rep.nontrivial.add(hash(pline) if idx is not None else hash(tag))
            rep.histogram["extracted"] = rep.histogram.get("extracted", 0) + 1
            fs = lp_oracle(P, lp, rng, tag, values=case.rel_tol is None)
            if case.expect is not None:
                rep.histogram["checked against the recipe's exact LP"] = rep.histogram.get("checked against the recipe's exact LP", 0) + 1
                fs += expect_oracle(case, lp)
            if case.expect is not None or case.arrays or rng.random() < 0.2:
                rep.histogram["history / channel re-checks"] = rep.histogram.get("history / channel re-checks", 0) + 1
                fs += history_checks(case, lp, impl, rng)
            for f in fs:
                f.update({"problem": pline, "tag": tag, "extracted": impl[:700], "dag": dag_payload(P)})
                k = kind_of(P)
                if k:
                    f["kind"] = k
                rep.oracle_failures.append(f)
            if idx is not None and len(rep.samples) < 6 and 200 < len(pline) < 700 and lp.A_ub is not None:
                rep.samples.append({"problem": pline, "lp": impl})
        else:
            nm = type(ex).__name__
            rep.histogram["raised:" + nm] = rep.histogram.get("raised:" + nm, 0) + 1
            if case.expect is not None and nm == "NonLinearError":
                k = f"{tag.split(':')[0]}: an affine recipe was rejected as non-linear (conservative, counted)"
                rep.skipped[k] = rep.skipped.get(k, 0) + 1
            if nm == "RecursionError":
                rep.skipped["RecursionError of the real extractor (CPython stack limit)"] = rep.skipped.get("RecursionError of the real extractor (CPython stack limit)", 0) + 1
            elif nm not in ERRNAMES:
                rep.oracle_failures.append({"what": f"extract raised an unexpected {nm}: {ex}"[:300], "problem": pline, "tag": tag})
        # per-expression functions
        for cmd, e, arg, li in sub:
            if cmd == "path":
                order, inv = arg
                k6 = f"path:{outs[li]}" + ("" if inv else " (permuted order)")
                rep.histogram[k6] = rep.histogram.get(k6, 0) + 1
                # shortcuts_eq_general, observed: under an order Problem.variables can produce, the shortcut
                # result of the model equals the bare walker's result of the model
                if inv and outs[li].startswith("fast:") and outs[li - 1] != outs[li + 1]:
                    rep.corr_mismatches.append({"what": "model: shortcut result differs from the general walker under a "
                                                        "sorted order (theorem shortcuts_eq_general would be violated)",
                                                "cmd": lines[li - 1][:1200], "fast": outs[li - 1], "general": outs[li + 1]})
                continue
            rep.evaluations += 1
            with warnings.catch_warnings():
                warnings.simplefilter("ignore")
                try:
                    if cmd in ("coeffs", "coeffs-perm"):
                        vi = {nm: i for i, nm in enumerate(arg)}
                        got = "(ok " + rats(A.extract_all_linear_coefficients(e, vi, len(arg))) + ")"
                    elif cmd == "const":
                        got = "(ok " + rat(A.extract_constant_term(e)) + ")"
                    else:
                        from optyx import Variable
                        got = "(ok " + rat(A.extract_linear_coefficient(e, Variable(arg))) + ")"
                except Exception as exx:  # noqa: BLE001
                    got = err_text(exx)
            rep.histogram["fn:" + cmd] = rep.histogram.get("fn:" + cmd, 0) + 1
            if got != outs[li]:
                rep.corr_mismatches.append({"tag": tag, "cmd": lines[li][:1200], "impl": got[:400], "model": outs[li][:400]})
            # oracle for the stand-alone functions: coefficients of a full order reproduce the expression
            if cmd in ("coeffs", "coeffs-perm") and got.startswith("(ok") and set(arg) >= {v.name for v in gen.expr_vars(e)}:
                try:
                    c0 = Fraction(float(A.extract_constant_term(e)))
                    cs = [Fraction(t) for t in got[4:-1].split()] if got != "(ok )" else []
                    pt = {nm: Fraction(rng.randint(-5, 5)) for nm in arg}
                    mode, want = user_value(e, pt)
                    have = sum((a * pt[nm] for a, nm in zip(cs, arg)), Fraction(0)) + c0
                    if differs(mode, want, have) and cmd == "coeffs-perm":
                        # excluded point of shortcuts_eq_general, reached only through the stand-alone function
                        # with a variable order no Problem produces: recorded, not a violation of C05
                        k5 = "outside-invariant: shortcut fired under a permuted order (wrong coefficients)"
                        rep.histogram[k5] = rep.histogram.get(k5, 0) + 1
                    elif differs(mode, want, have):
                        rep.oracle_failures.append({"what": "Σ coeffs[i]·x_i + constant differs from the expression",
                                                    "cmd": lines[li], "point": {k: str(v) for k, v in pt.items()},
                                                    "got": str(have), "want": str(want), "tag": tag})
                except (SkipPoint, ZeroDivisionError):
                    pass
    return rep


def kind_of_expr(e):
    class _P:
        objective = e
        constraints = []
    return kind_of(_P)


def search(ctx, rep):
    """correspondence / proof broken, nothing failed yet.  Order (checklist item 16): (1) the mismatching problems
    themselves, rebuilt, judged by the oracle at many points and through the history / channel re-checks; (2) the
    recipe families (exact expected LPs) and the fixed families; (3) fresh random problems."""
    rng = core.Rng(ctx["seed"] + 15485863)

    def judge(case, rounds=1):
        lp, ex = extract_real(case.P)
        if lp is None:
            return None
        impl = lp_text(lp)
        fs = []
        for _ in range(rounds):
            fs += lp_oracle(case.P, lp, rng, "search", values=case.rel_tol is None)
            if fs:
                break
        if not fs and case.expect is not None:
            fs += expect_oracle(case, lp)
        if not fs:
            fs += history_checks(case, lp, impl, rng)
        if fs:
            f = fs[0]
            f.update({"problem": problem_payload(case.P), "tag": case.tag, "extracted": impl[:700], "dag": dag_payload(case.P)})
            k = kind_of(case.P)
            if k:
                f["kind"] = k
            return f
        return None

    seen = set()
    for mm in rep.corr_mismatches:
        line = mm.get("problem_full")
        if not line or line in seen or len(seen) > 300:
            continue
        seen.add(line)
        try:
            P = rebuild_problem(line)
        except Exception:  # noqa: BLE001
            continue
        f = judge(Case("mismatch:" + str(mm.get("tag")), P), rounds=8)
        if f:
            return f
    hseeds = [mm["history_seed"] for mm in rep.corr_mismatches if mm.get("history_seed") is not None]
    for hseed in hseeds[:200] + [rng.getrandbits(40) for _ in range(3000)]:
        try:
            hf, _, _ = run_history(hseed)
        except Exception:  # noqa: BLE001
            continue
        if hf:
            f = hf[0]
            f.update({"tag": "history"})
            return f
    for _ in range(1500):
        try:
            hf, _, _ = run_param_history(rng.getrandbits(40))
        except Exception:  # noqa: BLE001
            continue
        if hf:
            f = hf[0]
            f.update({"tag": "param-history"})
            return f
    for fam in (view_element_cases, typed_cases, wrapper_cases, view_cases, magnitude_cases, overlap_cases, domain_bound_cases):
        for r in fam(rng):
            if isinstance(r, Case):
                f = judge(r)
                if f:
                    return f
    pool = fixed_problems(rng) + shared_shallow_problems(rng) + const_fold_problems(rng) + deep_problems(rng, False)
    for t, P in pool:
        f = judge(Case(t, P))
        if f:
            return f
    for _ in range(15000):
        try:
            P = rand_problem(rng)[0]
        except Exception:  # noqa: BLE001
            continue
        f = judge(Case("rand", P))
        if f:
            return f
    return None


def rebuild_problem(line):
    """protocol line -> a Problem of the tree under test (bounds restored on the variable objects)"""
    from optyx import Problem
    from optyx.constraints import Constraint
    from ser import parse_sexp, Deser

    toks = parse_sexp(line)
    assert toks[0] == "lp"
    obj, sense, cons, vs = toks[1], toks[2], toks[3], toks[4]
    D = Deser()
    P = Problem()
    if obj != "none":
        e = D.expr(obj)
        (P.minimize if sense == "min" else P.maximize)(e)
    for c in cons:
        P.subject_to(Constraint(expr=D.expr(c[0]), sense=c[1]))
    decl = {v[0][1]: (v[1], v[2]) for v in vs}
    num = lambda t: None if t == "none" else float(Fraction(t))
    for v in P.variables:
        if v.name in decl:
            v.lb, v.ub = num(decl[v.name][0]), num(decl[v.name][1])
    return P


def replay(payload) -> bool:
    f = payload["failure"]
    if f.get("param_history_seed") is not None:
        hf, nsteps, nj = run_param_history(int(f["param_history_seed"]))
        print(f"parametric history {f['param_history_seed']}: {nsteps} steps, {nj} LP data sets judged")
        for x in hf:
            print("FAIL:", {k: (str(v)[:300]) for k, v in x.items()})
        return not hf
    if f.get("history_seed") is not None:
        hf, nsteps, _ = run_history(int(f["history_seed"]))
        print(f"history {f['history_seed']}: {nsteps} steps")
        for x in hf:
            print("FAIL:", {k: (str(v)[:300]) for k, v in x.items()})
        return not hf
    line = f.get("problem")
    dag = f.get("dag")
    if isinstance(dag, dict) and "nodes" in dag:
        P = dag_rebuild(dag)              # object sharing of the original input restored
    elif not line or line.startswith("unsupported"):
        print("no rebuildable problem in the replay file")
        return True
    else:
        P = rebuild_problem(line)
    lp, ex = extract_real(P)
    if lp is None:
        print("extract raised", type(ex).__name__, ex)
        return type(ex).__name__ in ERRNAMES
    print(lp_text(lp))
    fs = lp_oracle(P, lp, core.Rng(1), "replay")
    for x in fs:
        print("FAIL:", x)
    return not fs
