"""C18 — integrality is never relaxed silently.

Tie:    declaration route (scalar / vector / matrix, slices, rows, columns, sub-matrices, transposes,
        symmetric, diagonal, diag_matrix) × domain × problem kind (linear / nonlinear, with / without a
        constraint) × method (auto, linprog, highs*, NLP methods, the SLSQP→trust-constr retry) × strict,
        through the real `Problem.solve` / `solve_scipy` / `solve_lp` with the solver seams instrumented
        (every solver call is an event), warnings captured and parsed; outcome + events + state compared
        exactly with `Py.Solve.solve*`; element lists of every route compared with `Py.Solve` constructors.
        + the BOUNDS of the variables of the problems the guard is tested on (`bounds_guard_cases`): crossed / pinned /
        open / infinite / huge / non-integral intervals × on a non-continuous variable, on all of them, on an unrelated
        continuous variable, on every variable × declared / assigned after modelling / assigned between two solves and
        restored (branch-and-bound style) × route × method × strict × call site.
        + HISTORIES IN WHICH THE SET OF NON-CONTINUOUS VARIABLES CHANGES AFTER THE FIRST SOLVE (`growth_cases`,
        `growth_real_cases`): a purely continuous model (or one that already has some) is solved — any method, strict or
        not —, then integer / binary variables of every declaration route enter through the ordinary API (subject_to: one
        constraint / a list / a vectorised comparison / bare-leaf constraints / a non-linear one; a re-declared objective;
        both; a `domain` assigned to a variable the problem already has) or leave again (objective re-declared without
        them, domain set back), read-only helpers interleaved, and every method × strict × call site is used afterwards;
        the expected set is the harness's own record of what it wrote into the model.
Oracle: independent of the model — strict ⇒ an exception is raised (IntegerVariableError listing exactly the
        non-continuous variables; NonLinearError when an LP method is forced on a nonlinear problem) and no
        solver call happened; non-strict ⇒ every solver call is preceded by a warning naming exactly those
        variables — and a non-strict solve that returns HAS warned, naming them, also when no solver was called
        (whatever the bounds are) —, and solver inputs + solution equal those of the same problem with all domains
        set to "continuous"; every element reachable through any route of a binary declaration has lb = 0, ub = 1,
        and views share the element objects of their base.
"""
from __future__ import annotations

import core
from props import c06 as base
from props import c07 as hd

LEAN_MODULE = "Optyx.Props.C18"
EXTRA_MODULES = ["Optyx.Props.PinsC18"]   # transcription anchors (harness/source_pins.py)
THEOREMS = [
    "Optyx.Props.C18.integrality_guard_strict",
    "Optyx.Props.C18.integrality_guard_warns",
    "Optyx.Props.C18.integrality_guard_frame",
    "Optyx.Props.C18.binary_bounds",
    "Optyx.Props.C18.views_share_elements",
    "Optyx.Props.Dispatch.solve_autoSelect_eq_generated",
    "Optyx.Props.Dispatch.solve_route_eq_generated",
    "Optyx.Props.PinsC18.anchors",
]
ASSUMPTIONS = [
    "bounds / domain attributes are not reassigned after construction (binary_bounds is about construction routes)",
    "the problem data handed to the model (is_linear, compute_degree, variable order) come from optyx itself (C04, C16)",
]
run_lean_unit = base.run_lean_unit

METHODS = ["auto", "linprog", "highs", "highs-ds", "highs-ipm", "SLSQP", "trust-constr", "L-BFGS-B", "BFGS",
           "Nelder-Mead", "COBYLA", "Newton-CG", "Powell", "TNC", "CG"]


def route_recipes(rng, thorough):
    """routes that yield at least one element, for the two non-continuous domains (+ a continuous control)"""
    recs = []
    seen = set()
    for r in hd.recipes(rng, domains=("binary", "integer", "continuous"), thorough=thorough):
        if r in seen:
            continue
        seen.add(r)
        try:
            hd.build_handle(r)
        except Exception:  # noqa: BLE001
            continue
        recs.append(r)
    return recs


def problem_from(recipe, kind, relax=False, t_bounds=(0.0, 1.0), out=None):
    """a problem over the elements of the handle (+ one continuous scalar `t`); `relax`: the same
    problem with every domain attribute set to "continuous" after construction (bounds untouched)"""
    from optyx import Problem, Variable

    h = hd.build_handle(recipe)
    elems = []
    for v in hd.handle_elements(h):
        if all(v is not e for e in elems):
            elems.append(v)
    t = Variable("t", lb=t_bounds[0], ub=t_bounds[1])
    if out is not None:
        out["t"] = t
    if relax:
        for v in elems:
            v.domain = "continuous"
    P = Problem()
    if kind.startswith("lin"):
        obj = t
        for i, v in enumerate(elems):
            obj = obj + float(1 + i % 3) * v
        P.minimize(obj)
    else:
        obj = (t - 0.5) ** 2
        for v in elems:
            obj = obj + (v - 0.25) ** 2
        P.minimize(obj) if kind != "nl-max" else P.maximize(-1.0 * obj)
    if kind.endswith("+c"):
        s = t
        for v in elems:
            s = s + v
        P.subject_to(s <= 2.0)
    return P, elems


def domain_set(P):
    return [v.name for v in P.variables if v.domain != "continuous"]


def results_for(P, variant):
    n = len(P.variables)
    if variant == 0:      # plain success at a point inside the bounds
        x = [0.5] * n
        return base.Res(True, "Optimization terminated successfully", x, 1.25, 4), base.Res(True, "ok", x, 1.25, 2)
    # accepted but far outside every constraint / bound: SLSQP retries
    x1 = [8.0] * n
    x2 = [0.25] * n
    return (base.Res(True, "Positive directional derivative for linesearch", x1, 2.0, 9),
            base.Res(variant == 1, "`gtol` termination condition is satisfied.", x2, 0.5, 12))


def guard_cases(rep, rng, recs, thorough):
    lines, metas = [], []
    kinds = ["lin", "lin+c", "nl", "nl+c", "nl-max"]
    i = 0
    for ri, r in enumerate(recs):
        dom = hd.base_of(r)[-2] if hd.base_of(r)[0] == "mat" else hd.base_of(r)[-1]
        # every route × every method × strict on the cell cover; random compositions get a sample
        cover = ri < 420 or (thorough and ri % 4 == 0)
        for method in METHODS:
            for strict in (False, True):
                if not cover and rng.random() > 0.12:
                    continue
                j = i // 2   # strict alternates with i: keep the other choices independent of it
                kind = kinds[j % len(kinds)]
                call = "solve" if j % 4 else ("solve-lp" if method in ("linprog", "highs", "highs-ds", "highs-ipm") else "solve-scipy")
                m = method
                if call == "solve-lp" and m == "linprog":
                    m = None
                if call == "solve-scipy" and m == "auto":
                    m = "SLSQP"
                variant = (j // 7) % 3
                i += 1
                P, elems = problem_from(r, kind)
                r1, r2 = results_for(P, variant)
                lr = base.LRes(True, 0, [0.5] * len(P.variables), 1.0, 3)
                lines.append(base.model_line(call, P, m, strict, True, None, r1, r2, lr, None))
                text, info = base.observe(P, call, m, strict, True, None, r1, r2, lr)
                D = domain_set(P)
                meta = {"recipe": r, "kind": kind, "call": call, "method": m, "strict": strict, "variant": variant}
                metas.append((meta, text))
                bad = judge(meta, text, info, D, dom)
                if bad is None and D and not strict and not text.startswith("raise"):
                    # the continuous relaxation: same problem, domains set to continuous
                    P2, _ = problem_from(r, kind, relax=True)
                    text2, _ = base.observe(P2, call, m, False, True, None, r1, r2, lr)
                    a = strip_warn(text)
                    if a != text2:
                        bad = {"what": "solver inputs / solution differ from those of the continuous relaxation",
                               "with_domains": a[:500], "relaxed": text2[:500]}
                if bad is not None:
                    bad.update({"kind_of_case": "guard", "case": meta})
                    rep.oracle_failures.append(bad)
    outs = run_lean_unit(lines)
    rep.evaluations += len(lines)
    for (meta, text), model in zip(metas, outs):
        k = f"guard:{meta['call']}:{'strict' if meta['strict'] else 'relax'}:" + (
            text.split(":")[1].split(" ")[0] if text.startswith("raise") else "returns")
        rep.histogram[k] = rep.histogram.get(k, 0) + 1
        if text != model:
            rep.corr_mismatches.append({"case": meta, "impl": text[:700], "model": model[:700]})
        if "warn-relax" in text or "IntegerVariableError" in text:
            rep.nontrivial.add(hash((meta["recipe"], meta["method"], meta["strict"], meta["kind"], meta["call"])))
        if len(rep.samples) < 6 and ("warn-relax" in text or "IntegerVariableError" in text) and len(text) < 420 and rng.random() < 0.01:
            rep.samples.append({"case": meta, "observed": text})


SEQ_PATTERNS = [(False, True), (True, False), (False, False), (False, True, False), (True, True), (False, False, True),
                (True, False, True)]
SEQ_NLP = ["SLSQP", "trust-constr", "L-BFGS-B", "BFGS", "Nelder-Mead", "COBYLA", "Newton-CG", "auto"]
SEQ_LP = ["auto", "linprog", "highs", "highs-ds", "highs-ipm"]


def apply_seq_edit(P, edit):
    v0 = P.variables[0]
    if edit == "ub":
        v0.ub = (v0.ub if v0.ub is not None else 4.0) + 1.0
    elif edit == "constraint":
        P.subject_to(v0 <= 64.0)


def sequence_cases(rep, rng, recs, thorough, with_model=True):
    """several solves on ONE Problem object (the first warms `_solver_cache` / `_lp_cache` /
    `_is_linear_cache`): the guard must act on EVERY call — raise under strict, warn otherwise"""
    lines, metas = [], []
    picked, seen = [], set()
    for r in recs:
        b = hd.base_of(r)
        dom = b[-2] if b[0] == "mat" else b[-1]
        if dom == "continuous" or (r[0], dom) in seen:
            continue
        seen.add((r[0], dom))
        picked.append(r)
    if not thorough:
        picked = picked[:10]
    for r in picked:
        b = hd.base_of(r)
        dom = b[-2] if b[0] == "mat" else b[-1]
        for kind, methods in (("nl+c", SEQ_NLP), ("nl", SEQ_NLP), ("lin+c", SEQ_LP), ("lin", SEQ_LP)):
            for pi, pattern in enumerate(SEQ_PATTERNS):
                for mi, method in enumerate(methods):
                    if not thorough and (pi + mi + len(kind)) % 2:
                        continue
                    P, _ = problem_from(r, kind)
                    D = domain_set(P)
                    # second / third call may use another method of the same family (cache shared); on linear
                    # problems the LP path and the NLP path are interleaved on the one Problem object
                    ms = [method, methods[(mi + 1) % len(methods)], method]
                    if kind.startswith("lin") and (pi + mi) % 2:
                        ms[1] = SEQ_NLP[(pi + mi) % (len(SEQ_NLP) - 1)]
                    edits = []
                    for step, strict in enumerate(pattern):
                        m = ms[step]
                        edit = None
                        if step > 0 and (pi + mi + step) % 3 == 0:
                            # an edit between the solves (every cache is invalidated / bounds are re-read)
                            edit = "ub" if (pi + mi) % 2 else "constraint"
                            apply_seq_edit(P, edit)
                            D = domain_set(P)
                        edits.append(edit)
                        variant = (pi + step) % 3
                        r1, r2 = results_for(P, variant)
                        lr = base.LRes(True, 0, [0.5] * len(P.variables), 1.0, 3)
                        if with_model:
                            lines.append(base.model_line("solve", P, m, strict, True, None, r1, r2, lr, None))
                        text, info = base.observe(P, "solve", m, strict, True, None, r1, r2, lr)
                        meta = {"recipe": r, "kind": kind, "call": "solve", "method": m, "strict": strict,
                                "variant": variant, "sequence": {"pattern": list(pattern), "methods": ms, "step": step,
                                                                 "edits": list(edits)}}
                        metas.append((meta, text))
                        bad = judge(meta, text, info, D, dom)
                        if bad is not None:
                            bad.update({"kind_of_case": "sequence", "case": meta})
                            rep.oracle_failures.append(bad)
    rep.evaluations += len(metas)
    outs = run_lean_unit(lines) if with_model else []
    for (meta, text), model in zip(metas, outs):
        if text != model:
            rep.corr_mismatches.append({"case": meta, "impl": text[:700], "model": model[:700]})
    for meta, text in metas:
        k = f"sequence:step{meta['sequence']['step']}:{'strict' if meta['strict'] else 'relax'}:" + (
            text.split(":")[1].split(" ")[0] if text.startswith("raise") else "returns")
        rep.histogram[k] = rep.histogram.get(k, 0) + 1
        if meta["sequence"]["step"] > 0:
            rep.nontrivial.add(hash(str(meta)))


def lifetime_cases(rep, rng, thorough):
    """models dropped and rebuilt in one process with the SAME variable names but different domains: the guard must
    follow the model at hand (no verdict may survive in a module-level cache keyed by names)"""
    from optyx import Problem, VectorVariable

    doms = ["binary", "continuous", "integer", "continuous", "binary", "integer"]
    for rnd in range(40 if thorough else 10):
        for kind in ("c@r", "r.dot(r)", "elementwise"):
            for step in range(len(doms)):
                dom = doms[(step + rnd) % len(doms)]
                method = METHODS[(rnd + step) % len(METHODS)]
                strict = bool((rnd + step) % 2)
                r = ("vec", "z", 3, 0.0, 1.0, dom)
                P, h = sole_problem(r, kind)
                D = domain_set(P)
                r1, r2 = results_for(P, 0)
                lr = base.LRes(True, 0, [0.5] * len(P.variables), 1.0, 3)
                text, info = base.observe(P, "solve", method, strict, True, None, r1, r2, lr)
                meta = {"recipe": r, "kind": kind, "call": "solve", "method": method, "strict": strict, "variant": 0, "sole": True}
                bad = judge(meta, text, info, D, dom)
                rep.evaluations += 1
                rep.histogram["lifetime:" + dom] = rep.histogram.get("lifetime:" + dom, 0) + 1
                if D:
                    rep.nontrivial.add(hash(("life", rnd, kind, step)))
                if bad is not None:
                    bad.update({"kind_of_case": "sole", "case": meta, "note": f"round {rnd}, step {step} of a same-name rebuild sequence"})
                    rep.oracle_failures.append(bad)
                del P, h


def replay_sequence(c):
    r = _tup(c["recipe"])
    P, _ = problem_from(r, c["kind"])
    D = domain_set(P)
    b = hd.base_of(r)
    dom = b[-2] if b[0] == "mat" else b[-1]
    seq = c["sequence"]
    bad = None
    for step in range(seq["step"] + 1):
        strict, m = seq["pattern"][step], seq["methods"][step]
        if seq.get("edits") and seq["edits"][step]:
            apply_seq_edit(P, seq["edits"][step])
            D = domain_set(P)
        pi = SEQ_PATTERNS.index(tuple(seq["pattern"]))
        r1, r2 = results_for(P, (pi + step) % 3)
        lr = base.LRes(True, 0, [0.5] * len(P.variables), 1.0, 3)
        text, info = base.observe(P, "solve", m, strict, True, None, r1, r2, lr)
        print(f"step {step} method={m} strict={strict}:", text[:300])
        meta = dict(c, method=m, strict=strict)
        bad = judge(meta, text, info, D, dom)
    return bad


# ----------------------------------------------------------------------------- a view as the sole modelling object

SOLE_KINDS_VEC = ["c@r", "r.sum()", "r.dot(r)", "norm(r)", "(r**2).sum()", "c@r|r.dot(r)", "elementwise", "deep-450"]
SOLE_KINDS_MAT = ["M.sum()", "frobenius", "(M*M).sum()", "elementwise", "trace", "M>=0|sum"]
SOLE_KINDS_VAR = ["x", "(x-a)**2"]


def sole_problem(recipe, kind, relax=False):
    """a problem written ONLY on the handle `recipe` builds (no other variable), through vector-/matrix-level
    nodes — so that every shortcut of `Problem.variables` for single-source models is taken — or element-wise.
    `relax`: every domain attribute (elements and containers) set to "continuous" after construction."""
    import numpy as np

    from optyx import MatrixVariable, Problem, VectorVariable
    from optyx.core.matrices import frobenius_norm
    from optyx.core.vectors import norm

    memo = {}
    h = hd.build_handle(recipe, memo)
    if relax:
        for obj in memo.values():
            for v in hd.handle_elements(obj):
                v.domain = "continuous"
            if hasattr(obj, "domain"):
                obj.domain = "continuous"
    P = Problem()
    if isinstance(h, VectorVariable):
        n = len(h)
        c = np.array([float(1 + i % 3) for i in range(n)])
        if kind == "c@r":
            P.maximize(c @ h).subject_to(h.sum() <= 2.5)
        elif kind == "r.sum()":
            P.minimize(h.sum())
        elif kind == "r.dot(r)":
            P.minimize(h.dot(h)).subject_to(h.sum() >= 0.5)
        elif kind == "norm(r)":
            P.minimize(norm(h)).subject_to(c @ h >= 1.0)
        elif kind == "(r**2).sum()":
            P.maximize(-1.0 * (h ** 2).sum())
        elif kind == "c@r|r.dot(r)":
            P.minimize(c @ h).subject_to(h.dot(h) <= 4.0)
        elif kind == "deep-450":
            e = h[0] * 1.0
            for i in range(450):
                e = e + float(1 + i % 3) * h[i % n] + 0.25
            P.minimize(e)
        else:
            e = h[0] * 1.0
            for i in range(1, n):
                e = e + float(1 + i) * h[i]
            P.minimize(e)
    elif isinstance(h, MatrixVariable):
        if kind == "M.sum()":
            P.minimize(h.sum())
        elif kind == "frobenius":
            P.minimize(frobenius_norm(h))
        elif kind == "(M*M).sum()":
            P.maximize(-1.0 * (h * h).sum())
        elif kind == "trace" and h.rows == h.cols:
            P.minimize(h.trace())
        elif kind == "M>=0|sum":
            P.minimize(h.sum()).subject_to(h >= 0.25)
        else:
            e = None
            for v in hd.handle_elements(h):
                e = v if e is None else e + v
            P.minimize(e)
    else:
        P.minimize(h) if kind == "x" else P.minimize((h - 0.25) ** 2)
    return P, h


def view_signature(r):
    """(route kinds along the recipe, step class of every slice in it): one representative per signature
    makes sure that unit, strided and reversed slices, rows / columns / blocks / transposes each occur"""
    sig = []
    while True:
        steps = []
        for part in r[1:]:
            if isinstance(part, tuple) and len(part) == 3 and not isinstance(part[0], (str, tuple)):
                st = part[2]
                steps.append("unit" if st in (None, 1) else "reversed" if st < 0 else "strided")
        sig.append((r[0], tuple(steps)))
        if r[0] in ("var", "vec", "mat"):
            sig.append(r[-2] if r[0] == "mat" else r[-1])
            if r[0] == "mat":
                sig.append(r[-1])
            break
        r = r[1]
    return tuple(sig)


def pick_views(recs, per=1):
    out, seen = [], {}
    for r in recs:
        k = view_signature(r)
        seen[k] = seen.get(k, 0) + 1
        if seen[k] <= per:
            out.append(r)
    return out


def sole_kinds(h):
    from optyx import MatrixVariable, VectorVariable

    return SOLE_KINDS_VEC if isinstance(h, VectorVariable) else SOLE_KINDS_MAT if isinstance(h, MatrixVariable) else SOLE_KINDS_VAR


def sole_view_cases(rep, rng, recs, thorough, with_model=True, every=False):
    """every declaration route × view as the only modelling object × vector-level / element-wise writing ×
    method × strict: the guard must act (raise naming exactly the non-continuous variables / warn naming them)
    before any solver call"""
    lines, metas = [], []
    i = 0
    for r in recs:
        b = hd.base_of(r)
        dom = b[-2] if b[0] == "mat" else b[-1]
        if dom == "continuous" and not every:
            if i % 7:
                i += 1
                continue
        try:
            kinds = sole_kinds(hd.build_handle(r))
        except Exception:  # noqa: BLE001
            continue
        for ki, kind in enumerate(kinds):
            for mi, method in enumerate(METHODS):
                for strict in (True, False):
                    i += 1
                    if not every and (ki + mi + i // 2) % (2 if thorough else 6):
                        continue
                    try:
                        P, h = sole_problem(r, kind)
                        D = domain_set(P)
                    except Exception:  # noqa: BLE001 - a node that does not accept this handle: not a C18 matter
                        rep.skipped["sole:unbuildable"] = rep.skipped.get("sole:unbuildable", 0) + 1
                        continue
                    variant = (i // 3) % 3
                    r1, r2 = results_for(P, variant)
                    lr = base.LRes(True, 0, [0.5] * len(P.variables), 1.0, 3)
                    if with_model:
                        lines.append(base.model_line("solve", P, method, strict, True, None, r1, r2, lr, None))
                    text, info = base.observe(P, "solve", method, strict, True, None, r1, r2, lr)
                    meta = {"recipe": r, "kind": kind, "call": "solve", "method": method, "strict": strict,
                            "variant": variant, "sole": True}
                    metas.append((meta, text))
                    bad = judge(meta, text, info, D, dom)
                    if bad is None and D and not strict and not text.startswith("raise"):
                        P2, _ = sole_problem(r, kind, relax=True)
                        text2, _ = base.observe(P2, "solve", method, False, True, None, r1, r2, lr)
                        if strip_warn(text) != text2:
                            bad = {"what": "solver inputs / solution differ from those of the continuous relaxation",
                                   "with_domains": strip_warn(text)[:500], "relaxed": text2[:500]}
                    if bad is not None:
                        bad.update({"kind_of_case": "sole", "case": meta})
                        rep.oracle_failures.append(bad)
    rep.evaluations += len(metas)
    outs = run_lean_unit(lines) if with_model else []
    for (meta, text), model in zip(metas, outs):
        if text != model:
            rep.corr_mismatches.append({"case": meta, "impl": text[:700], "model": model[:700]})
    for meta, text in metas:
        k = f"sole:{meta['recipe'][0]}:{meta['kind']}:{'strict' if meta['strict'] else 'relax'}:" + (
            text.split(":")[1].split(" ")[0] if text.startswith("raise") else "returns")
        rep.histogram[k] = rep.histogram.get(k, 0) + 1
        if "warn-relax" in text or "IntegerVariableError" in text:
            rep.nontrivial.add(hash(("sole", meta["recipe"], meta["kind"], meta["method"], meta["strict"])))


# ----------------------------------------------------------------------------- the BOUNDS of the variables the guard sees
# The guard is about DOMAINS; the bounds of the variables (of the non-continuous ones or of any other variable of the
# problem) are solver data and never a reason to skip it.  Every bound interval class × where it sits × how it got
# there (declared, assigned after the model was written, assigned between two solves: branch-and-bound style) ×
# declaration route × method × strict × call site.

INF = float("inf")
LP_METHODS = ("linprog", "highs", "highs-ds", "highs-ipm")


def bound_profiles():
    """(tag, lb, ub, class)"""
    import numpy as np

    return [
        ("crossed-int", 4, 3, "crossed"),                     # k >= 4 on a node that already has k <= 3
        ("crossed-float", 1.0, -1.0, "crossed"),
        ("crossed-frac", 0.75, 0.25, "crossed"),
        ("crossed-0-1", 1, 0, "crossed"),                     # a binary fixed to 1 below a node that fixed it to 0
        ("crossed-by-1e-9", 1e-9, 0.0, "crossed"),
        ("crossed-huge", 1e16, -1e16, "crossed"),
        ("crossed-np", np.int64(5), np.float32(2.5), "crossed"),
        ("crossed-inf", INF, -INF, "crossed"),
        ("crossed-lb-inf", INF, 3.0, "crossed"),
        ("pinned-int", 2, 2, "pinned"),
        ("pinned-frac", 2.5, 2.5, "pinned"),
        ("pinned-zero", 0.0, 0.0, "pinned"),
        ("pinned-signed-zero", 0.0, -0.0, "pinned"),
        ("pinned-np", np.float64(1.0), np.int32(1), "pinned"),
        ("pinned-huge", 1e16, 1e16, "pinned"),
        ("none", None, None, "open"),
        ("infinite", -INF, INF, "open"),
        ("lower-only", -2.5, None, "open"),
        ("upper-only", None, 3, "open"),
        ("upper-only-inf", -INF, 7.5, "open"),
        ("huge", -1e16, 1e16, "box"),
        ("beyond-1e16", -1e18, 1e18, "box"),
        ("non-integral", 0.3, 2.7, "box"),
        ("no-integer-inside", 0.25, 0.75, "box"),
        ("negative", -7.5, -1.5, "box"),
        ("unit", 0, 1, "box"),
        ("bool", False, True, "box"),
        ("tiny", 0.0, 1e-12, "box"),
    ]


BG_SITES = ["own-one", "own-all", "other", "all"]     # one non-continuous element / all of them / the continuous `t` / every variable
BG_HOWS = ["declared", "edited", "between"]
BG_SANE = {"integer": (0, 10), "binary": (None, None), "continuous": (0.0, 4.0)}


def rebound(r, lb, ub):
    """the recipe with the bounds of its base declaration replaced"""
    k = r[0]
    if k == "var":
        return (k, r[1], lb, ub, r[4])
    if k == "vec":
        return (k, r[1], r[2], lb, ub, r[5])
    if k == "mat":
        return (k, r[1], r[2], r[3], lb, ub) + tuple(r[6:])
    return (k, rebound(r[1], lb, ub)) + tuple(r[2:])


def bounds_guard_routes(recs, per=1):
    """one route per (view kind, base kind, non-continuous domain) with at least one element, base bounds normalised"""
    out, seen, cnt = [], set(), {}
    for r in recs:
        b = hd.base_of(r)
        dom = b[-2] if b[0] == "mat" else b[-1]
        if dom == "continuous":
            continue
        key = (r[0], b[0], dom)
        if cnt.get(key, 0) >= per:
            continue
        r2 = rebound(r, *BG_SANE[dom])
        if r2 in seen:
            continue
        try:
            if not hd.handle_elements(hd.build_handle(r2)):
                continue
        except Exception:  # noqa: BLE001
            continue
        seen.add(r2)
        cnt[key] = cnt.get(key, 0) + 1
        out.append(r2)
    return out


def bounds_guard_build(c, relax=False):
    """-> (P, targets, (lb, ub)): the problem of case `c` before any edit; targets = the Variable objects the profile is about"""
    prof = {p[0]: p for p in bound_profiles()}[c["profile"]]
    lb, ub = prof[1], prof[2]
    declared = c["how"] == "declared"
    own = c["site"] in ("own-one", "own-all", "all")
    other = c["site"] in ("other", "all")
    r = _tup(c["recipe"])
    if declared and own:
        r = rebound(r, lb, ub)
    out = {}
    P, elems = problem_from(r, c["kind"], relax=relax, t_bounds=(lb, ub) if declared and other else (0.0, 1.0), out=out)
    b = hd.base_of(r)
    dom = b[-2] if b[0] == "mat" else b[-1]
    nc = [v for v in elems if not v.name.startswith("_diag_")] or elems
    targets = []
    if c["site"] == "own-one":
        targets = [nc[c["pick"] % len(nc)]]
    elif own:
        targets = list(elems)
    if other:
        targets.append(out["t"])
    return P, targets, (lb, ub), dom


def bounds_guard_history(c, upto=None, with_model=False, lines=None, echo=False):
    """run the history of case `c` on the real code (solver seams stubbed); every step is judged by `judge`; the
    non-strict steps of an all-non-strict prefix are also compared with the same history on the continuous twin.
    -> list of (step meta, observed text, failure or None)"""
    P, targets, (lb, ub), dom = bounds_guard_build(c)
    twin = bounds_guard_build(c, relax=True)
    saved = [(v.lb, v.ub) for v in targets]
    tsaved = [(v.lb, v.ub) for v in twin[1]]
    res = []
    twin_ok = True
    for step, stp in enumerate(c["steps"]):
        if upto is not None and step > upto:
            break
        for (PP, tg, sv) in ((P, targets, saved), (twin[0], twin[1], tsaved)):
            if stp["edit"] == "profile":
                for v in tg:
                    v.lb, v.ub = lb, ub
            elif stp["edit"] == "restore":
                for v, (l0, u0) in zip(tg, sv):
                    v.lb, v.ub = l0, u0
        m, strict, call = stp["method"], stp["strict"], stp["call"]
        D = domain_set(P)
        r1, r2 = results_for(P, c["variant"])
        lr = base.LRes(True, 0, [0.5] * len(P.variables), 1.0, 3)
        if with_model and lines is not None:
            lines.append(base.model_line(call, P, m, strict, True, None, r1, r2, lr, None))
        text, info = base.observe(P, call, m, strict, True, None, r1, r2, lr)
        if echo:
            print(f"step {step} edit={stp['edit']} call={call} method={m} strict={strict} bounds="
                  f"{[(v.name, v.lb, v.ub) for v in P.variables]}:", text[:300])
        meta = dict(c, method=m, strict=strict, call=call, step=step)
        bad = judge(meta, text, info, D, dom)
        twin_ok = twin_ok and not strict
        if twin_ok:
            text2, _ = base.observe(twin[0], call, m, False, True, None, r1, r2, lr)
            if bad is None and D and not text.startswith("raise") and strip_warn(text) != text2:
                bad = {"what": "solver inputs / solution differ from those of the continuous relaxation",
                       "with_domains": strip_warn(text)[:500], "relaxed": text2[:500]}
        if bad is not None:
            bad.update({"kind_of_case": "boundsguard", "case": meta,
                        "bounds_at_the_solve": [[v.name, repr(v.lb), repr(v.ub), v.domain] for v in P.variables]})
        res.append((meta, text, bad))
    return res


def bounds_guard_cases(rep, rng, recs, thorough, with_model=True, first_only=False):
    """bound interval class (crossed / pinned / open / infinite / huge / non-integral …) × site (a non-continuous
    variable, all of them, an unrelated continuous variable, every variable) × how (declared / assigned after the model
    was written / assigned between two solves and restored) × route × method × strict × call site: strict raises
    IntegerVariableError naming exactly the non-continuous variables before any solver call, non-strict warns naming them"""
    routes = bounds_guard_routes(recs, 2 if thorough else 1)
    if not routes:
        return
    profiles = bound_profiles()
    off = rng.randrange(30)
    lines, metas = [], []
    ci = 0
    for tag, lb, ub, cls in profiles:
        q = 1 if thorough else {"crossed": 3, "pinned": 4}.get(cls, 6)
        for site in BG_SITES:
            for how in BG_HOWS:
                ci += 1
                for si, strict in enumerate((False, True)):
                    for mi, method in enumerate(METHODS):
                        if (ci + 15 * si + mi + off) % q:
                            continue
                        r = rng.choice(routes)
                        if how == "declared" and site != "other" and rng.random() < 0.8:
                            # a binary declaration ends at [0, 1] whatever was passed: mostly integer routes here
                            ints = [x for x in routes if (hd.base_of(x)[-2] if hd.base_of(x)[0] == "mat" else hd.base_of(x)[-1]) == "integer"]
                            r = rng.choice(ints or routes)
                        lp = method in LP_METHODS
                        kind = rng.choice(["lin", "lin+c", "lin", "lin+c", "nl"] if lp else ["lin", "lin+c", "nl", "nl+c", "nl-max"])
                        call, m = "solve", method
                        if rng.random() < 0.25:
                            call = "solve-lp" if lp else "solve-scipy"
                            m = None if (lp and method == "linprog") else "SLSQP" if method == "auto" else method
                        steps = []
                        if how == "between":
                            # the first solve sees sane bounds (and, when it is not strict, warms every cache)
                            m0 = rng.choice(SEQ_LP if kind.startswith("lin") and rng.random() < 0.6 else SEQ_NLP)
                            steps.append({"edit": None, "method": m0, "strict": rng.random() < 0.3, "call": "solve"})
                        steps.append({"edit": None if how == "declared" else "profile", "method": m, "strict": strict, "call": call})
                        if how == "between" and rng.random() < 0.5:
                            steps.append({"edit": "restore", "method": rng.choice(METHODS), "strict": rng.random() < 0.5, "call": "solve"})
                        c = {"recipe": r, "kind": kind, "profile": tag, "class": cls, "site": site, "how": how,
                             "pick": rng.randrange(12), "variant": rng.randrange(3), "steps": steps}
                        for meta, text, bad in bounds_guard_history(c, with_model=with_model, lines=lines):
                            metas.append((meta, text))
                            if bad is not None:
                                rep.oracle_failures.append(bad)
                                if first_only:
                                    return
    rep.evaluations += len(metas)
    outs = run_lean_unit(lines) if with_model else []
    for (meta, text), model in zip(metas, outs):
        if text != model:
            rep.corr_mismatches.append({"case": meta, "impl": text[:700], "model": model[:700]})
    for meta, text in metas:
        outc = text.split(":")[1].split(" ")[0] if text.startswith("raise") else "returns"
        for k in (f"boundsguard:{meta['profile']}:{'strict' if meta['strict'] else 'relax'}:{outc}",
                  f"boundsguard-site:{meta['site']}:{meta['how']}:step{meta['step']}"):
            rep.histogram[k] = rep.histogram.get(k, 0) + 1
        if "warn-relax" in text or "IntegerVariableError" in text:
            rep.nontrivial.add(hash(("boundsguard", meta["profile"], meta["site"], meta["how"], meta["method"],
                                     meta["strict"], meta["call"], meta["step"], meta["recipe"], meta["kind"])))


# ----------------------------------------------------------------------------- the SET of non-continuous variables changes
# AFTER the first solve.  The guard is about the model AT THE MOMENT OF THE CALL: a Problem that was solved while it was
# purely continuous (any method, strict or not) and is then extended through the ordinary API — subject_to (one
# constraint, a list, a vectorised comparison, bare-leaf constraints, a non-linear one), a re-declared objective
# (minimize / maximize), both, or a `domain` assigned to a variable it already has — with integer / binary variables of
# every declaration route (scalar, vector, matrix, views) must raise under strict=True naming ALL of them and warn naming
# ALL of them otherwise, for every method incl. the LP methods and every call site; a Problem that already had some at
# its first solve must name the old AND the new ones; and the reverse: once the objective is re-declared without them
# (or their domain is set back) nothing may warn or raise any more.  Read-only helpers are interleaved.
# The expected set is NOT read from optyx: the harness keeps its own record of the Variable objects it wrote into the
# objective and the constraints (`_Growing.user_names`).

GROW_STARTS = ["lin", "lin+c", "nl", "nl+c", "nl-max", "lin-max"]
GROW_VIAS = ["subject_to", "subject_to-list", "bare", "minimize", "maximize", "objective+constraint", "subject_to-nl", "domain"]
GROW_SHAPES = ["grow", "grow-on-discrete", "shrink", "shrink-grow", "grow"]
GROW_READS = ["summary", "repr", "str", "n_variables", "n_constraints", "variables", "get_bounds", "objective", "constraints", "sense"]
GROW_SEEDS = [("var", "k0", 0, 10, "integer"), ("vec", "q", 2, None, None, "binary"), ("var", "z0", None, None, "binary"),
              ("mat", "G", 2, 2, 0, 3, "integer", False)]
GROW_DOMAIN_TARGETS = ["u", "w[1]", "w", "base"]


def _uniq(vs):
    out = []
    for v in vs:
        if all(v is not e for e in out):
            out.append(v)
    return out


class _Growing:
    """ONE Problem object + the harness's own record of what was written on it (objective / constraint variables)"""

    def __init__(self, start, relax=False):
        from optyx import Problem, Variable, VectorVariable

        self.relax = relax
        self.u = Variable("u", lb=0.0, ub=1.0)
        self.w = VectorVariable("w", 2, lb=0.0, ub=1.0)
        self.base = [self.u, self.w[0], self.w[1]]
        self.obj_vars = list(self.base)
        self.con_vars = []
        self.lin_obj = start.startswith("lin")
        self.maxi = start.endswith("-max")
        self.nl_con = False
        self.memo = {}
        self.assigned = []
        self.P = Problem()
        self.declare()
        if "+c" in start:
            self.P.subject_to(self.u + self.w[0] <= 2.0)
            self.con_vars += [self.u, self.w[0]]

    # -- what the user wrote
    def declare(self):
        obj = None
        for i, v in enumerate(self.obj_vars):
            term = float(1 + i % 3) * v if self.lin_obj else (v - 0.25) ** 2
            obj = term if obj is None else obj + term
        self.P.maximize(-1.0 * obj) if self.maxi else self.P.minimize(obj)

    def kind(self):
        return "lin" if self.lin_obj and not self.nl_con else "nl"

    def user_names(self):
        """names of the non-continuous variables of the model as written (objective, then constraints)"""
        out = []
        for v in self.obj_vars + self.con_vars:
            if v.domain != "continuous" and v.name not in out:
                out.append(v.name)
        return out

    def expected(self):
        """the user's set in the order in which the problem lists its variables (order is not this property's matter)"""
        names = self.user_names()
        order = [v.name for v in self.P.variables]
        return [n for n in order if n in names] + [n for n in names if n not in order]

    def handle(self, recipe):
        h = hd.build_handle(recipe, self.memo)
        if self.relax:
            for obj in self.memo.values():
                for v in hd.handle_elements(obj):
                    v.domain = "continuous"
                if hasattr(obj, "domain"):
                    obj.domain = "continuous"
        return h, _uniq(hd.handle_elements(h))

    # -- the operations of a history
    def add(self, via, recipe):
        h, elems = self.handle(recipe)
        P = self.P
        if via in ("subject_to", "objective+constraint"):
            s = 1.0 * self.u
            for v in elems:
                s = s + v
            P.subject_to(s <= 64.0)
            self.con_vars += [self.u] + elems
        if via == "subject_to-nl":
            s = None
            for v in elems:
                s = v * v if s is None else s + v * v
            P.subject_to(s <= 4096.0)
            self.con_vars += elems
            self.nl_con = True
        if via == "subject_to-list":
            cons = None
            if type(h).__name__ != "Variable":
                try:
                    cons = h >= -64.0           # the vectorised comparison of the container / view itself
                except Exception:  # noqa: BLE001 - not every view offers it: element-wise list then
                    cons = None
            if not isinstance(cons, list) or not cons:
                cons = [v >= -64.0 for v in elems]
            P.subject_to(cons)
            self.con_vars += elems
        if via == "bare":
            for v in elems:
                P.subject_to(v >= 0)
            self.con_vars += elems
        if via in ("minimize", "maximize", "objective+constraint"):
            self.obj_vars = _uniq(self.obj_vars + elems)
            if via != "objective+constraint":
                self.maxi = via == "maximize"
            self.declare()

    def drop(self):
        """the objective re-declared on the continuous base variables only"""
        self.obj_vars = list(self.base)
        self.declare()

    def targets(self, which):
        return {"u": [self.u], "w[1]": [self.w[1]], "w": [self.w[0], self.w[1]], "base": list(self.base)}[which]

    def set_domain(self, which, dom):
        tg = self.targets(which)
        if not self.relax:
            for v in tg:
                v.domain = dom
            if which in ("w", "base") and hasattr(self.w, "domain"):
                self.w.domain = dom

    def read(self, what):
        P = self.P
        if what == "summary":
            P.summary()
        elif what == "repr":
            repr(P)
        elif what == "str":
            str(P)
        elif what == "n_variables":
            P.n_variables
        elif what == "n_constraints":
            P.n_constraints
        elif what == "variables":
            list(P.variables)
        elif what == "get_bounds":
            P.get_bounds()
        elif what == "objective":
            repr(P.objective)
        elif what == "constraints":
            list(P.constraints)
        elif what == "sense":
            P.sense

    def apply(self, stp):
        op = stp["op"]
        if op == "add":
            self.add(stp["via"], _tup(stp["recipe"]))
        elif op == "drop":
            self.drop()
        elif op == "domain":
            self.set_domain(stp["target"], stp["dom"])
        elif op == "edit":
            self.P.subject_to(self.u <= 64.0)
            self.con_vars.append(self.u)
        elif op == "read":
            self.read(stp["what"])


def growth_history(c, upto=None, with_model=False, lines=None, echo=False):
    """run the history of case `c` on the real code (solver seams stubbed).  Every solve is judged by `judge` against the
    harness's own record of the non-continuous variables; the non-strict solves are also compared with the same history on
    a twin whose domains are all continuous (while the two can still be in the same state).
    -> list of (step meta, observed text, failure or None)"""
    G = _Growing(c["start"])
    T = _Growing(c["start"], relax=True)
    res, twin_ok = [], True
    for step, stp in enumerate(c["steps"]):
        if upto is not None and step > upto:
            break
        if stp["op"] != "solve":
            G.apply(stp)
            T.apply(stp)
            if echo:
                print(f"step {step}: {stp}")
            continue
        P = G.P
        m, strict, call = stp["method"], stp["strict"], stp["call"]
        D = G.expected()
        r1, r2 = results_for(P, c["variant"])
        lr = base.LRes(True, 0, [0.5] * len(P.variables), 1.0, 3)
        if with_model and lines is not None:
            lines.append(base.model_line(call, P, m, strict, True, None, r1, r2, lr, None))
        text, info = base.observe(P, call, m, strict, True, None, r1, r2, lr)
        if echo:
            print(f"step {step}: {call} method={m} strict={strict}; non-continuous variables written into the model: {D}\n    ->",
                  text[:300])
        meta = {k: v for k, v in c.items() if k != "steps"}
        meta.update(steps=c["steps"], method=m, strict=strict, call=call, step=step, kind=G.kind(), recipe=c.get("recipe"))
        bad = judge(meta, text, info, D, None)
        if strict and D:
            twin_ok = False
        if twin_ok:
            text2, _ = base.observe(T.P, call, m, False, True, None, r1, r2, lr)
            if bad is None and D and not text.startswith("raise") and strip_warn(text) != text2:
                bad = {"what": "solver inputs / solution differ from those of the continuous relaxation",
                       "with_domains": strip_warn(text)[:500], "relaxed": text2[:500]}
        if bad is not None:
            bad.update({"kind_of_case": "growth", "case": meta,
                        "non_continuous_variables_written_into_the_model": D,
                        "history": "the steps of case['steps'] up to case['step'] on ONE Problem object"})
        res.append((meta, text, bad))
    return res


def growth_routes(recs, per=1):
    """one declaration route per (view kind, base kind, non-continuous domain), sane bounds (+ the plain declarations first)"""
    plain = [("var", "s_i", 0, 10, "integer"), ("var", "s_b", None, None, "binary"), ("vec", "x", 3, 0, 10, "integer"),
             ("vec", "x", 3, None, None, "binary"), ("mat", "A", 2, 2, 0, 10, "integer", False),
             ("mat", "A", 2, 2, None, None, "binary", True)]
    out = list(plain)
    for r in bounds_guard_routes(recs, per):
        if r not in out:
            out.append(r)
    return out


def growth_case(rng, routes, via, method, strict, ci, k):
    lp = method in LP_METHODS
    shape = GROW_SHAPES[ci % len(GROW_SHAPES)] if via != "domain" else "domain"
    if via == "subject_to-nl" or not lp:
        start = GROW_STARTS[ci % len(GROW_STARTS)]
    else:
        start = ["lin", "lin+c", "lin-max"][ci % 3]
    r = routes[k % len(routes)] if k < 2 * len(routes) else rng.choice(routes)   # every route at least twice, then random

    def site(m):
        if rng.random() < 0.25:
            if m in LP_METHODS:
                return "solve-lp", (None if m == "linprog" else m)
            return "solve-scipy", ("SLSQP" if m == "auto" else m)
        return "solve", m

    def solve(m, s):
        call, mm = site(m)
        return {"op": "solve", "method": mm, "strict": s, "call": call}

    def read():
        return [{"op": "read", "what": rng.choice(GROW_READS)}] if rng.random() < 0.4 else []

    def first():
        m0 = rng.choice(SEQ_LP if start.startswith("lin") and rng.random() < 0.6 else SEQ_NLP)
        return [solve(m0, rng.random() < 0.3)] + ([solve(rng.choice(METHODS), rng.random() < 0.5)] if rng.random() < 0.25 else [])

    other = METHODS[(METHODS.index(method) + 1 + ci % 7) % len(METHODS)]
    if via == "subject_to-nl" and lp and other in LP_METHODS:
        other = "SLSQP"
    post = [solve(method, strict)] + read() + [solve(other, not strict)]
    if rng.random() < 0.5:
        post.reverse()
    steps = []
    if shape == "domain":
        dom = ["integer", "binary"][ci % 2]
        tgt = GROW_DOMAIN_TARGETS[(ci // 2) % len(GROW_DOMAIN_TARGETS)]
        steps += first() + read() + [{"op": "domain", "target": tgt, "dom": dom}]
        if ci % 3 == 0:
            steps += [{"op": "edit"}]            # an ordinary edit after the assignment (every cache is dropped)
        steps += read() + post
        steps += [{"op": "domain", "target": tgt, "dom": "continuous"}] + read() + [solve(rng.choice(METHODS), rng.random() < 0.5)]
        r = None
    elif shape == "grow":
        steps += first() + read() + [{"op": "add", "via": via, "recipe": r}] + read() + post
    elif shape == "grow-on-discrete":
        seed = GROW_SEEDS[(ci // len(GROW_SHAPES)) % len(GROW_SEEDS)]
        steps += [{"op": "add", "via": rng.choice(["minimize", "subject_to", "bare"]), "recipe": seed}]
        steps += first() + read() + [{"op": "add", "via": via, "recipe": r}] + read() + post
    elif shape == "shrink":
        # the non-continuous variables enter through the objective only, are seen by a solve, and leave again
        ovia = via if via in ("minimize", "maximize") else "minimize"
        steps += [{"op": "add", "via": ovia, "recipe": r}] + first() + read() + [{"op": "drop"}] + read() + post
    else:  # shrink-grow
        steps += first() + [{"op": "add", "via": "minimize", "recipe": r}] + read() + [solve(other, rng.random() < 0.5)]
        steps += [{"op": "drop"}] + read() + [solve(rng.choice(METHODS), rng.random() < 0.5)]
        steps += [{"op": "add", "via": via, "recipe": r}] + read() + post
    return {"start": start, "shape": shape, "via": via, "recipe": r, "variant": rng.randrange(3), "steps": steps}


def growth_cases(rep, rng, recs, thorough, with_model=True, first_only=False):
    """first solve on a purely continuous model (or one with SOME non-continuous variables) × how non-continuous variables
    then enter / leave (8 ways) × declaration route × method × strict × call site, read-only helpers interleaved"""
    routes = growth_routes(recs, 2 if thorough else 1)
    lines, metas = [], []
    ci, k = rng.randrange(60), -1
    for rnd in range(3 if thorough else 1):
        for via in GROW_VIAS:
            for method in METHODS:
                for strict in (True, False):
                    ci, k = ci + 1, k + 1
                    c = growth_case(rng, routes, via, method, strict, ci, k)
                    for meta, text, bad in growth_history(c, with_model=with_model, lines=lines):
                        metas.append((meta, text))
                        if bad is not None:
                            rep.oracle_failures.append(bad)
                            if first_only:
                                return
    rep.evaluations += len(metas)
    outs = run_lean_unit(lines) if with_model else []
    for (meta, text), model in zip(metas, outs):
        if text != model:
            rep.corr_mismatches.append({"case": meta, "impl": text[:700], "model": model[:700]})
    for meta, text in metas:
        outc = text.split(":")[1].split(" ")[0] if text.startswith("raise") else "returns"
        for k in (f"growth:{meta['shape']}:{meta['via']}:{'strict' if meta['strict'] else 'relax'}:{outc}",
                  f"growth-method:{meta['method']}:{meta['call']}"):
            rep.histogram[k] = rep.histogram.get(k, 0) + 1
        if "warn-relax" in text or "IntegerVariableError" in text:
            rep.nontrivial.add(hash(("growth", meta["shape"], meta["via"], meta["method"], meta["strict"], meta["call"],
                                     meta["step"], str(meta["recipe"]), meta["start"])))


# -- the same dimension with REAL solves: the relaxed optimum is computed by hand (separable objective over a box)

GROW_REAL_NLP = ["auto", "SLSQP", "L-BFGS-B", "TNC", "trust-constr"]
GROW_REAL_LP = ["auto", "linprog", "highs", "highs-ds", "highs-ipm"]


def _clip(a, lb, ub):
    if lb is not None and a < lb:
        a = float(lb)
    if ub is not None and a > ub:
        a = float(ub)
    return a


def real_observe(P, method, strict):
    """-> (solution or None, exception or None, [names listed by each relaxation warning])"""
    import warnings

    listed = []
    sol = exc = None
    with warnings.catch_warnings(record=True) as wl:
        warnings.simplefilter("always")
        try:
            sol = P.solve(method=method, strict=strict)
        except Exception as e:  # noqa: BLE001 - the observation is the exception
            exc = e
    for w in wl:
        m = str(w.message)
        if m.startswith("Variables [") and base.RELAX_MARK in m:
            listed.append(m[len("Variables ["):m.index(base.RELAX_MARK)].split(", "))
    return sol, exc, listed


def growth_real_history(c, echo=False):
    """continuous separable model solved for real, extended by the elements of a non-continuous declaration route (new
    objective, optionally a slack constraint), then strict (must raise naming them) and non-strict (must warn naming them
    and return the hand-computed optimum of the continuous relaxation: the target of each variable clipped to its bounds /
    its lower bound).  -> failure dict or None"""
    from optyx import Problem, Variable

    lin = c["kind"] == "lin"
    # solver accuracy, not rounding: the default stopping tolerances of the NLP methods give ~1e-4 on these separable
    # quadratics; a wrong relaxation (a rounded / unclipped value, a stale bound) is off by >= 0.05
    tol = 2e-5 if lin else 5e-3
    base_vars = [Variable("u", lb=0.0, ub=1.0), Variable("v", lb=-2.0, ub=2.0)]
    targets = {"u": c["targets"][0], "v": c["targets"][1]}
    written = list(base_vars)

    def declare(P):
        obj = None
        for i, x in enumerate(written):
            term = float(1 + i % 3) * x if lin else (x - targets[x.name]) ** 2
            obj = term if obj is None else obj + term
        P.minimize(obj)

    def want_of(x):
        return float(x.lb) if lin else _clip(targets[x.name], x.lb, x.ub)

    def fail(what, **kw):
        d = {"what": what, "kind_of_case": "growth-real", "case": c}
        d.update(kw)
        return d

    def check_values(sol, tag):
        if sol is None or sol.status.name != "OPTIMAL":
            return fail(f"{tag}: a well-conditioned separable model over a box was not solved to OPTIMAL",
                        status=None if sol is None else sol.status.name)
        for x in written:
            have, want = sol.values.get(x.name), want_of(x)
            if have is None or abs(have - want) > tol * max(1.0, abs(want)):
                return fail(f"{tag}: {x.name} = {have}, the continuous relaxation has {want} (computed by hand)",
                            values={k: float(v) for k, v in sol.values.items()})
        return None

    P = Problem()
    declare(P)
    sol, exc, listed = real_observe(P, c["first_method"], c["first_strict"])
    if echo:
        print("first solve:", c["first_method"], "strict" if c["first_strict"] else "", "->", exc or sol.values, listed)
    if exc is not None or listed:
        return fail("a purely continuous problem triggered the integrality guard", exception=repr(exc), warned=listed)
    bad = check_values(sol, "before the extension")
    if bad is not None:
        return bad
    h = hd.build_handle(_tup(c["recipe"]))
    elems = []
    for x in hd.handle_elements(h):
        if x.name not in [e.name for e in elems]:
            elems.append(x)
    for i, x in enumerate(elems):
        targets[x.name] = c["elem_targets"][i % len(c["elem_targets"])]
    written += elems
    if c["via"] in ("subject_to", "both"):
        s = None
        for x in elems:
            s = x if s is None else s + x
        P.subject_to(s <= 1000.0)          # slack at the optimum
    declare(P)
    D = sorted(x.name for x in written if x.domain != "continuous")
    for strict in ((True, False) if c["strict_first"] else (False, True)):
        sol, exc, listed = real_observe(P, c["method"], strict)
        if echo:
            print("after the extension:", c["method"], "strict" if strict else "", "->",
                  repr(exc) if exc is not None else sol.values, listed)
        if strict:
            if exc is None:
                return fail("strict=True returned a solution for a problem with integer/binary variables", expected=D,
                            values={k: float(v) for k, v in sol.values.items()})
            if type(exc).__name__ != "IntegerVariableError":
                return fail(f"strict=True raised {type(exc).__name__} instead of IntegerVariableError", expected=D)
            if sorted(exc.variable_names or []) != D:
                return fail("IntegerVariableError does not list exactly the non-continuous variables",
                            listed=list(exc.variable_names or []), expected=D)
        else:
            if exc is not None:
                return fail(f"strict=False raised {type(exc).__name__}", expected=D)
            if not listed or any(sorted(l) != D for l in listed):
                return fail("strict=False returned a solution for a problem with integer/binary variables without a warning "
                            "naming exactly those variables", warned=listed, expected=D)
            bad = check_values(sol, "after the extension")
            if bad is not None:
                return bad
    return None


def growth_real_cases(rep, rng, recs, thorough, first_only=False):
    routes = [r for r in growth_routes(recs, 1) if r[0] not in ("diagm",) and "diagm" not in str(r)]
    n = 0
    for i in range(90 if thorough else 30):
        r = routes[i % len(routes)] if i < len(routes) else rng.choice(routes)
        b = hd.base_of(r)
        finite_lb = (b[-2] if b[0] == "mat" else b[-1]) == "binary" or (b[4] if b[0] == "mat" else b[-3]) is not None
        lin = i % 2 == 0 and finite_lb
        meths = GROW_REAL_LP if lin else GROW_REAL_NLP
        c = {"recipe": r, "kind": "lin" if lin else "nl", "via": ["minimize", "both", "subject_to"][i % 3],
             "method": meths[(i // 2) % len(meths)], "first_method": rng.choice(meths), "first_strict": rng.random() < 0.3,
             "strict_first": rng.random() < 0.5, "targets": [rng.choice([0.25, 0.5, 0.75]), rng.choice([-1.5, 0.5, 1.25])],
             "elem_targets": [rng.choice([0.3, 0.5, 2.5, 3.75, -1.5, 12.5, 0.75]) for _ in range(4)]}
        bad = growth_real_history(c)
        n += 1
        rep.histogram["growth-real:" + c["kind"] + ":" + c["method"]] = rep.histogram.get("growth-real:" + c["kind"] + ":" + c["method"], 0) + 1
        rep.nontrivial.add(hash(("growth-real", str(r), c["method"], c["via"])))
        if bad is not None:
            rep.oracle_failures.append(bad)
            if first_only:
                break
    rep.evaluations += n


def strip_warn(text):
    out, events, state = text.split(" | ")
    depth, cur, evs = 0, "", []
    for ch in events[len("events=("):-1]:
        cur += ch
        if ch == "(":
            depth += 1
        elif ch == ")":
            depth -= 1
            if depth == 0:
                evs.append(cur.strip())
                cur = ""
    kept = [e for e in evs if not e.startswith("(warn-relax ")]
    return f"{out} | events=({' '.join(kept)}) | {state}"


def split_events(text):
    events = text.split(" | ")[1]
    depth, cur, evs = 0, "", []
    for ch in events[len("events=("):-1]:
        cur += ch
        if ch == "(":
            depth += 1
        elif ch == ")":
            depth -= 1
            if depth == 0:
                evs.append(cur.strip())
                cur = ""
    return evs


def judge(meta, text, info, D, dom):
    """the property itself, on one observed run"""
    evs = split_events(text)
    calls = [e for e in evs if e.startswith("(minimize ") or e.startswith("(linprog ")]
    warns = [e for e in evs if e.startswith("(warn-relax ")]
    want_names = "(" + " ".join(base.qs(n) for n in D) + ")"
    if not D:
        if warns or "IntegerVariableError" in text:
            return {"what": "a purely continuous problem triggered the integrality guard", "observed": text[:400]}
        return None
    if meta["strict"]:
        if calls:
            return {"what": "strict=True but a solver ran", "observed": text[:400]}
        exc = info.get("exception")
        if exc is None:
            return {"what": "strict=True returned a solution for a problem with integer/binary variables", "observed": text[:400]}
        name = type(exc).__name__
        if name == "IntegerVariableError":
            if list(exc.variable_names or []) != D:
                return {"what": "IntegerVariableError does not list exactly the non-continuous variables",
                        "listed": list(exc.variable_names or []), "expected": D}
            if not all(n in str(exc) for n in D):
                return {"what": "the text of IntegerVariableError does not name every non-continuous variable",
                        "text": str(exc)[:300], "expected": D}
            return None
        lp_forced = meta["method"] in (None, "linprog", "highs", "highs-ds", "highs-ipm") or meta["call"] == "solve-lp"
        if name == "NonLinearError" and lp_forced and (meta["kind"].startswith("nl") or meta.get("sole")):
            return None
        return {"what": f"strict=True raised {name} instead of IntegerVariableError", "observed": text[:400]}
    # non-strict
    if "IntegerVariableError" in text:
        return {"what": "strict=False raised IntegerVariableError", "observed": text[:400]}
    last_warn = None
    for e in evs:
        if e.startswith("(warn-relax "):
            last_warn = e
        elif e.startswith("(minimize ") or e.startswith("(linprog "):
            if last_warn is None:
                return {"what": "a solver ran on a problem with integer/binary variables without a preceding warning",
                        "observed": text[:400]}
            if not last_warn.endswith(" " + want_names + ")"):
                return {"what": "the warning does not name exactly the non-continuous variables",
                        "warning": last_warn[:300], "expected": want_names[:300]}
            last_warn = None
    if info.get("exception") is None and not any(w.endswith(" " + want_names + ")") for w in warns):
        # the property, whatever the path taken: a solve that RETURNS for a problem with integer / binary
        # variables has warned, naming them (also when it returns without having called any solver)
        return {"what": "strict=False returned a solution for a problem with integer/binary variables without "
                        "a warning naming exactly those variables", "observed": text[:400], "expected": want_names[:300]}
    return None


def bounds_cases(rep, recs):
    """binary ⇒ [0, 1] on every element of every route; views share element objects with their base"""
    from optyx import Variable

    n = 0
    for r in recs:
        b = hd.base_of(r)
        dom = b[-2] if b[0] == "mat" else b[-1]
        memo = {}
        h = hd.build_handle(r, memo)
        elems = hd.handle_elements(h)
        base_elems = hd.handle_elements(memo[b])
        n += 1
        k = f"bounds:{r[0]}:{dom}"
        rep.histogram[k] = rep.histogram.get(k, 0) + 1
        for v in elems:
            if not isinstance(v, Variable) or v.domain != dom:
                rep.oracle_failures.append({"what": f"element {getattr(v, 'name', v)!r} lost the declared domain {dom}",
                                            "kind_of_case": "bounds", "recipe": r})
                break
            if dom == "binary" and not (v.lb == 0.0 and v.ub == 1.0):
                rep.oracle_failures.append({"what": f"binary element {v.name} has bounds [{v.lb}, {v.ub}]",
                                            "kind_of_case": "bounds", "recipe": r})
                break
            shared = any(v is e for e in base_elems)
            fresh_offdiag = v.name.startswith("_diag_")
            if not shared and not fresh_offdiag:
                rep.oracle_failures.append({"what": f"element {v.name} of a view is not the base's element object",
                                            "kind_of_case": "bounds", "recipe": r})
                break
        if dom == "binary":
            rep.nontrivial.add(hash(("bounds", r)))
    rep.evaluations += n


def run(ctx) -> core.Report:
    rng = ctx["rng"]
    thorough = ctx["tier"] == "thorough" or ctx["escalate"]
    rep = core.Report(rule="every construction route of the cell cover × 12 methods × strict (problem kind, call site and "
                           "stub result variant cycle so that each occurs with every method), + sampled random route "
                           "compositions; non-trivial = distinct (route, method, strict, kind, call) where the guard acted; "
                           "bounds: every route × 3 domains; bounds-guard: 28 bound intervals (crossed / pinned / open / infinite / "
                           "huge / non-integral) × 4 sites × 3 ways of setting them × methods × strict (every interval "
                           "meets every method and both modes); growth: 8 ways in which integer / binary variables enter "
                           "or leave a Problem AFTER its first solve × 15 methods × strict (each cell once; shape, start "
                           "model, route, call site cycle / are drawn), + real solves against the hand-computed relaxation")
    recs = route_recipes(rng, thorough)
    hd.handle_cases(rep, recs)
    bounds_cases(rep, recs)
    # the guard table uses a thinned list of routes (every route kind × domain appears), all of them in thorough
    guard_recs, per = [], {}
    for r in recs:
        b = hd.base_of(r)
        dom = b[-2] if b[0] == "mat" else b[-1]
        key = (r[0], b[0], dom)
        per[key] = per.get(key, 0) + 1
        if thorough or per[key] <= (3 if dom != "continuous" else 1):
            guard_recs.append(r)
    guard_cases(rep, rng, guard_recs, thorough)
    sole_view_cases(rep, rng, pick_views(recs, 2 if thorough else 1), thorough)
    sequence_cases(rep, rng, guard_recs, thorough)
    lifetime_cases(rep, rng, thorough)
    bounds_guard_cases(rep, rng, guard_recs, thorough)
    growth_cases(rep, rng, guard_recs, thorough)
    growth_real_cases(rep, rng, guard_recs, thorough)
    rep.exhaustive = True
    return rep


def search(ctx, rep):
    rng = core.Rng(ctx["seed"] + 32452843)
    r2 = core.Report()
    # first: every case on which model and implementation disagreed in this run becomes an oracle check —
    # a handle whose description differs is used as the sole modelling object of problems (all writings ×
    # all methods × strict); a disagreeing solve is re-observed and judged
    seen = set()
    for m in rep.corr_mismatches:
        c = m.get("case", {})
        rcp = _tup(c.get("handle") or c.get("recipe") or ())
        if not rcp or rcp in seen:
            continue
        seen.add(rcp)
        try:
            hd.build_handle(rcp)
        except Exception:  # noqa: BLE001
            continue
        sole_view_cases(r2, rng, [rcp], False, with_model=False, every=True)
        if r2.oracle_failures:
            return r2.oracle_failures[0]
        if len(seen) >= 40:
            break
    recs = route_recipes(rng, False)
    bounds_cases(r2, recs)
    if r2.oracle_failures:
        return r2.oracle_failures[0]
    bounds_guard_cases(r2, rng, recs, False, with_model=False, first_only=True)
    if r2.oracle_failures:
        return r2.oracle_failures[0]
    # the set of non-continuous variables changing after the first solve (stubbed seams, then real solves)
    growth_cases(r2, rng, recs, False, with_model=False, first_only=True)
    if r2.oracle_failures:
        return r2.oracle_failures[0]
    growth_real_cases(r2, rng, recs, False, first_only=True)
    if r2.oracle_failures:
        return r2.oracle_failures[0]
    # the oracle half only (the model is not consulted by `judge`)
    sequence_cases(r2, rng, recs, False, with_model=False)
    if r2.oracle_failures:
        return r2.oracle_failures[0]
    guard_cases_oracle_only(r2, rng, recs)
    return r2.oracle_failures[0] if r2.oracle_failures else None


def guard_cases_oracle_only(rep, rng, recs):
    kinds = ["lin", "lin+c", "nl", "nl+c", "nl-max"]
    i = 0
    for r in recs:
        for method in METHODS:
            for strict in (False, True):
                if rng.random() > 0.25:
                    continue
                kind = kinds[i % len(kinds)]
                variant = (i // 3) % 3
                i += 1
                P, _ = problem_from(r, kind)
                r1, r2 = results_for(P, variant)
                lr = base.LRes(True, 0, [0.5] * len(P.variables), 1.0, 3)
                text, info = base.observe(P, "solve", method, strict, True, None, r1, r2, lr)
                b = hd.base_of(r)
                meta = {"recipe": r, "kind": kind, "call": "solve", "method": method, "strict": strict, "variant": variant}
                bad = judge(meta, text, info, domain_set(P), b[-2] if b[0] == "mat" else b[-1])
                if bad is not None:
                    bad.update({"kind_of_case": "guard", "case": meta})
                    rep.oracle_failures.append(bad)
                    return


def _tup(x):
    return tuple(_tup(y) for y in x) if isinstance(x, list) else x


def replay(payload) -> bool:
    f = payload["failure"]
    if f.get("kind_of_case") == "bounds":
        rep = core.Report()
        bounds_cases(rep, [_tup(f["recipe"])])
        print(rep.oracle_failures)
        return not rep.oracle_failures
    if f.get("kind_of_case") == "sole":
        c = f["case"]
        r = _tup(c["recipe"])
        P, _ = sole_problem(r, c["kind"])
        r1, r2 = results_for(P, c["variant"])
        lr = base.LRes(True, 0, [0.5] * len(P.variables), 1.0, 3)
        text, info = base.observe(P, "solve", c["method"], c["strict"], True, None, r1, r2, lr)
        print(text)
        b = hd.base_of(r)
        bad = judge(c, text, info, domain_set(P), b[-2] if b[0] == "mat" else b[-1])
        if bad is None and domain_set(P) and not c["strict"] and not text.startswith("raise"):
            P2, _ = sole_problem(r, c["kind"], relax=True)
            text2, _ = base.observe(P2, "solve", c["method"], False, True, None, r1, r2, lr)
            if strip_warn(text) != text2:
                bad = {"what": "differs from the continuous relaxation", "relaxed": text2}
        print(bad)
        return bad is None
    if f.get("kind_of_case") == "boundsguard":
        c = f["case"]
        res = bounds_guard_history(c, upto=c["step"], echo=True)
        bad = res[-1][2] if res else None
        print(bad)
        return bad is None
    if f.get("kind_of_case") == "growth":
        c = f["case"]
        res = growth_history(c, upto=c["step"], echo=True)
        bad = res[-1][2] if res else None
        print(bad)
        return bad is None
    if f.get("kind_of_case") == "growth-real":
        bad = growth_real_history(f["case"], echo=True)
        print(bad)
        return bad is None
    if f.get("kind_of_case") == "sequence":
        bad = replay_sequence(f["case"])
        print(bad)
        return bad is None
    if f.get("kind_of_case") == "guard":
        c = f["case"]
        r = _tup(c["recipe"])
        P, _ = problem_from(r, c["kind"])
        r1, r2 = results_for(P, c["variant"])
        lr = base.LRes(True, 0, [0.5] * len(P.variables), 1.0, 3)
        text, info = base.observe(P, c["call"], c["method"], c["strict"], True, None, r1, r2, lr)
        print(text)
        b = hd.base_of(r)
        bad = judge(c, text, info, domain_set(P), b[-2] if b[0] == "mat" else b[-1])
        if bad is None and domain_set(P) and not c["strict"] and not text.startswith("raise"):
            P2, _ = problem_from(r, c["kind"], relax=True)
            text2, _ = base.observe(P2, c["call"], c["method"], False, True, None, r1, r2, lr)
            if strip_warn(text) != text2:
                bad = {"what": "differs from the continuous relaxation", "relaxed": text2}
        print(bad)
        return bad is None
    return True
