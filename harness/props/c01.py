"""C01 — compiled callables compute the same function as the expression tree.

Tie (model ↔ code, this run):
  * structural, exact: the closure that `compile_expression` really returns is *decompiled*
    (lambda signature + captured defaults + bytecode operator) into the closure IR of
    lean/Optyx/Py/Compile.lean and compared, as text, with `Py.compileExpression` run by the
    Lean driver — for V ∈ {own order, permutation, strict superset, duplicate name, missing
    variable, span orders} and for the switch threshold forced to {0, 3, 400}; also *which builder*
    ran (recursive / explicit-stack / Parameter bypass) and the error class + name for rejected
    input.  Span orders (for every index-array closure `x[idx]`): all 24 orders of a 4-element
    operand, endpoints in place with the interior permuted, a foreign variable inside the operand's
    span with the displaced member outside, reversed — through both builders;
  * numeric (rtol 1e-9 + conditioning guard): compiled value, `evaluate`, the dict wrapper and
    `CompiledExpression.value` vs the model over Lean `Float`; parameters are `.set()` between
    compilation and call.
Magnitude dimension: every node that stores numbers (LinearCombination over variables / expressions,
A @ x rows, QuadraticForm entries, Constant leaves, integer powers, VectorPowerSum, Parameters) with
stored numbers in {0, ±1e-300, ±1e-12, ±1e-9, ±1e-8(1±ε), ±1e-7, ±1, ±1e8, ±1e16} and coordinates in
{±1e-9 … ±1e9} (also paired so that tiny·huge terms matter); each observable is compared with the
*exact* rational value (Fractions) with a tolerance relative to Σ|terms| — no absolute floor.

Oracle (independent of the Lean model): harness/oracle.py `ref_eval` (plain `math`) vs the four
observables of the real code at regular points.
"""
from __future__ import annotations

import dis
import math
import warnings

import numpy as np

import core
import gen
import oracle
from ser import Ids, Ser, Unsupported, cst, rat, ser, deser, env_text, store_text, bits_to_float

LEAN_MODULE = "Optyx.Props.C01"
THEOREMS = [
    "Optyx.Props.C01.evaluate_eq_denote",
    "Optyx.Props.C01.compile_total",
    "Optyx.Props.C01.compile_sound",
    "Optyx.Props.C01.compile_eq_evaluate",
    "Optyx.Props.C01.compileIter_eq",
    "Optyx.Props.C01.compile_threshold_irrelevant",
    "Optyx.Props.C01.compileExpression_sound",
    "Optyx.Props.C01.envOf_get",
    "Optyx.Props.C01.dictFn_sound",
    "Optyx.Props.C01.compiledValue_sound",
    "Optyx.Props.C01.compile_sound_real",
]
ASSUMPTIONS = [
    "scalar constants only; ElementwisePower / ElementwiseUnary (array-valued nodes) are outside the model",
    "float points and float constants: NumPy's integer-power rule for all-int operands (F20) is outside the model",
    "np.sum / np.dot / x@Q@x / np.linalg.norm are 'the usual sums'; Python's builtin sum is a left fold from 0 "
    "(theorems relating the two assume the additive-monoid laws, which hold in ℝ and fail for IEEE doubles: "
    "the float gap is the tested tolerance)",
    "vector operands satisfy the size checks of the constructors (Expr well-formedness `wfE`)",
    "the lru_cache in front of the builders is transparent (property C14)",
]

THRESHOLDS = [0, 3, 400]


def run_lean_unit(lines):
    return core.run_lean(lines)


# ----------------------------------------------------------------------------- decompiler


class UnknownClosure(Exception):
    pass


_SIG_CACHE: dict = {}


def _sig(fn):
    """signature of a lambda's code object (one code object per lambda site: cached)"""
    code = fn.__code__
    got = _SIG_CACHE.get(code)
    if got is None:
        args = code.co_varnames[:code.co_argcount]
        names = frozenset(code.co_names)
        ins = list(dis.get_instructions(code))
        ops = tuple(i.argrepr for i in ins if i.opname == "BINARY_OP")
        loads = tuple(i.argval for i in ins if i.opname.startswith("LOAD_FAST"))
        got = _SIG_CACHE[code] = (args, names, ops, loads)
    return got


def _un_name(ufunc):
    from optyx.core.expressions import UnaryOp

    for k, f in UnaryOp._OPS.items():
        if f is ufunc:
            return k
    raise UnknownClosure(f"ufunc {ufunc}")


def _vun_name(func):
    from optyx.core.vectors import VectorUnarySum

    for k, f in VectorUnarySum._NUMPY_FUNCS.items():
        if f is func:
            return k
    raise UnknownClosure(f"vector func {func}")


def _ints(arr):
    return "(" + " ".join(str(int(i)) for i in np.asarray(arr).tolist()) + ")"


def _rats(arr):
    return "(" + " ".join(rat(v) for v in np.asarray(arr).tolist()) + ")"


def _k(value):
    return "(k " + cst(value)[3:-1] + ")"


def clo_ir(fn) -> str:
    """decompile a closure built by _build_evaluator / _build_evaluator_iterative (explicit stack:
    chains of 900 binary closures must not hit the recursion limit of the decompiler itself)"""
    out = []
    stack = [fn]
    while stack:
        it = stack.pop()
        if isinstance(it, str):
            out.append(it)
            continue
        args, names, ops, loads = _sig(it)
        d = it.__defaults__ or ()
        if args == ("x",):
            if it.__code__.co_freevars == ("value",):
                out.append(_k(it.__closure__[0].cell_contents))
            else:
                raise UnknownClosure(f"{args} free={it.__code__.co_freevars}")
        elif args == ("x", "v"):
            out.append(_k(d[0]))
        elif args == ("x", "p") and ("value" in names or "_param_value" in names):
            out.append(f'(par "{d[0].name}")')
        elif args == ("x", "i"):
            out.append(f"(ix {int(d[0])})")
        elif args == ("x", "lf", "rf") and "dot" in names:
            out.append("(dotVV " + vclo_ir(d[0]) + " " + vclo_ir(d[1]) + ")")
        elif args == ("x", "lf", "rf") and len(ops) == 1:
            lf, rf = d
            order = [n for n in loads if n in ("lf", "rf")]
            if order != ["lf", "rf"]:
                lf, rf = rf, lf  # operands applied in the other order: decompile what it does
            out.append(f"(b {ops[0]} ")
            stack.append(")")
            stack.append(rf)
            stack.append(" ")
            stack.append(lf)
        elif args == ("x", "f", "np_f"):
            out.append(f"(u {_un_name(d[1])} ")
            stack.append(")")
            stack.append(d[0])
        elif args == ("x", "c", "idx") and "dot" in names:
            out.append(f"(dotIdx {_rats(d[0])} {_ints(d[1])})")
        elif args == ("x", "c", "fns") and "dot" in names:
            out.append(f"(dotFns {_rats(d[0])} (" + " ".join(clo_ir(f) for f in d[1]) + "))")
        elif args == ("x", "idx") and "sum" in names:
            out.append(f"(sumIdx {_ints(d[0])})")
        elif args == ("x", "fns") and "sqrt" in names:
            out.append("(sqrtSumSq (" + " ".join(clo_ir(f) for f in d[0]) + "))")
        elif args == ("x", "fns") and "sum" in names and ("float" in names or "float64" in names):
            out.append("(sumFns (" + " ".join(clo_ir(f) for f in d[0]) + "))")
        elif args == ("x", "vf") and "norm" in names:
            out.append("(norm " + vclo_ir(d[0]) + ")")
        elif args == ("x", "vf") and "sum" in names and "abs" in names:
            out.append("(sumAbs " + vclo_ir(d[0]) + ")")
        elif args == ("x", "vf", "Q"):
            rows = " ".join(_rats(r) for r in np.asarray(d[1]))
            out.append("(quad " + vclo_ir(d[0]) + " (" + rows + "))")
        elif args == ("x", "idx", "k") and "sum" in names:
            out.append(f"(powSumIdx {_ints(d[0])} {rat(d[1])})")
        elif args == ("x", "idx", "f") and "sum" in names:
            out.append(f"(unSumIdx {_ints(d[0])} {_vun_name(d[1])})")
        else:
            raise UnknownClosure(f"args={args} names={sorted(names)} ops={ops}")
    return "".join(out)


def vclo_ir(fn) -> str:
    args, names, ops, loads = _sig(fn)
    d = fn.__defaults__ or ()
    if args == ("x", "idx") and "sum" not in names:
        return f"(gather {_ints(d[0])})"
    if args == ("x", "fns") and "array" in names:
        return "(fns (" + " ".join(clo_ir(f) for f in d[0]) + "))"
    raise UnknownClosure(f"vector closure args={args} names={sorted(names)}")


# ----------------------------------------------------------------------------- the real code


class Spy:
    """which builder compile_expression used (wrappers installed from outside, no repo change)"""

    def __enter__(self):
        import optyx.core.compiler as C

        self.C = C
        self.orig_iter = C._build_evaluator_iterative
        self.orig_cached = C._compile_cached
        self.calls = []

        def it(expr, vi):
            self.calls.append("iter")
            return self.orig_iter(expr, vi)

        def cached(*a):
            self.calls.append("cached")
            return self.orig_cached(*a)

        C._build_evaluator_iterative = it
        C._compile_cached = cached
        return self

    def builder(self):
        if "cached" not in self.calls:
            return "param"
        return "iter" if "iter" in self.calls else "rec"

    def __exit__(self, *a):
        self.C._build_evaluator_iterative = self.orig_iter
        self.C._compile_cached = self.orig_cached


def py_compile(e, V, thr):
    """compile_expression with the threshold forced; returns (text, fn|None)"""
    import optyx.core.compiler as C

    old = C._RECURSION_THRESHOLD
    C._compile_cached.cache_clear()
    try:
        C._RECURSION_THRESHOLD = thr
        with Spy() as spy:
            try:
                fn = C.compile_expression(e, V)
            except KeyError as ex:
                return f"raise:KeyError:{ex.args[0]}", None
            except RecursionError:
                return "raise:RecursionError", None
            except Exception as ex:  # noqa: BLE001
                return f"raise:{type(ex).__name__}", None
            b = spy.builder()
        try:
            return b + " " + clo_ir(fn), fn
        except UnknownClosure as ex:
            return f"{b} unknown-closure:{ex}", fn
    finally:
        C._RECURSION_THRESHOLD = old
        C._compile_cached.cache_clear()


def fl(v):
    a = np.asarray(v)
    if a.ndim != 0:
        raise ValueError("array-valued result")
    return float(a)


def call(fn):
    """(value | None, error-class | None)"""
    with warnings.catch_warnings(), np.errstate(all="ignore"):
        warnings.simplefilter("ignore")
        try:
            return fl(fn()), None
        except Exception as ex:  # noqa: BLE001
            kind = type(ex).__name__
            if isinstance(ex, ValueError) and "Integers to negative integer powers" in str(ex):
                kind = "int_negative_power"
            return None, kind


def same(a: float, b: float, rtol=1e-9) -> bool:
    if math.isnan(a) or math.isnan(b):
        return math.isnan(a) and math.isnan(b)
    if math.isinf(a) or math.isinf(b):
        return a == b
    return abs(a - b) <= rtol * (1.0 + max(abs(a), abs(b)))


def well_conditioned(e, pt) -> bool:
    """the reference moves < 1e-10 (relative) under a 1e-13 relative perturbation of the inputs"""
    try:
        v0 = oracle.prim(oracle.ref_eval(e, pt))
        for s in (1.0, -1.0):
            pp = {k: v * (1 + s * 1e-13) + s * 1e-15 for k, v in pt.items()}
            v1 = oracle.prim(oracle.ref_eval(e, pp))
            if abs(v1 - v0) > 1e-10 * (1.0 + abs(v0)):
                return False
        return True
    except Exception:  # noqa: BLE001
        return False


def has_f20_shape(e) -> bool:
    """an int-typed constant as a negative exponent, or an all-int constant sub-tree under '**' / '/'
    (NumPy integer rules, finding F20 — outside the model)"""
    from optyx.core.expressions import BinaryOp, Constant, UnaryOp

    stack = [e]
    while stack:
        n = stack.pop()
        if isinstance(n, BinaryOp):
            if n.op == "**" and isinstance(n.right, Constant) and isinstance(n.right.value, (int, np.integer)) \
                    and n.right.value < 0:
                return True
            stack += [n.left, n.right]
        elif isinstance(n, UnaryOp):
            stack.append(n.operand)
        else:
            for attr in ("vector", "left", "right", "expression"):
                sub = getattr(n, attr, None)
                if sub is not None and hasattr(sub, "_expressions"):
                    stack += list(sub._expressions)
            m = getattr(n, "matrix", None)
            if m is not None and hasattr(m, "_expressions"):
                stack += [x for row in m._expressions for x in row]
    return False


# ----------------------------------------------------------------------------- cases


def cell_cover(rng):
    """one representative per closure shape / decision cell of the two builders"""
    from optyx.core.expressions import BinaryOp, Constant, UnaryOp
    from optyx.core import vectors as V
    from optyx.core import matrices as M

    U = gen.Universe(rng)
    a, b = U.scalars[0], U.scalars[1]
    p = U.params[0]
    n = U.n
    out = []
    atoms = [("K", Constant(2.5)), ("X", a), ("P", p), ("X1", U.x[1])]
    for op in gen.BIN:
        for la, l in atoms:
            for ra, r in atoms:
                out.append((f"bin{op}:{la}:{ra}", BinaryOp(l, r, op), U))
    # operand order of the non-commutative operators through nested shapes
    out.append(("order:-", (a - b) - (U.x[0] - p), U))
    out.append(("order:/", (a / (b + 3.0)) / (U.x[0] * U.x[0] + 1.0), U))
    out.append(("order:**", (a * a + 1.0) ** (b / 4.0), U))
    for op in gen.UNARY:
        out.append((f"un:{op}", gen.safe_unary(rng, op, a), U))
        out.append((f"un:{op}:param", gen.safe_unary(rng, op, p * b), U))
    cs = np.array([2.0, -1.0, 0.5][:n] + [1.0] * max(0, n - 3))
    Q = np.array([[(i + 1.0) * (j - 1.0) + (0.5 if i == j else 0.0) for j in range(n)] for i in range(n)])
    views = U.vec_views()
    vexprs = [U.x + 1.0, U.x - U.y, 2.0 * U.w[0:n], V.VectorExpression([a, Constant(2.0), p][:n] + [b * a] * max(0, n - 3)),
              V.VectorExpression([gen.unary("sin", v) for v in U.x]), M.MatrixVectorProduct(Q, U.x)]
    for v in views + vexprs:
        out.append(("vec:lc", V.LinearCombination(cs, v), U))
        out.append(("vec:l2", V.L2Norm(v), U))
        out.append(("vec:l1", V.L1Norm(v), U))
        out.append(("vec:qf", M.QuadraticForm(v, Q), U))
        out.append(("vec:dotself", V.DotProduct(v, v), U))
        for v2 in views[:3] + vexprs[:2]:
            out.append(("vec:dot", V.DotProduct(v, v2), U))
    for v in views:
        out.append(("vec:vs", V.VectorSum(v), U))
        for k in [1, 2, 3, 0.5, -1.0, 2.5, 0]:
            out.append((f"vec:ps{k}", V.VectorPowerSum(v, k), U))
        for op in gen.VOPS:
            out.append((f"vec:us:{op}", V.VectorUnarySum(v, op), U))
    for v in vexprs:
        out.append(("vec:es", v.sum(), U))
    for m in (U.M, U.S, U.M.T, U.S[0:2, 0:2]):
        out.append(("mat:msv", m.sum(), U))
        out.append(("mat:fro", M.FrobeniusNorm(m), U))
        out.append(("mat:mse", (m * m).sum(), U))
        out.append(("mat:mse2", (m - 1.5).sum(), U))
    # index-array closures over 4-element operands: tagged "span" → all 24 orders + every span order
    U4 = gen.Universe(rng, nvec=4, tag="q")
    cs4 = np.array([2.0, -1.0, 0.5, 3.0])
    Q4 = np.array([[(i + 1.0) * (j - 1.5) + (0.5 if i == j else 0.0) for j in range(4)] for i in range(4)])
    for vn, v in (("x", U4.x), ("w0", U4.w[0:4]), ("w2", U4.w[2:6]), ("w1", U4.w[1:5]),
                  ("xrev", U4.x[::-1])):
        out.append((f"span:lc:{vn}", V.LinearCombination(cs4, v), U4))
        out.append((f"span:vs:{vn}", V.VectorSum(v), U4))
        out.append((f"span:ps:{vn}", V.VectorPowerSum(v, 3), U4))
        out.append((f"span:us:{vn}", V.VectorUnarySum(v, "sin"), U4))
        out.append((f"span:dot:{vn}", V.DotProduct(v, U4.y), U4))
        out.append((f"span:dotself:{vn}", V.DotProduct(v, v), U4))
        out.append((f"span:l1:{vn}", V.L1Norm(v), U4))
        out.append((f"span:l2:{vn}", V.L2Norm(v), U4))
        out.append((f"span:qf:{vn}", M.QuadraticForm(v, Q4), U4))
    # every vector node inside a scalar chain (the explicit-stack builder's per-kind branches)
    extra = []
    for tag, node, UU in out:
        if tag.startswith(("vec:", "mat:")) and rng.random() < 0.5:
            extra.append(("in-chain:" + tag, gen.unary("tanh", (node - a) * 0.5) + p, UU))
    out += extra
    # bare leaves
    out += [("leaf:const", Constant(3.0), U), ("leaf:var", a, U), ("leaf:param", p, U),
            ("leaf:ln2", Constant(np.log(2.0)), U)]
    return out


def chains(rng, thorough):
    """left-deep chains around the switch (399/400/401) and beyond, all operators"""
    from optyx.core.expressions import Constant

    out = []
    for n in ([5, 399, 400, 401, 900] if thorough else [5, 399, 400, 401]):
        U = gen.Universe(rng)
        vs = U.all_vars()
        for op in ["+", "-", "*", "/"]:
            e = vs[0]
            for i in range(n):
                t = vs[(i + 1) % len(vs)]
                if op == "+":
                    e = e + t * 0.5
                elif op == "-":
                    e = e - t
                elif op == "*":
                    e = e * (gen.unary("tanh", t) * 0.125 + 1.0)
                else:
                    e = e / (t * t * 0.015625 + 1.0)
            out.append((f"chain{op}:{n}", e, U))
        # a chain with vector nodes and parameters as terms
        e = U.x.sum()
        for i in range(n):
            t = [U.x.dot(U.y), (U.x ** 2).sum(), U.M.sum(), U.params[0], U.scalars[0]][i % 5]
            e = e + t
        out.append((f"chain-vec:{n}", e, U))
    return out


def vector_operands(e):
    """element lists (distinct Variables, in operand order) of the VectorVariable operands of the
    vector nodes occurring in `e` — the index arrays `x[idx]` of the compiled closures"""
    from optyx.core.expressions import BinaryOp, UnaryOp
    from optyx.core.vectors import VectorVariable

    out, seen = [], set()
    stack = [e]
    while stack:
        n = stack.pop()
        if isinstance(n, BinaryOp):
            stack += [n.left, n.right]
            continue
        if isinstance(n, UnaryOp):
            stack.append(n.operand)
            continue
        for attr in ("vector", "left", "right", "expression"):
            sub = getattr(n, attr, None)
            if sub is None:
                continue
            if isinstance(sub, VectorVariable):
                if id(sub) not in seen:
                    seen.add(id(sub))
                    L = []
                    for v in sub._variables:
                        if v.name not in {w.name for w in L}:
                            L.append(v)
                    out.append(L)
            elif hasattr(sub, "_expressions"):
                stack += list(sub._expressions)
        m = getattr(n, "matrix", None)
        if m is not None and hasattr(m, "_expressions"):
            stack += [x for row in m._expressions for x in row]
    return out


def span_orders(rng, L, own, foreign, how_many=2):
    """ordered variable lists V ⊇ own in which the first and the last element of the vector operand
    `L` sit exactly len(L)-1 positions apart although the operand is *not* laid out contiguously in
    order: (i) endpoints in place, interior permuted (len ≥ 4); (ii) a foreign variable inside the
    span and the displaced member outside (len ≥ 3); (iii) reversed operand.  These are the orders
    on which a contiguous-slice shortcut for `x[idx]` would silently read the wrong entries."""
    names = {v.name for v in L}
    rest = [v for v in own if v.name not in names]
    out = []

    def wrap(core_block, displaced=()):
        others = rest + list(displaced)
        rng.shuffle(others)
        cut = rng.randint(0, len(others))
        return others[:cut] + core_block + others[cut:]

    k = len(L)
    if k >= 4:
        for _ in range(how_many):
            mid = L[1:-1]
            for _try in range(8):
                rng.shuffle(mid)
                if mid != L[1:-1]:
                    break
            out.append(("span-interior", wrap([L[0]] + mid + [L[-1]])))
    if k >= 3 and foreign:
        for _ in range(how_many):
            j = rng.randint(1, k - 2)
            f = rng.choice(foreign)
            block = [L[0]] + [f if i == j else L[i] for i in range(1, k - 1)] + [L[-1]]
            out.append(("span-foreign", wrap(block, displaced=[L[j]])))
        # a foreign variable inside and the *first* / *last* member displaced
        f = rng.choice(foreign)
        out.append(("span-foreign-end", wrap([L[1], L[0], f] + L[2:]) if k >= 3 else wrap(L)))
    if k >= 2:
        out.append(("span-reversed", wrap(list(reversed(L)))))
    return out


def v_variants(rng, e, U, spans=True):
    """ordered variable lists: own order, a permutation, a strict superset, and — when the expression
    has vector operands — the span orders of `span_orders`"""
    from optyx import Variable

    own = gen.expr_vars(e)
    out = [("own", list(own))]
    if spans:
        foreign = [v for v in U.all_vars() if v.name not in {w.name for w in own}]
        ops = [L for L in vector_operands(e) if len(L) >= 3]
        if ops:
            L = rng.choice(ops)
            picks = span_orders(rng, L, own, foreign, how_many=1)
            rng.shuffle(picks)
            out += picks[:2]
    if len(own) >= 2:
        perm = list(own)
        rng.shuffle(perm)
        out.append(("perm", perm))
    others = [v for v in U.all_vars() if v.name not in {w.name for w in own}]
    rng.shuffle(others)
    sup = list(own) + others[: rng.randint(1, 3)]
    rng.shuffle(sup)
    out.append(("superset", sup))
    return out


def run(ctx) -> core.Report:
    import optyx.core.compiler as C
    from optyx import Variable

    rng = ctx["rng"]
    thorough = ctx["tier"] == "thorough" or ctx["escalate"]
    rep = core.Report(rule="closure-shape cell cover (every operator × operand kind, every unary function, every "
                           "vector/matrix node × operand kind, alone and inside chains) + left-deep chains at "
                           "399/400/401(/900) + seeded random trees, each × V ∈ {own, permutation, strict superset} "
                           "(+ duplicate / missing variable) × threshold ∈ {0,3,400}; non-trivial = distinct "
                           "(expression, V, point) with at least one variable whose value is finite")
    exprs = list(cell_cover(rng)) + chains(rng, thorough)
    n_rand = 25000 if thorough else 2000
    depth_hi = 6 if thorough else 4
    for i in range(n_rand):
        U = gen.Universe(rng)
        safe = i % 3 != 2
        exprs.append(("rand-safe" if safe else "rand", gen.rand_expr(rng, U, rng.randint(1, depth_hi), safe=safe), U))

    ids = Ids()
    lines, metas = [], []  # Lean protocol lines and what they belong to

    def add(line, meta):
        lines.append(line)
        metas.append(meta)

    cases = []
    for tag, e, U in exprs:
        if has_f20_shape(e):
            rep.skipped["F20-shape (int constant as negative exponent)"] = rep.skipped.get(
                "F20-shape (int constant as negative exponent)", 0) + 1
            continue
        try:
            s = Ser(ids).expr(e)
        except Unsupported as ex:
            rep.skipped["unsupported:" + str(ex)] = rep.skipped.get("unsupported:" + str(ex), 0) + 1
            continue
        key = tag.split(":")[0]
        rep.histogram[key] = rep.histogram.get(key, 0) + 1
        params = list(U.params)
        variants = v_variants(rng, e, U)
        own = variants[0][1]
        deep = tag.startswith("chain")
        if tag.startswith("span:"):
            import itertools

            foreign = [v for v in U.all_vars() if v.name not in {w.name for w in own}]
            L = vector_operands(e)[0]
            variants = [("own", list(own))]
            if len(own) <= 4:
                variants += [("perm24", list(p)) for p in itertools.permutations(own)][1:]
            variants += span_orders(rng, L, own, foreign, how_many=3 if len(own) > 4 else 2)
        if own and not deep and rng.random() < 0.15:
            # duplicate name: a second Variable object with the name of an existing one
            dup = list(own) + [Variable(own[0].name)]
            variants.append(("dup", dup))
        if own and rng.random() < (0.5 if deep else 0.15):
            variants.append(("missing", list(own[1:]) if rng.random() < 0.5 else list(own[:-1])))
        for vi, (vtag, V) in enumerate(variants):
            vtxt = "(" + " ".join(Ser(ids).var(v) for v in V) + ")"
            pt = gen.rand_point(rng, V)
            x = [pt[v.name] for v in V]  # with a duplicate name both slots carry the same value
            newp = {p: rng.dy() for p in params}
            case = {"tag": tag, "vtag": vtag, "e": e, "s": s, "V": V, "vtxt": vtxt, "x": x, "pt": pt,
                    "params": params, "newp": newp, "thr_num": THRESHOLDS[(len(cases) + vi) % 3]}
            if vtag.startswith(("span", "perm24")):
                # both builders numerically: a bare vector node has depth estimate 0/1
                case["thr_num"] = 0 if vi % 2 == 0 else 400
                rep.histogram["V:" + vtag] = rep.histogram.get("V:" + vtag, 0) + 1
            cases.append(case)

    # ---- real code, then the protocol lines (the store text needs the post-set parameter values)
    for ci, c in enumerate(cases):
        e, V = c["e"], c["V"]
        c["py_ir"] = {}
        for thr in THRESHOLDS:
            for p in c["params"]:
                p.set(1.5)
            txt, fn = py_compile(e, V, thr)
            c["py_ir"][thr] = txt
            add(f"compile {c['s']} {c['vtxt']} {thr}", (ci, "ir", thr))
            if thr == c["thr_num"]:
                c["fn"] = fn
        if c["vtag"] == "missing":
            # evaluate with the same variable missing
            add(f"evalpy {c['s']} {env_text(c['pt'])} ()", (ci, "evalmiss", None))
            with warnings.catch_warnings():
                warnings.simplefilter("ignore")
                try:
                    e.evaluate(dict(c["pt"]))
                    c["py_evalmiss"] = "no-error"
                except Exception as ex:  # noqa: BLE001
                    c["py_evalmiss"] = f"raise:{type(ex).__name__}:{getattr(ex, 'variable_name', '')}"
            continue
        # parameters change between compilation and call
        for p, v in c["newp"].items():
            p.set(v)
        store = store_text(c["params"], ids)
        xs = "(" + " ".join(rat(v) for v in c["x"]) + ")"
        fn = c.get("fn")
        arr = np.array(c["x"], dtype=float)
        c["py_val"] = call(lambda: fn(arr)) if fn is not None else (None, "not-compiled")
        c["py_eval"] = call(lambda: e.evaluate(dict(c["pt"])))
        old = C._RECURSION_THRESHOLD
        try:
            C._RECURSION_THRESHOLD = c["thr_num"]
            C._compile_cached.cache_clear()
            c["py_dict"] = call(lambda: C.compile_to_dict_function(e, V)(dict(c["pt"])))
            if ci % 4 == 0 and not c["tag"].startswith("chain"):
                c["py_cv"] = call(lambda: C.CompiledExpression(e, V).value(arr))
        finally:
            C._RECURSION_THRESHOLD = old
            C._compile_cached.cache_clear()
        add(f"runc {c['s']} {c['vtxt']} {xs} {store} {c['thr_num']}", (ci, "runc", None))
        add(f"evalpy {c['s']} {env_text(c['pt'])} {store}", (ci, "evalpy", None))
        add(f"dictfn {c['s']} {c['vtxt']} {env_text(c['pt'])} {store} {c['thr_num']}", (ci, "dictfn", None))
        # the reference value (independent interpreter) at this point with the current parameter values
        try:
            ref = oracle.prim(oracle.ref_eval(e, dict(c["pt"])))
            c["ref"] = float(ref)
        except (oracle.NotRegular, OverflowError, ZeroDivisionError, ValueError, KeyError):
            c["ref"] = None
        c["cond"] = well_conditioned(e, c["pt"]) if c["ref"] is not None else False

    outs = run_lean_unit(lines)
    rep.evaluations = len(lines)
    model = {}
    for (ci, kind, thr), o in zip(metas, outs):
        model[(ci, kind, thr)] = o

    def mism(c, what, impl, mod):
        rep.corr_mismatches.append({"what": what, "tag": c["tag"], "V": c["vtag"], "expr": c["s"][:400],
                                    "vars": c["vtxt"][:200], "impl": str(impl)[:400], "model": str(mod)[:400]})

    for ci, c in enumerate(cases):
        # ---- structural tie: IR and builder, all thresholds
        for thr in THRESHOLDS:
            m = model[(ci, "ir", thr)]
            if c["py_ir"][thr] != m:
                mism(c, f"closure IR / builder differs at threshold {thr}", c["py_ir"][thr], m)
            b = m.split(" ")[0].split(":")[0]
            rep.histogram["builder:" + b] = rep.histogram.get("builder:" + b, 0) + 1
            if c["py_ir"][thr].startswith("raise:") and c["vtag"] != "missing":
                # "every expression kind the API can construct can be compiled"
                rep.oracle_failures.append({"what": f"compile_expression raised {c['py_ir'][thr]} at threshold {thr}",
                                            "expr": c["s"], "vars": [v.name for v in c["V"]], "threshold": thr})
        if c["vtag"] == "missing":
            m = model[(ci, "evalmiss", None)]
            if c["py_evalmiss"] != m:
                mism(c, "evaluate with a missing value", c["py_evalmiss"], m)
            continue
        # ---- numeric tie (model over Float vs implementation), regular well-conditioned points only
        ref, cond = c["ref"], c["cond"]
        obs = {"runc": c["py_val"], "evalpy": c["py_eval"], "dictfn": c["py_dict"]}
        for kind, (val, err) in obs.items():
            m = model[(ci, kind, None)]
            if m.startswith("raise:") or m.startswith("bad-"):
                mism(c, f"model {kind} did not produce a value", (val, err), m)
                continue
            mv = bits_to_float(m)
            if ref is None or not cond:
                continue
            if val is None:
                continue  # judged by the oracle below
            if not same(val, mv):
                mism(c, f"{kind}: value differs from the model", val, mv)
        # ---- property oracle on the real code
        if ref is None:
            rep.skipped["point outside the domain (reference not regular / not finite)"] = rep.skipped.get(
                "point outside the domain (reference not regular / not finite)", 0) + 1
            continue
        if not cond:
            rep.skipped["ill-conditioned point"] = rep.skipped.get("ill-conditioned point", 0) + 1
            continue
        if c["V"]:
            rep.nontrivial.add(hash((c["s"], c["vtxt"], tuple(c["x"]))))
        allobs = dict(obs)
        if "py_cv" in c:
            allobs["CompiledExpression.value"] = c["py_cv"]
        names = {"runc": "compile_expression(e,V)(x)", "evalpy": "e.evaluate(values)",
                 "dictfn": "compile_to_dict_function(e,V)(values)"}
        for kind, (val, err) in allobs.items():
            nm = names.get(kind, kind)
            base = {"expr": c["s"], "vars": [v.name for v in c["V"]], "point": c["pt"],
                    "params": {p.name: v for p, v in c["newp"].items()}, "threshold": c["thr_num"], "observable": nm}
            if val is None:
                f = dict(base, what=f"{nm} raised {err} at a regular point", want=ref)
                if err == "int_negative_power":
                    f["kind"] = "int_negative_power"
                rep.oracle_failures.append(f)
            elif not same(val, ref, rtol=1e-9):
                rep.oracle_failures.append(dict(base, what=f"{nm} differs from the mathematical value", got=val, want=ref))
        if len(rep.samples) < 6 and len(c["s"]) < 160 and c["V"]:
            rep.samples.append({"expr": c["s"], "V": [v.name for v in c["V"]], "x": c["x"],
                                "ir": model[(ci, "ir", 400)], "value": ref})
    rep.histogram["cases"] = len(cases)
    rep.histogram["numeric_points"] = sum(1 for c in cases if c.get("ref") is not None and c.get("cond"))
    magnitude_section(rep, rng, thorough, ids)
    return rep



# ----------------------------------------------------------------------------- magnitudes (exact rational reference)


class NotExact(Exception):
    pass


def exact_eval(e, pt):
    """(value, bound) as Fractions for the polynomial / rational fragment: `value` is the exact
    mathematical value at the point, `bound` the same formula with every number and every partial
    result replaced by its absolute value (Σ|terms|: the scale against which rounding is judged)"""
    from fractions import Fraction as F
    from optyx.core.expressions import BinaryOp, Constant, UnaryOp, Variable
    from optyx.core.parameters import Parameter
    from optyx.core import vectors as V
    from optyx.core import matrices as M

    def num(x):
        a = np.asarray(x)
        if a.ndim != 0:
            raise NotExact("array constant")
        v = a.item()
        return F(v) if isinstance(v, int) else F(float(v))

    def vec(v):
        if isinstance(v, V.VectorVariable):
            return [go(x) for x in v._variables]
        return [go(x) for x in v._expressions]

    def ipow(b, n):
        if n.denominator != 1 or abs(n) > 64:
            raise NotExact("non-integer power")
        n = int(n)
        if n >= 0:
            return (b[0] ** n, b[1] ** n)
        if b[0] == 0:
            raise NotExact("negative power of zero")
        return (1 / b[0] ** (-n), 1 / abs(b[0]) ** (-n))

    def go(n):
        if isinstance(n, Constant):
            v = num(n.value)
            return (v, abs(v))
        if isinstance(n, Variable):
            v = F(float(pt[n.name]))
            return (v, abs(v))
        if isinstance(n, Parameter):
            v = num(n.value)
            return (v, abs(v))
        if isinstance(n, BinaryOp):
            a, b = go(n.left), go(n.right)
            if n.op == "+": return (a[0] + b[0], a[1] + b[1])
            if n.op == "-": return (a[0] - b[0], a[1] + b[1])
            if n.op == "*": return (a[0] * b[0], a[1] * b[1])
            if n.op == "/":
                if b[0] == 0:
                    raise NotExact("division by zero")
                return (a[0] / b[0], a[1] / abs(b[0]))
            if n.op == "**": return ipow(a, b[0])
            raise NotExact(n.op)
        if isinstance(n, UnaryOp):
            a = go(n.operand)
            if n.op == "neg": return (-a[0], a[1])
            if n.op == "abs": return (abs(a[0]), a[1])
            raise NotExact(n.op)
        if isinstance(n, V.LinearCombination):
            xs = vec(n.vector)
            cs = [num(c) for c in np.asarray(n.coefficients).tolist()]
            return (sum((c * x[0] for c, x in zip(cs, xs)), F(0)), sum((abs(c) * x[1] for c, x in zip(cs, xs)), F(0)))
        if isinstance(n, V.VectorSum):
            xs = vec(n.vector)
            return (sum((x[0] for x in xs), F(0)), sum((x[1] for x in xs), F(0)))
        if isinstance(n, V.VectorExpressionSum):
            xs = [go(x) for x in n.expression._expressions]
            return (sum((x[0] for x in xs), F(0)), sum((x[1] for x in xs), F(0)))
        if isinstance(n, V.DotProduct):
            a, b = vec(n.left), vec(n.right)
            return (sum((x[0] * y[0] for x, y in zip(a, b)), F(0)), sum((x[1] * y[1] for x, y in zip(a, b)), F(0)))
        if isinstance(n, V.L1Norm):
            xs = vec(n.vector)
            return (sum((abs(x[0]) for x in xs), F(0)), sum((x[1] for x in xs), F(0)))
        if isinstance(n, M.QuadraticForm):
            xs = vec(n.vector)
            Q = np.asarray(n.matrix).tolist()
            val = sum((num(Q[i][j]) * xs[i][0] * xs[j][0] for i in range(len(xs)) for j in range(len(xs))), F(0))
            bnd = sum((abs(num(Q[i][j])) * xs[i][1] * xs[j][1] for i in range(len(xs)) for j in range(len(xs))), F(0))
            return (val, bnd)
        if isinstance(n, V.VectorPowerSum):
            k = F(float(n.power))
            xs = [ipow(go(x), k) for x in n.vector._variables]
            return (sum((x[0] for x in xs), F(0)), sum((x[1] for x in xs), F(0)))
        if isinstance(n, M.MatrixSum):
            if isinstance(n.matrix, M.MatrixVariable):
                xs = [go(x) for row in n.matrix._variables for x in row]
            else:
                xs = [go(x) for row in n.matrix._expressions for x in row]
            return (sum((x[0] for x in xs), F(0)), sum((x[1] for x in xs), F(0)))
        raise NotExact(type(n).__name__)

    return go(e)


STORED = [0.0, 1e-300, -1e-300, 1e-12, -1e-12, 1e-9, -1e-9, 4e-9, 7.5e-9, 1e-8 * (1 + 2 ** -20), -1e-8 * (1 - 2 ** -20),
          1e-8, 1e-7, -1e-7, 1.0, -1.0, 3.0, -2.0, 0.5, 1e8, -1e8, 1e16, -1e16]
COORDS = [1e-9, -1e-9, 1e-3, -1e-3, 0.5, 1.0, -2.0, 5.0, 1e3, -1e3, 2e8, -2e8, 5e8, 1e9, -1e9]


def magnitude_cases(rng, thorough):
    """(tag, expression, ordered variables, point, parameters-to-set)"""
    from optyx import Variable, VectorVariable, MatrixVariable, Parameter
    from optyx.core.expressions import BinaryOp, Constant
    from optyx.core import vectors as V
    from optyx.core import matrices as M

    out = []

    def coeffs(n, style):
        if style == "tiny":
            pool = [c for c in STORED if abs(c) <= 1e-7]
        elif style == "mixed":
            pool = STORED
        else:  # "one-tiny": ordinary numbers with one or two tiny non-zero entries
            cs = [rng.choice([1.0, -2.0, 3.0, 0.5, -1.0]) for _ in range(n)]
            for j in rng.sample(range(n), min(n, rng.choice([1, 2]))):
                cs[j] = rng.choice([c for c in STORED if 0 < abs(c) <= 1e-7])
            return cs
        return [rng.choice(pool) for _ in range(n)]

    def coords(cs, style):
        xs = []
        for c in cs:
            if style == "paired" and c != 0 and 1e-12 <= abs(c) <= 1e-7:
                # a coordinate that makes the tiny coefficient matter: |c·x| ~ 1
                xs.append(rng.choice([1.0, -1.0, 2.0, 0.5]) * (10.0 ** round(-math.log10(abs(c)))) * rng.choice([1.0, 0.5, 0.2]))
            else:
                xs.append(rng.choice(COORDS))
        return xs

    reps = 60 if thorough else 24
    for r in range(reps):
        n = rng.randint(2, 6)
        x = VectorVariable("x", n)
        y = VectorVariable("y", n)
        p = Parameter("p", 1.0)
        for cstyle in ("one-tiny", "tiny", "mixed"):
            for xstyle in ("paired", "free"):
                cs = coeffs(n, cstyle)
                xs = coords(cs, xstyle)
                ys = [rng.choice(COORDS[:10]) for _ in range(n)]
                pt = {**{x[i].name: xs[i] for i in range(n)}, **{y[i].name: ys[i] for i in range(n)}}
                pv = rng.choice([1e-9, 1e8, -3.0, 4e-9])
                Vx, Vxy = list(x), list(x) + list(y)
                A = np.array([coeffs(n, cstyle) for _ in range(n)])
                Q = np.array([coeffs(n, cstyle) for _ in range(n)])
                kind = r % 9 if not thorough else None
                fam = [
                    ("lc:vars", V.LinearCombination(np.array(cs), x), Vx),
                    ("lc:matmul", np.array(cs) @ x, Vx),
                    ("lc:exprs", V.LinearCombination(np.array(cs), x * 2.0 - y), Vxy),
                    ("matvec:sum", (A @ x).sum(), Vx),
                    ("matvec:dot", V.DotProduct(y, A @ x), Vxy),
                    ("qf", M.QuadraticForm(x, Q), Vx),
                    ("scalar", _scalar_sum(cs, list(x)), Vx),
                    ("const-leaf", (x[0] + Constant(cs[0])) * Constant(cs[1]) - Constant(cs[-1]) / (y[0] * y[0] + 1.0), Vxy),
                    ("power", BinaryOp(x[0] * cs[0] + x[1], Constant(rng.choice([0, 1, 2, 3, -1, -2])), "**") + Constant(cs[1]) * x[1] ** 2, Vx),
                    ("powersum", V.VectorPowerSum(x, rng.choice([1, 2, 3, -1, -2])) * cs[0] + cs[1], Vx),
                    ("dot:const-exprs", V.DotProduct(x, V.VectorExpression([Constant(c) * y[i] for i, c in enumerate(cs)])), Vxy),
                    ("param", p * V.LinearCombination(np.array(cs), x) + p * x[0], Vx),
                    ("es", (x * np.array(cs)).sum() if hasattr(x, "__mul__") else None, Vx),
                ]
                for j, (tag, e, VV) in enumerate(fam):
                    if e is None or (not thorough and (j + r) % 3 != 0):
                        continue
                    VV = list(VV)
                    if rng.random() < 0.5:
                        rng.shuffle(VV)
                    out.append((f"mag:{tag}:{cstyle}:{xstyle}", e, VV, {v.name: pt[v.name] for v in VV}, {p: pv}))
    return out


def _scalar_sum(cs, xs):
    from optyx.core.expressions import Constant

    acc = None
    for c, v in zip(cs, xs):
        t = Constant(c) * v
        acc = t if acc is None else acc + t
    return acc


def check_exact(e, V, pt, thr):
    """the four observables against the exact rational value; None = holds / not judged"""
    import optyx.core.compiler as C
    from fractions import Fraction as F

    try:
        val, bnd = exact_eval(e, pt)
    except (NotExact, ZeroDivisionError, OverflowError):
        return "skip"
    try:
        want, scale = float(val), float(bnd)
    except OverflowError:
        return "skip"
    if not (math.isfinite(want) and math.isfinite(scale)) or scale > 1e250:
        return "skip"
    tol = 1e-9 * scale + 1e-305
    old = C._RECURSION_THRESHOLD
    try:
        C._RECURSION_THRESHOLD = thr
        C._compile_cached.cache_clear()
        arr = np.array([pt[v.name] for v in V], dtype=float)
        obs = {
            "compile_expression(e,V)(x)": call(lambda: C.compile_expression(e, V)(arr)),
            "e.evaluate(values)": call(lambda: e.evaluate(dict(pt))),
            "compile_to_dict_function(e,V)(values)": call(lambda: C.compile_to_dict_function(e, V)(dict(pt))),
            "CompiledExpression.value": call(lambda: C.CompiledExpression(e, V).value(arr)),
        }
    finally:
        C._RECURSION_THRESHOLD = old
        C._compile_cached.cache_clear()
    for nm, (got, err) in obs.items():
        if got is None:
            if err in ("ZeroDivisionError", "OverflowError", "FloatingPointError"):
                continue
            return {"what": f"{nm} raised {err}", "want": want, "observable": nm}
        if not math.isfinite(got):
            continue  # overflow of an intermediate: outside the domain of the float program
        if abs(F(got) - val) > F(tol):
            return {"what": f"{nm} differs from the exact rational value (tolerance 1e-9·Σ|terms|)", "got": got,
                    "want": want, "sum_abs_terms": scale, "observable": nm}
    return None


def magnitude_section(rep, rng, thorough, ids):
    lines, metas = [], []
    n_ok = 0
    for i, (tag, e, V, pt, pset) in enumerate(magnitude_cases(rng, thorough)):
        for p, v in pset.items():
            p.set(v)
        thr = THRESHOLDS[i % 3]
        key = ":".join(tag.split(":")[:2])
        rep.histogram[key] = rep.histogram.get(key, 0) + 1
        r = check_exact(e, V, pt, thr)
        if r == "skip":
            rep.skipped["magnitude case outside the exact fragment / overflow"] = rep.skipped.get(
                "magnitude case outside the exact fragment / overflow", 0) + 1
            continue
        try:
            s = Ser(ids).expr(e)
        except Unsupported:
            s = None
        if r is not None:
            r.update({"expr": s, "vars": [v.name for v in V], "point": pt, "threshold": thr, "exact": True,
                      "params": {p.name: v for p, v in pset.items()}, "tag": tag})
            rep.oracle_failures.append(r)
        else:
            n_ok += 1
            rep.nontrivial.add(hash((tag, s, tuple(pt.values()))))
        if s is not None and i % 2 == 0:
            vtxt = "(" + " ".join(Ser(ids).var(v) for v in V) + ")"
            txt, _ = py_compile(e, V, thr)
            lines.append(f"compile {s} {vtxt} {thr}")
            metas.append((tag, s, txt))
    outs = run_lean_unit(lines)
    rep.evaluations += len(lines) + n_ok
    for (tag, s, impl), model in zip(metas, outs):
        if impl != model:
            rep.corr_mismatches.append({"what": "closure IR differs (magnitude case)", "tag": tag, "expr": s[:400],
                                        "impl": impl[:400], "model": model[:400]})
    rep.histogram["magnitude_points"] = n_ok


# ----------------------------------------------------------------------------- search / replay


def check_point(e, V, pt, newp, thr):
    """the property oracle on one input of the real code; None = holds / not judged, else failure dict"""
    import optyx.core.compiler as C

    try:
        ref = float(oracle.prim(oracle.ref_eval(e, dict(pt))))
    except (oracle.NotRegular, OverflowError, ZeroDivisionError, ValueError, KeyError):
        return None
    if not well_conditioned(e, pt):
        return None
    old = C._RECURSION_THRESHOLD
    try:
        C._RECURSION_THRESHOLD = thr
        C._compile_cached.cache_clear()
        arr = np.array([pt[v.name] for v in V], dtype=float)
        obs = {
            "compile_expression(e,V)(x)": call(lambda: C.compile_expression(e, V)(arr)),
            "e.evaluate(values)": call(lambda: e.evaluate(dict(pt))),
            "compile_to_dict_function(e,V)(values)": call(lambda: C.compile_to_dict_function(e, V)(dict(pt))),
        }
    finally:
        C._RECURSION_THRESHOLD = old
        C._compile_cached.cache_clear()
    for nm, (val, err) in obs.items():
        if val is None:
            f = {"what": f"{nm} raised {err} at a regular point", "want": ref, "observable": nm}
            if err == "int_negative_power":
                f["kind"] = "int_negative_power"
            return f
        if not same(val, ref):
            return {"what": f"{nm} differs from the mathematical value", "got": val, "want": ref, "observable": nm}
    return None


def search(ctx, rep):
    rng = core.Rng(ctx["seed"] + 104729)
    for tag, e, V, pt, pset in magnitude_cases(rng, True):
        for p, v in pset.items():
            p.set(v)
        r = check_exact(e, V, pt, 400)
        if r not in (None, "skip"):
            try:
                r.update({"expr": ser(e), "vars": [v.name for v in V], "point": pt, "threshold": 400, "exact": True,
                          "params": {p.name: v for p, v in pset.items()}})
            except Unsupported:
                continue
            return r
    for i in range(6000):
        U = gen.Universe(rng)
        e = gen.rand_expr(rng, U, rng.randint(1, 5), safe=True)
        if has_f20_shape(e):
            continue
        for vtag, V in v_variants(rng, e, U):
            pt = gen.rand_point(rng, V)
            thr = THRESHOLDS[i % 3]
            r = check_point(e, V, pt, {}, thr)
            if r is not None and r.get("kind") != "int_negative_power":
                try:
                    r.update({"expr": ser(e), "vars": [v.name for v in V], "point": pt, "threshold": thr,
                              "params": {p.name: float(p.value) for p in U.params}})
                except Unsupported:
                    continue
                return r
    return None


def replay(payload) -> bool:
    from optyx import Variable
    from optyx.core.parameters import Parameter

    f = payload["failure"]
    e = deser(f["expr"])
    byname = {v.name: v for v in gen.expr_vars(e)}
    V = [byname.get(n, Variable(n)) for n in f["vars"]]
    if "point" not in f:
        txt, _ = py_compile(e, V, int(f.get("threshold", 400)))
        print("compile_expression:", txt[:300])
        return not txt.startswith("raise:")
    # parameters: restore the values of the failing run on the rebuilt objects
    stack = [e]
    seen = set()
    while stack:
        n = stack.pop()
        if id(n) in seen:
            continue
        seen.add(id(n))
        if isinstance(n, Parameter) and n.name in f.get("params", {}):
            n.set(float(f["params"][n.name]))
        for attr in ("left", "right", "operand", "vector", "expression"):
            sub = getattr(n, attr, None)
            if sub is None:
                continue
            if hasattr(sub, "_expressions"):
                stack += list(sub._expressions)
            elif hasattr(sub, "evaluate"):
                stack.append(sub)
        m = getattr(n, "matrix", None)
        if m is not None and hasattr(m, "_expressions"):
            stack += [x for row in m._expressions for x in row]
    pt = {k: float(v) for k, v in f["point"].items()}
    if f.get("exact"):
        r = check_exact(e, V, pt, int(f.get("threshold", 400)))
        print("check_exact:", r)
        return r in (None, "skip")
    r = check_point(e, V, pt, {}, int(f.get("threshold", 400)))
    print("check_point:", r)
    return r is None
