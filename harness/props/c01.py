"""C01 — compiled callables compute the same function as the expression tree.

Tie (model ↔ code, this run):
  * structural, exact: the closure that `compile_expression` really returns is *decompiled*
    (lambda signature + captured defaults + bytecode operator) into the closure IR of
    lean/Optyx/Py/Compile.lean and compared, as text, with `Py.compileExpression` run by the
    Lean driver — for V ∈ {own order, permutation, strict superset, duplicate name, missing
    variable, span orders} and for the switch threshold forced to {0, 3, 400}; also *which builder*
    ran (recursive / explicit-stack / Parameter bypass) and the error class + name for rejected
    input.  Span orders (for every index-array closure `x[idx]`): all 24 orders of a 4-element
    operand, endpoints in place with the interior permuted, a foreign variable inside the operand's
    span with the displaced member outside, reversed — through both builders;
  * numeric (rtol 1e-9 + conditioning guard): compiled value, `evaluate`, the dict wrapper and
    `CompiledExpression.value` vs the model over Lean `Float`; parameters are `.set()` between
    compilation and call.
Magnitude dimension: every node that stores numbers (LinearCombination over variables / expressions,
A @ x rows, QuadraticForm entries, Constant leaves, integer powers, VectorPowerSum, Parameters) with
stored numbers in {0, ±1e-300, ±1e-12, ±1e-9, ±1e-8(1±ε), ±1e-7, ±1, ±1e8, ±1e16} and coordinates in
{±1e-9 … ±1e9} (also paired so that tiny·huge terms matter); each observable is compared with the
*exact* rational value (Fractions) with a tolerance relative to Σ|terms| — no absolute floor.

Oracle (independent of the Lean model): harness/oracle.py `ref_eval` (plain `math`) vs the four
observables of the real code at regular points.

Recipe oracle ("the mathematical value of the formula the user WROTE"): everything above reads the tree that
was BUILT, so a rewrite done by an operator overload / function helper at construction time is invisible to it.
`recipe_section` keeps its own description of the formula it asks the API to build (nested tuples), evaluates
it with NumPy float64 operations (hand-written dispatch, running first-order rounding bound) and compares the
four observables with that value: nested constant powers (even / odd / negative / fractional exponents,
negative bases), neutral and absorbing elements in both operand positions, the same operand twice, signs,
constant folding through nested operators (numbers, Constant objects, Parameters whose value changes after
construction), function-after-function pairs (inverse pairs, abs / sqrt / squares), log / exp / sqrt / abs laws,
trigonometric identities — each bare and inside a context (both operand positions of every operator, under a
function), built through the scalar operators, through the node constructors, and through the vector API
(VectorVariable, views, VectorExpression; element and .sum()), at points of every sign pattern, with a zero,
a large and a tiny coordinate; a point is skipped only when the recipe value itself is nan / inf or passes
through a non-finite / singular intermediate.

Parameters INSIDE reductions × set histories (checklist 29, `parhist_section`): Parameters (scalar Parameters, VectorParameter
elements, variable-free compounds of them, whole-vector operators on them) as ELEMENTS of VectorExpression / MatrixExpression
operands under every reduction node (LinearCombination, VectorExpressionSum, vector_sum chain, DotProduct incl. v·v and p·x,
L2Norm, L1Norm, QuadraticForm, MatrixSum, (A @ p).sum(); every spelling; sizes 1 … 33), the reduction bare and inside 31
variable-free scalar wrappers, combined with variables in 19 ways (or left variable-free as a whole), under six families of
compile / Parameter.set / VectorParameter.set / call histories on one expression object (LRU cache never cleared inside a
history: cached re-compilation, compilation for another variable list after a set, set-before-compile-and-back, partial
sets, sets to 0 / 1 / sign flips, int / float / np.float64 values, read-only queries in between), both builders; all four
entry points + a callable compiled at call time are judged against the NumPy value of the recipe at the CURRENT parameter
values (the harness's own bookkeeping).  The same shapes also run as ordinary expressions through the IR tie (`audit_cover`
"parred:*").  A closure the decompiler cannot express (e.g. a captured non-finite number) is a recorded mismatch
("unknown-closure"), never an exception of the harness.
"""
from __future__ import annotations

import dis
import math
import warnings

import numpy as np

import core
import gen
import oracle
from ser import Ids, Ser, Unsupported, cst, rat, ser, deser, env_text, store_text, bits_to_float

LEAN_MODULE = "Optyx.Props.C01"
EXTRA_MODULES = ["Optyx.Props.PinsC01", "Optyx.Props.C01Source", "Optyx.Props.OperatorsTie", "Optyx.Props.SpineTie", "Optyx.Props.CompileEntryTie"]   # transcription anchors (harness/source_pins.py)
THEOREMS = [
    "Optyx.Props.C01.evaluate_eq_denote",
    "Optyx.Props.C01.compile_total",
    "Optyx.Props.C01.compile_sound",
    "Optyx.Props.C01.compile_eq_evaluate",
    "Optyx.Props.C01.compileIter_eq",
    "Optyx.Props.C01.compile_threshold_irrelevant",
    "Optyx.Props.C01.compileExpression_sound",
    "Optyx.Props.C01.envOf_get",
    "Optyx.Props.C01.dictFn_sound",
    "Optyx.Props.C01.compiledValue_sound",
    "Optyx.Props.C01.compile_sound_real",
    "Optyx.Props.BuildTie.compile_step",
    "Optyx.Props.BuildTie.compileVec_step",
    "Optyx.Props.BuildTie.cstep_eq",
    "Optyx.Props.BuildTie.elemsIter_eq",
    "Optyx.Props.BuildTie.buildIterFrame_text",
    "Optyx.Props.BuildTie.step_unique",
    "Optyx.Props.BuildTie.vec_unique",
    "Optyx.Props.BuildTie.source_equations_solvable",
    "Optyx.Props.C01.compile_sound_of_source_equations",
    "Optyx.Props.OperatorsTie.operators_spec",
    "Optyx.Props.OperatorsTie.comparisons_spec",
    "Optyx.Props.OperatorsTie.ensureExpr_text",
    "Optyx.Props.EvalTie.evaluate_step",
    "Optyx.Props.EvalTie.step_unique",
    "Optyx.Props.EvalTie.source_equations_solvable",
    "Optyx.Props.C01.evaluate_eq_denote_of_source_equations",
    "Optyx.Props.C01.compile_eq_evaluate_of_source_equations",
    "Optyx.Props.SpineTie.depthC_step",
    "Optyx.Props.SpineTie.depthE_step",
    "Optyx.Props.SpineTie.spineBU_step",
    "Optyx.Props.SpineTie.depthG_eq",
    "Optyx.Props.SpineTie.compileSwitch_eq",
    "Optyx.Props.SpineTie.getAllVariables_eq",
    "Optyx.Props.CompileEntryTie.compileExpression_eq",
    "Optyx.Props.CompileEntryTie.dictFn_eq",
    "Optyx.Props.CompileEntryTie.param_run",
    "Optyx.Props.CompileEntryTie.compiledExpression_value",
    "Optyx.Props.PinsC01.anchors",
]
ASSUMPTIONS = [
    "scalar constants only; ElementwisePower / ElementwiseUnary (array-valued nodes) are outside the model",
    "float points and float constants: NumPy's integer-power rule for all-int operands (F20) is outside the model",
    "np.sum / np.dot / x@Q@x / np.linalg.norm are 'the usual sums'; Python's builtin sum is a left fold from 0 "
    "(theorems relating the two assume the additive-monoid laws, which hold in ℝ and fail for IEEE doubles: "
    "the float gap is the tested tolerance)",
    "vector operands satisfy the size checks of the constructors (Expr well-formedness `wfE`)",
    "the lru_cache in front of the builders is transparent (property C14)",
]

THRESHOLDS = [0, 3, 400]


def run_lean_unit(lines):
    return core.run_lean(lines)


# ----------------------------------------------------------------------------- decompiler


class UnknownClosure(Exception):
    pass


_SIG_CACHE: dict = {}


def _sig(fn):
    """signature of a lambda's code object (one code object per lambda site: cached)"""
    code = fn.__code__
    got = _SIG_CACHE.get(code)
    if got is None:
        args = code.co_varnames[:code.co_argcount]
        names = frozenset(code.co_names)
        ins = list(dis.get_instructions(code))
        ops = tuple(i.argrepr for i in ins if i.opname == "BINARY_OP")
        loads = tuple(i.argval for i in ins if i.opname.startswith("LOAD_FAST"))
        got = _SIG_CACHE[code] = (args, names, ops, loads)
    return got


def _kind(v) -> str:
    """kind of a value captured by a closure's default argument (independent of the argument's NAME)"""
    import types

    from optyx.core.parameters import Parameter

    if isinstance(v, Parameter):
        return "par"
    if isinstance(v, np.ufunc) or (callable(v) and not isinstance(v, types.FunctionType)):
        return "ufunc"
    if isinstance(v, types.FunctionType):
        return "ufunc" if (getattr(v, "__module__", "") or "").startswith("numpy") else "fn"
    if isinstance(v, list):
        return "fns"
    if isinstance(v, np.ndarray) and v.ndim == 1:
        return "arr1"
    if isinstance(v, np.ndarray) and v.ndim == 2:
        return "arr2"
    if isinstance(v, (int, np.integer)) and not isinstance(v, (bool, np.bool_)):
        return "int"
    return "num"


# kinds of the captured values (+ a discriminating global name) -> the argument names the dispatch below is written for
_ROLES = {
    ("par",): ("p",), ("fn", "fn"): ("lf", "rf"), ("fn", "ufunc"): ("f", "np_f"), ("arr1", "arr1"): ("c", "idx"),
    ("arr1", "fns"): ("c", "fns"), ("arr1",): ("idx",), ("fns",): ("fns",), ("fn",): ("vf",), ("fn", "arr2"): ("vf", "Q"),
    ("arr1", "num"): ("idx", "k"), ("arr1", "int"): ("idx", "k"), ("arr1", "ufunc"): ("idx", "f"),
}


def _canon(fn):
    """`_sig` with the lambda's own argument names replaced by canonical role names, chosen from the KINDS of the captured
    values: renaming a lambda's defaults in the source is a harmless rewrite and must not change the decompiled IR"""
    args, names, ops, loads = _sig(fn)
    d = fn.__defaults__ or ()
    if len(args) != len(d) + 1:
        return args, names, ops, loads
    kinds = tuple(_kind(v) for v in d)
    if kinds in (("int",), ("num",)):
        # `lambda x, i=idx: x[i]` subscripts, `lambda x, v=value: v` does not
        sub = any(i.opname == "BINARY_SUBSCR" or (i.opname == "BINARY_OP" and "[" in (i.argrepr or ""))
                  for i in dis.get_instructions(fn.__code__))
        roles = ("i",) if sub else ("v",)
    else:
        roles = _ROLES.get(kinds)
    if roles is None:
        return args, names, ops, loads
    ren = dict(zip(args[1:], roles))
    ren[args[0]] = "x"
    return ("x",) + roles, names, ops, tuple(ren.get(n, n) for n in loads)


def _un_name(ufunc):
    from optyx.core.expressions import UnaryOp

    for k, f in UnaryOp._OPS.items():
        if f is ufunc:
            return k
    raise UnknownClosure(f"ufunc {ufunc}")


def _vun_name(func):
    from optyx.core.vectors import VectorUnarySum

    for k, f in VectorUnarySum._NUMPY_FUNCS.items():
        if f is func:
            return k
    raise UnknownClosure(f"vector func {func}")


def _ints(arr):
    return "(" + " ".join(str(int(i)) for i in np.asarray(arr).tolist()) + ")"


def _rats(arr):
    return "(" + " ".join(rat(v) for v in np.asarray(arr).tolist()) + ")"


def _k(value):
    return "(k " + cst(value)[3:-1] + ")"


def clo_ir(fn) -> str:
    """decompile a closure built by _build_evaluator / _build_evaluator_iterative (explicit stack:
    chains of 900 binary closures must not hit the recursion limit of the decompiler itself)"""
    out = []
    stack = [fn]
    while stack:
        it = stack.pop()
        if isinstance(it, str):
            out.append(it)
            continue
        args, names, ops, loads = _canon(it)
        d = it.__defaults__ or ()
        if args == ("x",):
            if len(it.__code__.co_freevars) == 1:
                out.append(_k(it.__closure__[0].cell_contents))
            else:
                raise UnknownClosure(f"{args} free={it.__code__.co_freevars}")
        elif args == ("x", "v"):
            out.append(_k(d[0]))
        elif args == ("x", "p") and ("value" in names or "_param_value" in names):
            out.append(f'(par "{d[0].name}")')
        elif args == ("x", "i"):
            out.append(f"(ix {int(d[0])})")
        elif args == ("x", "lf", "rf") and "dot" in names:
            out.append("(dotVV " + vclo_ir(d[0]) + " " + vclo_ir(d[1]) + ")")
        elif args == ("x", "lf", "rf") and len(ops) == 1:
            lf, rf = d
            order = [n for n in loads if n in ("lf", "rf")]
            if order != ["lf", "rf"]:
                lf, rf = rf, lf  # operands applied in the other order: decompile what it does
            out.append(f"(b {ops[0]} ")
            stack.append(")")
            stack.append(rf)
            stack.append(" ")
            stack.append(lf)
        elif args == ("x", "f", "np_f"):
            out.append(f"(u {_un_name(d[1])} ")
            stack.append(")")
            stack.append(d[0])
        elif args == ("x", "c", "idx") and "dot" in names:
            out.append(f"(dotIdx {_rats(d[0])} {_ints(d[1])})")
        elif args == ("x", "c", "fns") and "dot" in names:
            out.append(f"(dotFns {_rats(d[0])} (" + " ".join(clo_ir(f) for f in d[1]) + "))")
        elif args == ("x", "idx") and "sum" in names:
            out.append(f"(sumIdx {_ints(d[0])})")
        elif args == ("x", "fns") and "sqrt" in names:
            out.append("(sqrtSumSq (" + " ".join(clo_ir(f) for f in d[0]) + "))")
        elif args == ("x", "fns") and "sum" in names and ("float" in names or "float64" in names):
            out.append("(sumFns (" + " ".join(clo_ir(f) for f in d[0]) + "))")
        elif args == ("x", "vf") and "norm" in names:
            out.append("(norm " + vclo_ir(d[0]) + ")")
        elif args == ("x", "vf") and "sum" in names and "abs" in names:
            out.append("(sumAbs " + vclo_ir(d[0]) + ")")
        elif args == ("x", "vf", "Q"):
            rows = " ".join(_rats(r) for r in np.asarray(d[1]))
            out.append("(quad " + vclo_ir(d[0]) + " (" + rows + "))")
        elif args == ("x", "idx", "k") and "sum" in names:
            out.append(f"(powSumIdx {_ints(d[0])} {rat(d[1])})")
        elif args == ("x", "idx", "f") and "sum" in names:
            out.append(f"(unSumIdx {_ints(d[0])} {_vun_name(d[1])})")
        else:
            raise UnknownClosure(f"args={args} names={sorted(names)} ops={ops}")
    return "".join(out)


def vclo_ir(fn) -> str:
    args, names, ops, loads = _canon(fn)
    d = fn.__defaults__ or ()
    if args == ("x", "idx") and "sum" not in names:
        return f"(gather {_ints(d[0])})"
    if args == ("x", "fns") and "array" in names:
        return "(fns (" + " ".join(clo_ir(f) for f in d[0]) + "))"
    raise UnknownClosure(f"vector closure args={args} names={sorted(names)}")


# ----------------------------------------------------------------------------- the real code


class Spy:
    """which builder compile_expression used (wrappers installed from outside, no repo change)"""

    def __enter__(self):
        import optyx.core.compiler as C

        self.C = C
        self.orig_iter = C._build_evaluator_iterative
        self.orig_cached = C._compile_cached
        self.calls = []

        def it(expr, vi):
            self.calls.append("iter")
            return self.orig_iter(expr, vi)

        def cached(*a):
            self.calls.append("cached")
            return self.orig_cached(*a)

        C._build_evaluator_iterative = it
        C._compile_cached = cached
        return self

    def builder(self):
        if "cached" not in self.calls:
            return "param"
        return "iter" if "iter" in self.calls else "rec"

    def __exit__(self, *a):
        self.C._build_evaluator_iterative = self.orig_iter
        self.C._compile_cached = self.orig_cached


def py_compile(e, V, thr):
    """compile_expression with the threshold forced; returns (text, fn|None)"""
    import optyx.core.compiler as C

    old = C._RECURSION_THRESHOLD
    C._compile_cached.cache_clear()
    try:
        C._RECURSION_THRESHOLD = thr
        with Spy() as spy:
            try:
                fn = C.compile_expression(e, V)
            except KeyError as ex:
                return f"raise:KeyError:{ex.args[0]}", None
            except RecursionError:
                return "raise:RecursionError", None
            except Exception as ex:  # noqa: BLE001
                return f"raise:{type(ex).__name__}", None
            b = spy.builder()
        try:
            return b + " " + clo_ir(fn), fn
        except UnknownClosure as ex:
            return f"{b} unknown-closure:{ex}", fn
        except RecursionError:
            return f"{b} unknown-closure:RecursionError in the decompiler", fn
        except Exception as ex:  # noqa: BLE001
            # a closure the decompiler cannot put into IR text (a captured value that is not a finite real number, not an
            # index array, an object of an unexpected type, …) is an OUTPUT of the code under test that the model does not
            # produce: a recorded correspondence mismatch, never an uncaught exception of the harness
            return f"{b} unknown-closure:{type(ex).__name__}:{ex}", fn
    finally:
        C._RECURSION_THRESHOLD = old
        C._compile_cached.cache_clear()


def fl(v):
    a = np.asarray(v)
    if a.ndim != 0:
        raise ValueError("array-valued result")
    return float(a)


def call(fn):
    """(value | None, error-class | None)"""
    with warnings.catch_warnings(), np.errstate(all="ignore"):
        warnings.simplefilter("ignore")
        try:
            return fl(fn()), None
        except Exception as ex:  # noqa: BLE001
            kind = type(ex).__name__
            if isinstance(ex, ValueError) and "Integers to negative integer powers" in str(ex):
                kind = "int_negative_power"
            return None, kind


def same(a: float, b: float, rtol=1e-9) -> bool:
    if math.isnan(a) or math.isnan(b):
        return math.isnan(a) and math.isnan(b)
    if math.isinf(a) or math.isinf(b):
        return a == b
    return abs(a - b) <= rtol * (1.0 + max(abs(a), abs(b)))


def well_conditioned(e, pt) -> bool:
    """the reference moves < 1e-10 (relative) under a 1e-13 relative perturbation of the inputs"""
    try:
        v0 = oracle.prim(oracle.ref_eval(e, pt))
        for s in (1.0, -1.0):
            pp = {k: v * (1 + s * 1e-13) + s * 1e-15 for k, v in pt.items()}
            v1 = oracle.prim(oracle.ref_eval(e, pp))
            if abs(v1 - v0) > 1e-10 * (1.0 + abs(v0)):
                return False
        return True
    except Exception:  # noqa: BLE001
        return False


def has_f20_shape(e) -> bool:
    """an int-typed constant as a negative exponent, or an all-int constant sub-tree under '**' / '/'
    (NumPy integer rules, finding F20 — outside the model)"""
    from optyx.core.expressions import BinaryOp, Constant, UnaryOp

    stack = [e]
    while stack:
        n = stack.pop()
        if isinstance(n, BinaryOp):
            if n.op == "**" and isinstance(n.right, Constant) and isinstance(n.right.value, (int, np.integer)) \
                    and n.right.value < 0:
                return True
            stack += [n.left, n.right]
        elif isinstance(n, UnaryOp):
            stack.append(n.operand)
        else:
            for attr in ("vector", "left", "right", "expression"):
                sub = getattr(n, attr, None)
                if sub is not None and hasattr(sub, "_expressions"):
                    stack += list(sub._expressions)
            m = getattr(n, "matrix", None)
            if m is not None and hasattr(m, "_expressions"):
                stack += [x for row in m._expressions for x in row]
    return False


# ----------------------------------------------------------------------------- cases


def cell_cover(rng):
    """one representative per closure shape / decision cell of the two builders"""
    from optyx.core.expressions import BinaryOp, Constant, UnaryOp
    from optyx.core import vectors as V
    from optyx.core import matrices as M

    U = gen.Universe(rng)
    a, b = U.scalars[0], U.scalars[1]
    p = U.params[0]
    n = U.n
    out = []
    atoms = [("K", Constant(2.5)), ("X", a), ("P", p), ("X1", U.x[1])]
    for op in gen.BIN:
        for la, l in atoms:
            for ra, r in atoms:
                out.append((f"bin{op}:{la}:{ra}", BinaryOp(l, r, op), U))
    # operand order of the non-commutative operators through nested shapes
    out.append(("order:-", (a - b) - (U.x[0] - p), U))
    out.append(("order:/", (a / (b + 3.0)) / (U.x[0] * U.x[0] + 1.0), U))
    out.append(("order:**", (a * a + 1.0) ** (b / 4.0), U))
    for op in gen.UNARY:
        out.append((f"un:{op}", gen.safe_unary(rng, op, a), U))
        out.append((f"un:{op}:param", gen.safe_unary(rng, op, p * b), U))
    cs = np.array([2.0, -1.0, 0.5][:n] + [1.0] * max(0, n - 3))
    Q = np.array([[(i + 1.0) * (j - 1.0) + (0.5 if i == j else 0.0) for j in range(n)] for i in range(n)])
    views = U.vec_views()
    vexprs = [U.x + 1.0, U.x - U.y, 2.0 * U.w[0:n], V.VectorExpression([a, Constant(2.0), p][:n] + [b * a] * max(0, n - 3)),
              V.VectorExpression([gen.unary("sin", v) for v in U.x]), M.MatrixVectorProduct(Q, U.x)]
    for v in views + vexprs:
        out.append(("vec:lc", V.LinearCombination(cs, v), U))
        out.append(("vec:l2", V.L2Norm(v), U))
        out.append(("vec:l1", V.L1Norm(v), U))
        out.append(("vec:qf", M.QuadraticForm(v, Q), U))
        out.append(("vec:dotself", V.DotProduct(v, v), U))
        for v2 in views[:3] + vexprs[:2]:
            out.append(("vec:dot", V.DotProduct(v, v2), U))
    for v in views:
        out.append(("vec:vs", V.VectorSum(v), U))
        for k in [1, 2, 3, 0.5, -1.0, 2.5, 0]:
            out.append((f"vec:ps{k}", V.VectorPowerSum(v, k), U))
        for op in gen.VOPS:
            out.append((f"vec:us:{op}", V.VectorUnarySum(v, op), U))
    for v in vexprs:
        out.append(("vec:es", v.sum(), U))
    for m in (U.M, U.S, U.M.T, U.S[0:2, 0:2]):
        out.append(("mat:msv", m.sum(), U))
        out.append(("mat:fro", M.FrobeniusNorm(m), U))
        out.append(("mat:mse", (m * m).sum(), U))
        out.append(("mat:mse2", (m - 1.5).sum(), U))
    # index-array closures over 4-element operands: tagged "span" → all 24 orders + every span order
    U4 = gen.Universe(rng, nvec=4, tag="q")
    cs4 = np.array([2.0, -1.0, 0.5, 3.0])
    Q4 = np.array([[(i + 1.0) * (j - 1.5) + (0.5 if i == j else 0.0) for j in range(4)] for i in range(4)])
    for vn, v in (("x", U4.x), ("w0", U4.w[0:4]), ("w2", U4.w[2:6]), ("w1", U4.w[1:5]),
                  ("xrev", U4.x[::-1])):
        out.append((f"span:lc:{vn}", V.LinearCombination(cs4, v), U4))
        out.append((f"span:vs:{vn}", V.VectorSum(v), U4))
        out.append((f"span:ps:{vn}", V.VectorPowerSum(v, 3), U4))
        out.append((f"span:us:{vn}", V.VectorUnarySum(v, "sin"), U4))
        out.append((f"span:dot:{vn}", V.DotProduct(v, U4.y), U4))
        out.append((f"span:dotself:{vn}", V.DotProduct(v, v), U4))
        out.append((f"span:l1:{vn}", V.L1Norm(v), U4))
        out.append((f"span:l2:{vn}", V.L2Norm(v), U4))
        out.append((f"span:qf:{vn}", M.QuadraticForm(v, Q4), U4))
    # every vector node inside a scalar chain (the explicit-stack builder's per-kind branches)
    extra = []
    for tag, node, UU in out:
        if tag.startswith(("vec:", "mat:")) and rng.random() < 0.5:
            extra.append(("in-chain:" + tag, gen.unary("tanh", (node - a) * 0.5) + p, UU))
    out += extra
    # bare leaves
    out += [("leaf:const", Constant(3.0), U), ("leaf:var", a, U), ("leaf:param", p, U),
            ("leaf:ln2", Constant(np.log(2.0)), U)]
    return out



class Pool:
    """a Universe-like carrier for hand-made models (what v_variants / run need)"""

    def __init__(self, vs, params=()):
        seen, self._vs = set(), []
        for v in vs:
            if v.name not in seen:
                seen.add(v.name)
                self._vs.append(v)
        self.params = list(params)

    def all_vars(self):
        return list(self._vs)


def audit_cover(rng, thorough):
    """input dimensions of the checklist that are ordinary expressions (they run through the whole
    pipeline: IR tie, V variants, thresholds, Lean Float tie, reference oracle):
    reflected operator forms and ±const / k· / /k / neg wrappers around every node kind (3), constant-valued
    compound sub-expressions wherever a number can stand (4), every vector-like / matrix-like operand the API
    produces (5), names / clones / same-name parameters (6, 7), shared sub-expression objects (9)"""
    import optyx
    from optyx import Variable, VectorVariable, MatrixVariable, Parameter
    from optyx.core.expressions import BinaryOp, Constant, UnaryOp
    from optyx.core import vectors as V
    from optyx.core import matrices as M

    out = []
    U = gen.Universe(rng)
    a, b, p = U.scalars[0], U.scalars[1], U.params[0]
    n = U.n
    cs = np.array([2.0, -1.0, 0.5][:n] + [1.0] * max(0, n - 3))
    Q = np.array([[(i + 1.0) * (j - 1.0) + (0.5 if i == j else 0.0) for j in range(n)] for i in range(n)])
    nodes = [("scalar", a * b + 1.0), ("dot", U.x.dot(U.y)), ("dotself", U.x.dot(U.x)), ("vs", U.x.sum()),
             ("ps", (U.x ** 2).sum()), ("us", optyx.sin(U.x).sum()), ("lc", cs @ U.x), ("qf", M.QuadraticForm(U.x, Q)),
             ("l2", V.L2Norm(U.x)), ("l1", V.L1Norm(U.y)), ("msv", U.M.sum()), ("mss", U.S.sum()),
             ("fro", M.FrobeniusNorm(U.S)), ("es", (U.x - U.y).sum()), ("mse", (U.M * U.S).sum()), ("param", p * a)]
    for nm, f in nodes:
        f2 = nodes[(len(nm) * 7) % len(nodes)][1]
        forms = {
            "c-f": 2.5 - f, "c/f": 2.5 / (f * f + 1.0), "c**f": 2.5 ** (optyx.tanh(f) * 0.5), "c+f": 2.5 + f, "c*f": 2.5 * f,
            "-f": -f, "f-c": f - 2.5, "f/c": f / 2.5, "f**2": f ** 2, "(K-f)-K2": (7.5 - f) - 1.5, "k*(K-f)": 2.0 * (7.5 - f),
            "K-k*f": 7.5 - 2.0 * f, "-(K-f)": -(7.5 - f), "f-g": f - f2, "K-(f+g)": 7.5 - (f + f2), "(f-K)*k": (f - 7.5) * -0.5,
            "f*0": f * 0.0 + b, "0*f": 0.0 * f - b, "f**0": f ** 0 + b, "f**1": f ** 1, "f/1": f / 1.0, "1*f": 1.0 * f,
            "p-f": p - f, "f/p": f / (p * p + 1.0),
        }
        for wn, e in forms.items():
            out.append((f"form:{wn}:{nm}", e, U))
    # (4) constant-valued compound sub-expressions as coefficient / term / exponent / denominator
    two = Constant(1.0) + Constant(1.0)
    csub = {
        "coef:fn": optyx.sin(Constant(2.0)) * a + b, "coef:arith": (Constant(3.0) - Constant(1.0)) * a,
        "term:fn": a + optyx.cos(Constant(0.5)) * p, "exp:arith": (a * a + 1.0) ** two, "exp:param": (a * a + 1.0) ** p,
        "exp:fn": (a * a + 1.0) ** optyx.tanh(Constant(0.5)), "den:arith": a / (Constant(2.0) * Constant(4.0)),
        "den:param": a / (p * p + 2.0), "den:fn": a / optyx.exp(Constant(0.5)), "base:const": two ** (a * 0.25),
        "zero:mul": 0.0 * a + b, "zero:pow": a ** 0 + b, "one:pow": a ** 1 - b, "const:only": two * optyx.sqrt(Constant(2.25)) - two,
        "vec:const-elems": V.DotProduct(U.x, V.VectorExpression([two, optyx.sin(Constant(1.0)), Constant(0.5) * two][:n] + [two] * max(0, n - 3))),
        "lc:const-exprs": V.LinearCombination(cs, V.VectorExpression([two * U.x[i] + optyx.cos(Constant(0.0)) for i in range(n)])),
        "es:consts": V.VectorExpression([two, Constant(0.5), p][:n] + [two] * max(0, n - 3)).sum() * a,
    }
    for nm, e in csub.items():
        out.append((f"constsub:{nm}", e, U))
    # (5) every vector-like / matrix-like operand
    x = VectorVariable("x", 6)
    z = VectorVariable("z", 4)
    X = MatrixVariable("X", 3, 4)
    S = MatrixVariable("S", 3, 3, symmetric=True)
    R = MatrixVariable("R", 1, 3)
    Cc = MatrixVariable("C", 3, 1)
    u1 = VectorVariable("u", 1)
    P6 = Pool(list(x) + list(z) + X.get_variables() + S.get_variables() + R.get_variables() + Cc.get_variables() + list(u1),
              [Parameter("p", 1.5), Parameter("q", -0.5)])
    A3 = np.array([[1.0, -2.0, 0.5], [0.25, 3.0, -1.0], [2.0, 0.0, 1.5]])
    vecs = {
        "slice-of-slice": x[1:5][::2], "neg-stride": x[::-2], "len1-view": x[2:3], "len1": u1, "row": X[0, :], "col": X[:, 1],
        "diag": S.diagonal(), "sym-row": S[0, :], "sym-col": S[:, 2], "strided": x[0:6:2], "rev": x[::-1][0:3],
        "mat@vec": X @ z, "A@nonlin": M.MatrixVectorProduct(A3, V.VectorExpression([optyx.sin(x[i]) * x[i + 1] for i in range(3)])),
        "elemwise": x[0:3] * x[3:6], "row-of-T": X.T[1, :], "col-of-block": X[0:2, 1:3][:, 0], "R-row": R[0, :], "C-col": Cc[:, 0],
        "sym-block-row": S[0:2, 1:3][0, :],
    }
    for vn, v in vecs.items():
        m = v.size
        csm = np.array([[2.0, -1.0, 0.5, 3.0, -0.25, 1.5][i % 6] for i in range(m)])
        Qm = np.array([[(i + 1.0) * (j - 1.0) + (0.5 if i == j else 0.0) for j in range(m)] for i in range(m)])
        is_vv = isinstance(v, V.VectorVariable)
        other = x[0:m] if m <= 6 else None
        out.append((f"view:lc:{vn}", V.LinearCombination(csm, v), P6))
        out.append((f"view:l2:{vn}", V.L2Norm(v), P6))
        out.append((f"view:l1:{vn}", V.L1Norm(v), P6))
        out.append((f"view:qf:{vn}", M.QuadraticForm(v, Qm), P6))
        out.append((f"view:dotself:{vn}", V.DotProduct(v, v), P6))
        if other is not None:
            out.append((f"view:dot-l:{vn}", V.DotProduct(v, other), P6))
            out.append((f"view:dot-r:{vn}", V.DotProduct(other, v), P6))
        out.append((f"view:sum:{vn}", v.sum(), P6))
        if is_vv:
            out.append((f"view:ps:{vn}", (v ** 3).sum(), P6))
            out.append((f"view:us:{vn}", optyx.cos(v).sum(), P6))
            out.append((f"view:A@v", (Qm @ v).sum(), P6))
    mats = {"T": X.T, "block": X[0:2, 1:3], "block.T": X[0:2, 1:3].T, "strided": X[::2, ::3], "sym": S, "sym.T": S.T,
            "sym-diag-block": S[0:2, 0:2], "sym-offdiag-block": S[0:2, 1:3], "sym-rect": S[0:3, 1:3], "1xn": R, "nx1": Cc,
            "T-of-1xn": R.T}
    for mn, m in mats.items():
        out.append((f"mat:sum:{mn}", m.sum(), P6))
        out.append((f"mat:fro:{mn}", M.FrobeniusNorm(m), P6))
        out.append((f"mat:expr-sum:{mn}", (m * m - 0.5).sum(), P6))
        out.append((f"mat:2m-sum:{mn}", (2.0 * m).sum() - m.sum(), P6))
    out.append(("mat:trace", S.trace() + optyx.trace(X[0:3, 0:3]), P6))
    out.append(("mat:sym-quad", M.QuadraticForm(S[0, :], A3) - M.FrobeniusNorm(S) * M.FrobeniusNorm(S), P6))
    # (6, 7) names and identity: long vectors (x[10] vs x[1]), digit runs, leading zeros, prefixes, a scalar clone of an
    # element, two vectors / parameters with one name
    x12 = VectorVariable("x", 12)
    sc = [Variable(nm) for nm in ("x1", "x01", "x10", "x", "x[1", "x1]", "a,b", "x[1]")]  # the last one clones x12[1] by name
    PN = Pool(list(x12) + sc[:-1], [Parameter("p", 2.0), Parameter("p", 7.0)])
    p1, p2 = PN.params
    out.append(("names:x12:vs", x12.sum() * 0.125 + x12[10] - x12[1], PN))
    out.append(("names:x12:lc", V.LinearCombination(np.arange(12) * 0.25 - 1.0, x12), PN))
    out.append(("names:x12:dot", x12[0:6].dot(x12[6:12]), PN))
    out.append(("names:scalars", sc[0] - 2.0 * sc[1] + 3.0 * sc[2] - sc[3] * sc[4] + sc[5] / 4.0 - sc[6], PN))
    out.append(("names:clone-of-element", x12.sum() + 2.0 * sc[7], PN))
    out.append(("names:clone-dot", V.DotProduct(x12[0:3], V.VectorExpression([sc[7], x12[1], sc[7] * x12[2]])), PN))
    xb = VectorVariable("x", 12)  # a second vector object with the same label and element names
    out.append(("names:two-vectors-one-label", x12.dot(xb) - xb.sum(), PN))
    out.append(("names:same-name-params", p1 * x12[0] + p2 - p1 / (p2 * p2 + 1.0), PN))
    out.append(("names:same-name-params-vec", p1 * x12[0:3].dot(x12[3:6]) - p2 * x12.sum(), PN))
    # (29) Parameters as ELEMENTS of vector / matrix expressions under every reduction node — bare, inside variable-free scalar
    # operations, combined with variables — through the whole pipeline (IR tie for every V and threshold; run() sets every
    # Parameter between compilation and call and judges at the values they have then)
    from optyx import VectorParameter

    prices = VectorParameter("price", n, [10.0, 20.0, 30.0][:n] + [5.0] * max(0, n - 3))
    rate = Parameter("rate", 0.5)
    PP = Pool(U.all_vars(), list(prices) + [rate])
    pv = V.VectorExpression(list(prices))
    pmix = V.VectorExpression([rate, Constant(2.0), prices[0]][:n] + [2.0 * prices[n - 1]] * max(0, n - 3))
    wn = np.array([0.5, 0.3, 0.2][:n] + [0.25] * max(0, n - 3))
    reds = {"lc": wn @ pv, "sum": pv.sum(), "l2": V.norm(pv), "l1": V.norm(pv, 1), "dotself": pv.dot(pv), "dot": pv.dot(pmix),
            "qf": M.QuadraticForm(pv, Q), "msum": M.MatrixExpression([list(prices)[:n - 1] + [rate], [rate * 2.0] * n]).sum(),
            "mvsum": M.MatrixVectorProduct(Q, pv).sum(), "dotvar": pv.dot(U.x), "vecop": (pv * 2.0 - pmix).sum()}
    for rn, R in reds.items():
        pforms = {"bare": R + a, "k*R": (a - 1.1 * R) ** 2 + b * rate, "sqrt": a * optyx.sqrt(R * R + 1.0) + b / (R * R + 1.0),
                  "exp": optyx.exp(-(R / 100.0)) * a + b, "const-only": 1.5 * R - 2.0, "R*p": (R * rate) * a - b}
        for wn_, e in pforms.items():
            out.append((f"parred:{rn}:{wn_}", e, PP))
    # (9) one compound sub-expression OBJECT at several places
    t = optyx.sin(a) * b + 1.0
    d = U.x.dot(U.y)
    sh = {"scalar": t * t + t / (t * t + 1.0), "node": d * d - d, "in-vector": V.DotProduct(V.VectorExpression([t, t, d][:n] + [t] * max(0, n - 3)), U.x),
          "twice-in-sum": V.VectorExpression([t] * n).sum() - t, "under-unary": optyx.tanh(t) - optyx.tanh(t) * t,
          "param-shared": (p * a) * (p * a) + p}
    for nm, e in sh.items():
        out.append((f"shared:{nm}", e, U))
    return out


def zigzag_chains(rng, thorough):
    """alternating left / right nesting (the left-spine estimate sees about half of the depth)"""
    out = []
    for n in ([50, 401, 600] if thorough else [50, 401]):
        U = gen.Universe(rng)
        vs = U.all_vars()
        for op in ["+", "-", "*"]:
            e = vs[0]
            for i in range(n):
                t = vs[(i + 1) % len(vs)] * 0.5 if op != "*" else gen.unary("tanh", vs[(i + 1) % len(vs)]) * 0.125 + 1.0
                if i % 2 == 0:
                    e = {"+": e + t, "-": e - t, "*": e * t}[op]
                else:
                    e = {"+": t + e, "-": t - e, "*": t * e}[op]
            out.append((f"zigzag{op}:{n}", e, U))
    return out


def chains(rng, thorough):
    """left-deep chains around the switch (399/400/401) and beyond, all operators"""
    from optyx.core.expressions import Constant

    out = []
    for n in ([5, 399, 400, 401, 900] if thorough else [5, 399, 400, 401]):
        U = gen.Universe(rng)
        vs = U.all_vars()
        for op in ["+", "-", "*", "/"]:
            e = vs[0]
            for i in range(n):
                t = vs[(i + 1) % len(vs)]
                if op == "+":
                    e = e + t * 0.5
                elif op == "-":
                    e = e - t
                elif op == "*":
                    e = e * (gen.unary("tanh", t) * 0.125 + 1.0)
                else:
                    e = e / (t * t * 0.015625 + 1.0)
            out.append((f"chain{op}:{n}", e, U))
        # a chain with vector nodes and parameters as terms
        e = U.x.sum()
        for i in range(n):
            t = [U.x.dot(U.y), (U.x ** 2).sum(), U.M.sum(), U.params[0], U.scalars[0]][i % 5]
            e = e + t
        out.append((f"chain-vec:{n}", e, U))
    return out


def vector_operands(e):
    """element lists (distinct Variables, in operand order) of the VectorVariable operands of the
    vector nodes occurring in `e` — the index arrays `x[idx]` of the compiled closures"""
    from optyx.core.expressions import BinaryOp, UnaryOp
    from optyx.core.vectors import VectorVariable

    out, seen = [], set()
    stack = [e]
    while stack:
        n = stack.pop()
        if isinstance(n, BinaryOp):
            stack += [n.left, n.right]
            continue
        if isinstance(n, UnaryOp):
            stack.append(n.operand)
            continue
        for attr in ("vector", "left", "right", "expression"):
            sub = getattr(n, attr, None)
            if sub is None:
                continue
            if isinstance(sub, VectorVariable):
                if id(sub) not in seen:
                    seen.add(id(sub))
                    L = []
                    for v in sub._variables:
                        if v.name not in {w.name for w in L}:
                            L.append(v)
                    out.append(L)
            elif hasattr(sub, "_expressions"):
                stack += list(sub._expressions)
        m = getattr(n, "matrix", None)
        if m is not None and hasattr(m, "_expressions"):
            stack += [x for row in m._expressions for x in row]
    return out


def span_orders(rng, L, own, foreign, how_many=2):
    """ordered variable lists V ⊇ own in which the first and the last element of the vector operand
    `L` sit exactly len(L)-1 positions apart although the operand is *not* laid out contiguously in
    order: (i) endpoints in place, interior permuted (len ≥ 4); (ii) a foreign variable inside the
    span and the displaced member outside (len ≥ 3); (iii) reversed operand.  These are the orders
    on which a contiguous-slice shortcut for `x[idx]` would silently read the wrong entries."""
    names = {v.name for v in L}
    rest = [v for v in own if v.name not in names]
    out = []

    def wrap(core_block, displaced=()):
        others = rest + list(displaced)
        rng.shuffle(others)
        cut = rng.randint(0, len(others))
        return others[:cut] + core_block + others[cut:]

    k = len(L)
    if k >= 4:
        for _ in range(how_many):
            mid = L[1:-1]
            for _try in range(8):
                rng.shuffle(mid)
                if mid != L[1:-1]:
                    break
            out.append(("span-interior", wrap([L[0]] + mid + [L[-1]])))
    if k >= 3 and foreign:
        for _ in range(how_many):
            j = rng.randint(1, k - 2)
            f = rng.choice(foreign)
            block = [L[0]] + [f if i == j else L[i] for i in range(1, k - 1)] + [L[-1]]
            out.append(("span-foreign", wrap(block, displaced=[L[j]])))
        # a foreign variable inside and the *first* / *last* member displaced
        f = rng.choice(foreign)
        out.append(("span-foreign-end", wrap([L[1], L[0], f] + L[2:]) if k >= 3 else wrap(L)))
    if k >= 2:
        out.append(("span-reversed", wrap(list(reversed(L)))))
    return out


def v_variants(rng, e, U, spans=True):
    """ordered variable lists: own order, a permutation, a strict superset, and — when the expression
    has vector operands — the span orders of `span_orders`"""
    from optyx import Variable

    own = gen.expr_vars(e)
    out = [("own", list(own))]
    if spans:
        foreign = [v for v in U.all_vars() if v.name not in {w.name for w in own}]
        ops = [L for L in vector_operands(e) if len(L) >= 3]
        if ops:
            L = rng.choice(ops)
            picks = span_orders(rng, L, own, foreign, how_many=1)
            rng.shuffle(picks)
            out += picks[:2]
    if len(own) >= 2:
        perm = list(own)
        rng.shuffle(perm)
        out.append(("perm", perm))
    others = [v for v in U.all_vars() if v.name not in {w.name for w in own}]
    rng.shuffle(others)
    sup = list(own) + others[: rng.randint(1, 3)]
    rng.shuffle(sup)
    out.append(("superset", sup))
    return out


def run(ctx) -> core.Report:
    import optyx.core.compiler as C
    from optyx import Variable

    rng = ctx["rng"]
    thorough = ctx["tier"] == "thorough" or ctx["escalate"]
    rep = core.Report(rule="closure-shape cell cover (every operator × operand kind, every unary function, every "
                           "vector/matrix node × operand kind, alone and inside chains) + left-deep chains at "
                           "399/400/401(/900) + seeded random trees, each × V ∈ {own, permutation, strict superset} "
                           "(+ duplicate / missing variable) × threshold ∈ {0,3,400}; non-trivial = distinct "
                           "(expression, V, point) with at least one variable whose value is finite; + recipe oracle: "
                           "every rewrite-bait template (nested powers, neutral elements, self-cancellation, signs, constant "
                           "folding, function pairs, log/exp/sqrt/abs laws) × {E = x, compound E} × {raw numbers, Constant "
                           "objects, node constructors, vector route} × 7 sign/zero/large/tiny points, judged against the "
                           "NumPy value of the formula as written; + Parameters as elements of vector / matrix expressions: "
                           "every reduction node × every variable-free wrapper, every combination with variables × every "
                           "compile / set / call history family, all entry points judged against NumPy at the current "
                           "parameter values")
    exprs = list(cell_cover(rng)) + audit_cover(rng, thorough) + chains(rng, thorough) + zigzag_chains(rng, thorough)
    n_rand = 25000 if thorough else 2000
    depth_hi = 6 if thorough else 4
    for i in range(n_rand):
        U = gen.Universe(rng)
        safe = i % 3 != 2
        exprs.append(("rand-safe" if safe else "rand", gen.rand_expr(rng, U, rng.randint(1, depth_hi), safe=safe), U))

    ids = Ids()
    rep._mismatch_cases = []  # (expr text, variable names, parameter values) of the cases the model disagrees on
    ctx["_c01_mismatch_cases"] = rep._mismatch_cases
    lines, metas = [], []  # Lean protocol lines and what they belong to

    def add(line, meta):
        lines.append(line)
        metas.append(meta)

    cases = []
    for tag, e, U in exprs:
        if has_f20_shape(e):
            rep.skipped["F20-shape (int constant as negative exponent)"] = rep.skipped.get(
                "F20-shape (int constant as negative exponent)", 0) + 1
            continue
        try:
            s = Ser(ids).expr(e)
        except Unsupported as ex:
            rep.skipped["unsupported:" + str(ex)] = rep.skipped.get("unsupported:" + str(ex), 0) + 1
            continue
        key = tag.split(":")[0]
        rep.histogram[key] = rep.histogram.get(key, 0) + 1
        params = list(U.params)
        variants = v_variants(rng, e, U)
        own = variants[0][1]
        deep = tag.startswith(("chain", "zigzag"))
        if tag.startswith("span:"):
            import itertools

            foreign = [v for v in U.all_vars() if v.name not in {w.name for w in own}]
            L = vector_operands(e)[0]
            variants = [("own", list(own))]
            if len(own) <= 4:
                variants += [("perm24", list(p)) for p in itertools.permutations(own)][1:]
            variants += span_orders(rng, L, own, foreign, how_many=3 if len(own) > 4 else 2)
        if own and not deep and rng.random() < 0.15:
            # duplicate name: a second Variable object with the name of an existing one
            dup = list(own) + [Variable(own[0].name)]
            variants.append(("dup", dup))
        if own and rng.random() < (0.5 if deep else 0.15):
            variants.append(("missing", list(own[1:]) if rng.random() < 0.5 else list(own[:-1])))
        for vi, (vtag, V) in enumerate(variants):
            vtxt = "(" + " ".join(Ser(ids).var(v) for v in V) + ")"
            pt = gen.rand_point(rng, V)
            x = [pt[v.name] for v in V]  # with a duplicate name both slots carry the same value
            newp = {p: rng.dy() for p in params}
            case = {"tag": tag, "vtag": vtag, "e": e, "s": s, "V": V, "vtxt": vtxt, "x": x, "pt": pt,
                    "params": params, "newp": newp, "thr_num": THRESHOLDS[(len(cases) + vi) % 3]}
            if vtag.startswith(("span", "perm24")):
                # both builders numerically: a bare vector node has depth estimate 0/1
                case["thr_num"] = 0 if vi % 2 == 0 else 400
                rep.histogram["V:" + vtag] = rep.histogram.get("V:" + vtag, 0) + 1
            cases.append(case)

    # ---- real code, then the protocol lines (the store text needs the post-set parameter values)
    for ci, c in enumerate(cases):
        e, V = c["e"], c["V"]
        c["py_ir"] = {}
        for thr in THRESHOLDS:
            for p in c["params"]:
                p.set(1.5)
            txt, fn = py_compile(e, V, thr)
            c["py_ir"][thr] = txt
            add(f"compile {c['s']} {c['vtxt']} {thr}", (ci, "ir", thr))
            if thr == c["thr_num"]:
                c["fn"] = fn
        if c["vtag"] == "missing":
            # evaluate with the same variable missing
            add(f"evalpy {c['s']} {env_text(c['pt'])} ()", (ci, "evalmiss", None))
            with warnings.catch_warnings():
                warnings.simplefilter("ignore")
                try:
                    e.evaluate(dict(c["pt"]))
                    c["py_evalmiss"] = "no-error"
                except Exception as ex:  # noqa: BLE001
                    c["py_evalmiss"] = f"raise:{type(ex).__name__}:{getattr(ex, 'variable_name', '')}"
            continue
        # parameters change between compilation and call
        for p, v in c["newp"].items():
            p.set(v)
        store = store_text(c["params"], ids)
        xs = "(" + " ".join(rat(v) for v in c["x"]) + ")"
        fn = c.get("fn")
        arr = np.array(c["x"], dtype=float)
        c["py_val"] = call(lambda: fn(arr)) if fn is not None else (None, "not-compiled")
        c["py_eval"] = call(lambda: e.evaluate(dict(c["pt"])))
        old = C._RECURSION_THRESHOLD
        try:
            C._RECURSION_THRESHOLD = c["thr_num"]
            C._compile_cached.cache_clear()
            c["py_dict"] = call(lambda: C.compile_to_dict_function(e, V)(dict(c["pt"])))
            if ci % 4 == 0 and not c["tag"].startswith(("chain", "zigzag")):
                c["py_cv"] = call(lambda: C.CompiledExpression(e, V).value(arr))
        finally:
            C._RECURSION_THRESHOLD = old
            C._compile_cached.cache_clear()
        add(f"runc {c['s']} {c['vtxt']} {xs} {store} {c['thr_num']}", (ci, "runc", None))
        add(f"evalpy {c['s']} {env_text(c['pt'])} {store}", (ci, "evalpy", None))
        add(f"dictfn {c['s']} {c['vtxt']} {env_text(c['pt'])} {store} {c['thr_num']}", (ci, "dictfn", None))
        # the reference value (independent interpreter) at this point with the current parameter values
        try:
            ref = oracle.prim(oracle.ref_eval(e, dict(c["pt"])))
            c["ref"] = float(ref)
        except (oracle.NotRegular, OverflowError, ZeroDivisionError, ValueError, KeyError):
            c["ref"] = None
        c["cond"] = well_conditioned(e, c["pt"]) if c["ref"] is not None else False

    outs = run_lean_unit(lines)
    rep.evaluations = len(lines)
    model = {}
    for (ci, kind, thr), o in zip(metas, outs):
        model[(ci, kind, thr)] = o

    def mism(c, what, impl, mod):
        rep.corr_mismatches.append({"what": what, "tag": c["tag"], "V": c["vtag"], "expr": c["s"][:400],
                                    "vars": c["vtxt"][:200], "impl": str(impl)[:400], "model": str(mod)[:400]})
        if len(c["s"]) < 20000:
            rep._mismatch_cases.append((c["s"], [v.name for v in c["V"]], {p.name: v for p, v in c["newp"].items()}))

    for ci, c in enumerate(cases):
        # ---- structural tie: IR and builder, all thresholds
        for thr in THRESHOLDS:
            m = model[(ci, "ir", thr)]
            if c["py_ir"][thr] != m:
                mism(c, f"closure IR / builder differs at threshold {thr}", c["py_ir"][thr], m)
            b = m.split(" ")[0].split(":")[0]
            rep.histogram["builder:" + b] = rep.histogram.get("builder:" + b, 0) + 1
            if c["py_ir"][thr].startswith("raise:") and c["vtag"] != "missing":
                # "every expression kind the API can construct can be compiled"
                rep.oracle_failures.append({"what": f"compile_expression raised {c['py_ir'][thr]} at threshold {thr}",
                                            "expr": c["s"], "vars": [v.name for v in c["V"]], "threshold": thr})
        if c["vtag"] == "missing":
            m = model[(ci, "evalmiss", None)]
            if c["py_evalmiss"] != m:
                mism(c, "evaluate with a missing value", c["py_evalmiss"], m)
            continue
        # ---- numeric tie (model over Float vs implementation), regular well-conditioned points only
        ref, cond = c["ref"], c["cond"]
        obs = {"runc": c["py_val"], "evalpy": c["py_eval"], "dictfn": c["py_dict"]}
        for kind, (val, err) in obs.items():
            m = model[(ci, kind, None)]
            if m.startswith("raise:") or m.startswith("bad-"):
                mism(c, f"model {kind} did not produce a value", (val, err), m)
                continue
            mv = bits_to_float(m)
            if ref is None or not cond:
                continue
            if val is None:
                continue  # judged by the oracle below
            if not same(val, mv):
                mism(c, f"{kind}: value differs from the model", val, mv)
        # ---- property oracle on the real code
        if ref is None:
            rep.skipped["point outside the domain (reference not regular / not finite)"] = rep.skipped.get(
                "point outside the domain (reference not regular / not finite)", 0) + 1
            continue
        if not cond:
            rep.skipped["ill-conditioned point"] = rep.skipped.get("ill-conditioned point", 0) + 1
            continue
        if c["V"]:
            rep.nontrivial.add(hash((c["s"], c["vtxt"], tuple(c["x"]))))
        allobs = dict(obs)
        if "py_cv" in c:
            allobs["CompiledExpression.value"] = c["py_cv"]
        names = {"runc": "compile_expression(e,V)(x)", "evalpy": "e.evaluate(values)",
                 "dictfn": "compile_to_dict_function(e,V)(values)"}
        for kind, (val, err) in allobs.items():
            nm = names.get(kind, kind)
            base = {"expr": c["s"], "vars": [v.name for v in c["V"]], "point": c["pt"],
                    "params": {p.name: v for p, v in c["newp"].items()}, "threshold": c["thr_num"], "observable": nm}
            if c["newp"]:
                # the history of this loop (replayed as such): every Parameter was 1.5 when the callables were compiled
                base.update(set_history=True, params_when_compiled={p.name: 1.5 for p in c["newp"]})
            if val is None:
                f = dict(base, what=f"{nm} raised {err} at a regular point", want=ref)
                if err == "int_negative_power":
                    f["kind"] = "int_negative_power"
                rep.oracle_failures.append(f)
            elif not same(val, ref, rtol=1e-9):
                rep.oracle_failures.append(dict(base, what=f"{nm} differs from the mathematical value", got=val, want=ref))
        if len(rep.samples) < 6 and len(c["s"]) < 160 and c["V"]:
            rep.samples.append({"expr": c["s"], "V": [v.name for v in c["V"]], "x": c["x"],
                                "ir": model[(ci, "ir", 400)], "value": ref})
    rep.histogram["cases"] = len(cases)
    rep.histogram["numeric_points"] = sum(1 for c in cases if c.get("ref") is not None and c.get("cond"))
    magnitude_section(rep, rng, thorough, ids)
    special_section(rep, rng, thorough, ids)
    history_section(rep, rng, thorough)
    parhist_section(rep, rng, thorough)
    recipe_section(rep, rng, thorough)
    return rep



# ----------------------------------------------------------------------------- magnitudes (exact rational reference)


class NotExact(Exception):
    pass


def exact_eval(e, pt):
    """(value, bound) as Fractions for the polynomial / rational fragment: `value` is the exact
    mathematical value at the point, `bound` the same formula with every number and every partial
    result replaced by its absolute value (Σ|terms|: the scale against which rounding is judged)"""
    from fractions import Fraction as F
    from optyx.core.expressions import BinaryOp, Constant, UnaryOp, Variable
    from optyx.core.parameters import Parameter
    from optyx.core import vectors as V
    from optyx.core import matrices as M

    def num(x):
        a = np.asarray(x)
        if a.ndim != 0:
            raise NotExact("array constant")
        v = a.item()
        return F(v) if isinstance(v, int) else F(float(v))

    def vec(v):
        if isinstance(v, V.VectorVariable):
            return [go(x) for x in v._variables]
        return [go(x) for x in v._expressions]

    def ipow(b, n):
        if n.denominator != 1 or abs(n) > 64:
            raise NotExact("non-integer power")
        n = int(n)
        if n >= 0:
            return (b[0] ** n, b[1] ** n)
        if b[0] == 0:
            raise NotExact("negative power of zero")
        return (1 / b[0] ** (-n), 1 / abs(b[0]) ** (-n))

    def go(n):
        if isinstance(n, Constant):
            v = num(n.value)
            return (v, abs(v))
        if isinstance(n, Variable):
            v = F(float(pt[n.name]))
            return (v, abs(v))
        if isinstance(n, Parameter):
            v = num(n.value)
            return (v, abs(v))
        if isinstance(n, BinaryOp):
            a, b = go(n.left), go(n.right)
            if n.op == "+": return (a[0] + b[0], a[1] + b[1])
            if n.op == "-": return (a[0] - b[0], a[1] + b[1])
            if n.op == "*": return (a[0] * b[0], a[1] * b[1])
            if n.op == "/":
                if b[0] == 0:
                    raise NotExact("division by zero")
                return (a[0] / b[0], a[1] / abs(b[0]))
            if n.op == "**": return ipow(a, b[0])
            raise NotExact(n.op)
        if isinstance(n, UnaryOp):
            a = go(n.operand)
            if n.op == "neg": return (-a[0], a[1])
            if n.op == "abs": return (abs(a[0]), a[1])
            raise NotExact(n.op)
        if isinstance(n, V.LinearCombination):
            xs = vec(n.vector)
            cs = [num(c) for c in np.asarray(n.coefficients).tolist()]
            return (sum((c * x[0] for c, x in zip(cs, xs)), F(0)), sum((abs(c) * x[1] for c, x in zip(cs, xs)), F(0)))
        if isinstance(n, V.VectorSum):
            xs = vec(n.vector)
            return (sum((x[0] for x in xs), F(0)), sum((x[1] for x in xs), F(0)))
        if isinstance(n, V.VectorExpressionSum):
            xs = [go(x) for x in n.expression._expressions]
            return (sum((x[0] for x in xs), F(0)), sum((x[1] for x in xs), F(0)))
        if isinstance(n, V.DotProduct):
            a, b = vec(n.left), vec(n.right)
            return (sum((x[0] * y[0] for x, y in zip(a, b)), F(0)), sum((x[1] * y[1] for x, y in zip(a, b)), F(0)))
        if isinstance(n, V.L1Norm):
            xs = vec(n.vector)
            return (sum((abs(x[0]) for x in xs), F(0)), sum((x[1] for x in xs), F(0)))
        if isinstance(n, M.QuadraticForm):
            xs = vec(n.vector)
            Q = np.asarray(n.matrix).tolist()
            val = sum((num(Q[i][j]) * xs[i][0] * xs[j][0] for i in range(len(xs)) for j in range(len(xs))), F(0))
            bnd = sum((abs(num(Q[i][j])) * xs[i][1] * xs[j][1] for i in range(len(xs)) for j in range(len(xs))), F(0))
            return (val, bnd)
        if isinstance(n, V.VectorPowerSum):
            k = F(float(n.power))
            xs = [ipow(go(x), k) for x in n.vector._variables]
            return (sum((x[0] for x in xs), F(0)), sum((x[1] for x in xs), F(0)))
        if isinstance(n, M.MatrixSum):
            if isinstance(n.matrix, M.MatrixVariable):
                xs = [go(x) for row in n.matrix._variables for x in row]
            else:
                xs = [go(x) for row in n.matrix._expressions for x in row]
            return (sum((x[0] for x in xs), F(0)), sum((x[1] for x in xs), F(0)))
        raise NotExact(type(n).__name__)

    return go(e)


STORED = [0.0, 1e-300, -1e-300, 1e-12, -1e-12, 1e-9, -1e-9, 4e-9, 7.5e-9, 1e-8 * (1 + 2 ** -20), -1e-8 * (1 - 2 ** -20),
          1e-8, 1e-7, -1e-7, 1.0, -1.0, 3.0, -2.0, 0.5, 1e8, -1e8, 1e16, -1e16]
COORDS = [1e-9, -1e-9, 1e-3, -1e-3, 0.5, 1.0, -2.0, 5.0, 1e3, -1e3, 2e8, -2e8, 5e8, 1e9, -1e9]


def magnitude_cases(rng, thorough):
    """(tag, expression, ordered variables, point, parameters-to-set)"""
    from optyx import Variable, VectorVariable, MatrixVariable, Parameter
    from optyx.core.expressions import BinaryOp, Constant
    from optyx.core import vectors as V
    from optyx.core import matrices as M

    out = []

    def coeffs(n, style):
        if style == "tiny":
            pool = [c for c in STORED if abs(c) <= 1e-7]
        elif style == "mixed":
            pool = STORED
        else:  # "one-tiny": ordinary numbers with one or two tiny non-zero entries
            cs = [rng.choice([1.0, -2.0, 3.0, 0.5, -1.0]) for _ in range(n)]
            for j in rng.sample(range(n), min(n, rng.choice([1, 2]))):
                cs[j] = rng.choice([c for c in STORED if 0 < abs(c) <= 1e-7])
            return cs
        return [rng.choice(pool) for _ in range(n)]

    def coords(cs, style):
        xs = []
        for c in cs:
            if style == "paired" and c != 0 and 1e-12 <= abs(c) <= 1e-7:
                # a coordinate that makes the tiny coefficient matter: |c·x| ~ 1
                xs.append(rng.choice([1.0, -1.0, 2.0, 0.5]) * (10.0 ** round(-math.log10(abs(c)))) * rng.choice([1.0, 0.5, 0.2]))
            else:
                xs.append(rng.choice(COORDS))
        return xs

    reps = 60 if thorough else 24
    for r in range(reps):
        n = rng.randint(2, 6)
        x = VectorVariable("x", n)
        y = VectorVariable("y", n)
        p = Parameter("p", 1.0)
        for cstyle in ("one-tiny", "tiny", "mixed"):
            for xstyle in ("paired", "free"):
                cs = coeffs(n, cstyle)
                xs = coords(cs, xstyle)
                ys = [rng.choice(COORDS[:10]) for _ in range(n)]
                pt = {**{x[i].name: xs[i] for i in range(n)}, **{y[i].name: ys[i] for i in range(n)}}
                pv = rng.choice([1e-9, 1e8, -3.0, 4e-9])
                Vx, Vxy = list(x), list(x) + list(y)
                A = np.array([coeffs(n, cstyle) for _ in range(n)])
                Q = np.array([coeffs(n, cstyle) for _ in range(n)])
                kind = r % 9 if not thorough else None
                fam = [
                    ("lc:vars", V.LinearCombination(np.array(cs), x), Vx),
                    ("lc:matmul", np.array(cs) @ x, Vx),
                    ("lc:exprs", V.LinearCombination(np.array(cs), x * 2.0 - y), Vxy),
                    ("matvec:sum", (A @ x).sum(), Vx),
                    ("matvec:dot", V.DotProduct(y, A @ x), Vxy),
                    ("qf", M.QuadraticForm(x, Q), Vx),
                    ("scalar", _scalar_sum(cs, list(x)), Vx),
                    ("const-leaf", (x[0] + Constant(cs[0])) * Constant(cs[1]) - Constant(cs[-1]) / (y[0] * y[0] + 1.0), Vxy),
                    ("power", BinaryOp(x[0] * cs[0] + x[1], Constant(rng.choice([0, 1, 2, 3, -1, -2])), "**") + Constant(cs[1]) * x[1] ** 2, Vx),
                    ("powersum", V.VectorPowerSum(x, rng.choice([1, 2, 3, -1, -2])) * cs[0] + cs[1], Vx),
                    ("dot:const-exprs", V.DotProduct(x, V.VectorExpression([Constant(c) * y[i] for i, c in enumerate(cs)])), Vxy),
                    ("param", p * V.LinearCombination(np.array(cs), x) + p * x[0], Vx),
                    ("es", (x * np.array(cs)).sum() if hasattr(x, "__mul__") else None, Vx),
                ]
                for j, (tag, e, VV) in enumerate(fam):
                    if e is None or (not thorough and (j + r) % 3 != 0):
                        continue
                    VV = list(VV)
                    if rng.random() < 0.5:
                        rng.shuffle(VV)
                    out.append((f"mag:{tag}:{cstyle}:{xstyle}", e, VV, {v.name: pt[v.name] for v in VV}, {p: pv}))
    return out


def _scalar_sum(cs, xs):
    from optyx.core.expressions import Constant

    acc = None
    for c, v in zip(cs, xs):
        t = Constant(c) * v
        acc = t if acc is None else acc + t
    return acc


def check_exact(e, V, pt, thr):
    """the four observables against the exact rational value; None = holds / not judged"""
    import optyx.core.compiler as C
    from fractions import Fraction as F

    try:
        val, bnd = exact_eval(e, pt)
    except (NotExact, ZeroDivisionError, OverflowError):
        return "skip"
    try:
        want, scale = float(val), float(bnd)
    except OverflowError:
        return "skip"
    if not (math.isfinite(want) and math.isfinite(scale)) or scale > 1e250:
        return "skip"
    tol = 1e-9 * scale + 1e-305
    old = C._RECURSION_THRESHOLD
    try:
        C._RECURSION_THRESHOLD = thr
        C._compile_cached.cache_clear()
        arr = np.array([pt[v.name] for v in V], dtype=float)
        obs = {
            "compile_expression(e,V)(x)": call(lambda: C.compile_expression(e, V)(arr)),
            "e.evaluate(values)": call(lambda: e.evaluate(dict(pt))),
            "compile_to_dict_function(e,V)(values)": call(lambda: C.compile_to_dict_function(e, V)(dict(pt))),
            "CompiledExpression.value": call(lambda: C.CompiledExpression(e, V).value(arr)),
        }
    finally:
        C._RECURSION_THRESHOLD = old
        C._compile_cached.cache_clear()
    for nm, (got, err) in obs.items():
        if got is None:
            if err in ("ZeroDivisionError", "OverflowError", "FloatingPointError"):
                continue
            return {"what": f"{nm} raised {err}", "want": want, "observable": nm}
        if not math.isfinite(got):
            continue  # overflow of an intermediate: outside the domain of the float program
        if abs(F(got) - val) > F(tol):
            return {"what": f"{nm} differs from the exact rational value (tolerance 1e-9·Σ|terms|)", "got": got,
                    "want": want, "sum_abs_terms": scale, "observable": nm}
    return None


def magnitude_section(rep, rng, thorough, ids):
    lines, metas = [], []
    n_ok = 0
    for i, (tag, e, V, pt, pset) in enumerate(magnitude_cases(rng, thorough)):
        for p, v in pset.items():
            p.set(v)
        thr = THRESHOLDS[i % 3]
        key = ":".join(tag.split(":")[:2])
        rep.histogram[key] = rep.histogram.get(key, 0) + 1
        r = check_exact(e, V, pt, thr)
        if r == "skip":
            rep.skipped["magnitude case outside the exact fragment / overflow"] = rep.skipped.get(
                "magnitude case outside the exact fragment / overflow", 0) + 1
            continue
        try:
            s = Ser(ids).expr(e)
        except Unsupported:
            s = None
        if r is not None:
            r.update({"expr": s, "vars": [v.name for v in V], "point": pt, "threshold": thr, "exact": True,
                      "params": {p.name: v for p, v in pset.items()}, "tag": tag})
            rep.oracle_failures.append(r)
        else:
            n_ok += 1
            rep.nontrivial.add(hash((tag, s, tuple(pt.values()))))
        if s is not None and i % 2 == 0:
            vtxt = "(" + " ".join(Ser(ids).var(v) for v in V) + ")"
            txt, _ = py_compile(e, V, thr)
            lines.append(f"compile {s} {vtxt} {thr}")
            metas.append((tag, s, txt))
    outs = run_lean_unit(lines)
    rep.evaluations += len(lines) + n_ok
    for (tag, s, impl), model in zip(metas, outs):
        if impl != model:
            rep.corr_mismatches.append({"what": "closure IR differs (magnitude case)", "tag": tag, "expr": s[:400],
                                        "impl": impl[:400], "model": model[:400]})
    rep.histogram["magnitude_points"] = n_ok



# ----------------------------------------------------------------------------- near-singular points, exponents, number types


class NoMargin:
    """oracle.ref_eval with its regularity margin switched off: the reference is defined on the whole
    domain (x > 0 for log / sqrt / real powers, x ≠ 0 for division), also 1e-9 away from the singular set"""

    def __enter__(self):
        self.old = oracle.MARGIN
        oracle.MARGIN = 0.0

    def __exit__(self, *a):
        oracle.MARGIN = self.old


def loose_ref(e, pt):
    with NoMargin():
        try:
            v = float(oracle.prim(oracle.ref_eval(e, dict(pt))))
        except (oracle.NotRegular, OverflowError, ZeroDivisionError, ValueError, KeyError):
            return None
    return v if math.isfinite(v) else None


def check_loose(e, V, pt, thr, rtol=1e-9):
    """the four observables against the margin-free reference, at points where the reference is stable under
    a 1e-13 relative perturbation; None = holds, 'skip' = not judged"""
    import optyx.core.compiler as C

    want = loose_ref(e, pt)
    if want is None:
        return "skip"
    for sgn in (1.0, -1.0):
        w2 = loose_ref(e, {k: v * (1 + sgn * 1e-13) for k, v in pt.items()})
        if w2 is None or abs(w2 - want) > 1e-10 * abs(want) + 1e-300:
            return "skip"
    old = C._RECURSION_THRESHOLD
    try:
        C._RECURSION_THRESHOLD = thr
        C._compile_cached.cache_clear()
        arr = np.array([pt[v.name] for v in V], dtype=float)
        obs = {
            "compile_expression(e,V)(x)": call(lambda: C.compile_expression(e, V)(arr)),
            "e.evaluate(values)": call(lambda: e.evaluate(dict(pt))),
            "compile_to_dict_function(e,V)(values)": call(lambda: C.compile_to_dict_function(e, V)(dict(pt))),
            "CompiledExpression.value": call(lambda: C.CompiledExpression(e, V).value(arr)),
        }
    finally:
        C._RECURSION_THRESHOLD = old
        C._compile_cached.cache_clear()
    for nm, (got, err) in obs.items():
        if got is None:
            f = {"what": f"{nm} raised {err} at a point of the domain", "want": want, "observable": nm}
            if err == "int_negative_power":
                f["kind"] = "int_negative_power"
            return f
        if not (abs(got - want) <= rtol * abs(want) + 1e-300):
            return {"what": f"{nm} differs from the mathematical value (relative tolerance {rtol})", "got": got,
                    "want": want, "observable": nm}
    return None


TINY = [1e-7, -1e-7, 1e-9, -1e-9, 1e-150, -1e-150, 1e-300]
EXPONENTS = [1e-12, 1e-9, 1e-8, 1e-7, 0.5, 2.5, -0.5, -3.0, 30.0, 1.0 + 2 ** -30, 2.0, 3.0]


def special_cases(rng, thorough):
    """(tag, expression, V, point, params, judge) with judge ∈ {'exact', 'loose'}"""
    import optyx
    from optyx import Variable, VectorVariable, MatrixVariable, Parameter
    from optyx.core.expressions import BinaryOp, Constant, UnaryOp
    from optyx.core import vectors as V
    from optyx.core import matrices as M

    out = []
    reps = 12 if thorough else 3
    for r in range(reps):
        a, b = Variable("a"), Variable("b")
        x = VectorVariable("x", 3)
        X = MatrixVariable("X", 2, 2)
        # ---- points NEAR the singular sets (they are in the domain)
        for t in TINY:
            o = rng.choice([0.5, 2.0, -3.0, 1e3])
            pos = abs(t)
            near = [
                ("1/x", 1.0 / a, {a: t}), ("c/x", o / a, {a: t}), ("y/x", b / a, {a: t, b: o}), ("x**-1", a ** -1.0, {a: t}),
                ("x**-2", a ** -2.0, {a: t}), ("1/(x*y)", 1.0 / (a * b), {a: t, b: o}), ("1/(x-c)", 1.0 / (a - o), {a: o + o * 1e-9}),
                ("abs", optyx.abs_(a) * o, {a: t}), ("l1", V.L1Norm(x), {x[0]: t, x[1]: -t, x[2]: t * 0.5}),
                ("x/abs", a / optyx.abs_(a), {a: t}),
            ]
            nearpos = [
                ("log", optyx.log(a), {a: pos}), ("log2", optyx.log2(a), {a: pos}), ("log10", optyx.log10(a), {a: pos}),
                ("sqrt", optyx.sqrt(a), {a: pos}), ("x**0.5", a ** 0.5, {a: pos}), ("x**-0.5", a ** -0.5, {a: pos}),
                ("l2", V.L2Norm(x), {x[0]: pos, x[1]: -pos, x[2]: pos * 0.5}), ("fro", M.FrobeniusNorm(X), {v: pos for v in X.get_variables()}),
                ("us:log", V.VectorUnarySum(x, "log"), {x[0]: pos, x[1]: 1.0, x[2]: pos * 3}),
                ("us:sqrt", V.VectorUnarySum(x, "sqrt"), {x[0]: pos, x[1]: 1.0, x[2]: pos * 3}),
                ("ps-1", V.VectorPowerSum(x, -1), {x[0]: pos, x[1]: 1.0, x[2]: -pos}),
                ("ps0.5", V.VectorPowerSum(x, 0.5), {x[0]: pos, x[1]: 1.0, x[2]: pos * 3}),
                ("acosh", optyx.acosh(a), {a: 1.0 + min(pos * 1e3, 0.5)}), ("asin", optyx.asin(a), {a: 1.0 - min(pos * 1e3, 0.5)}),
                ("atanh", optyx.atanh(a), {a: 1.0 - min(max(pos, 1e-12) * 1e3, 0.5)}),
            ]
            for nm, e, ptv in near + nearpos:
                if abs(t) < 1e-100 and nm in ("x**-2", "1/(x*y)", "ps-1"):
                    continue  # overflow of the value itself
                VV = sorted(ptv, key=lambda v: v.name)
                out.append((f"near:{nm}", e, VV, {v.name: float(val) for v, val in ptv.items()}, {}, "loose"))
        # ---- exponents of every magnitude (real powers: positive base)
        for k in EXPONENTS:
            base = rng.choice([0.5, 1.5, 3.0, 1.0 + 2 ** -20, 1e-3, 1e3 if abs(k) <= 3 else 2.0])
            p = Parameter("p", k)
            forms = [("x**k", a ** k, {a: base}), ("x**Constant(k)", BinaryOp(a, Constant(k), "**"), {a: base}),
                     ("(xy)**k", (a * b) ** k, {a: base, b: 2.0}), ("x**p", a ** p, {a: base}),
                     ("k**x", Constant(abs(k) + 0.5) ** a, {a: rng.choice([-2.0, 0.5, 3.0])}),
                     ("ps(k)", V.VectorPowerSum(x, k), {x[0]: base, x[1]: 2.0, x[2]: 0.25})]
            for nm, e, ptv in forms:
                VV = sorted(ptv, key=lambda v: v.name)
                out.append((f"exponent:{nm}", e, VV, {v.name: float(val) for v, val in ptv.items()}, {p: k}, "loose"))
        # ---- numeric TYPES of every stored number (values that every type holds exactly)
        scal = [("int", 3), ("float", 3.0), ("bool", True), ("np.bool_", np.bool_(True)), ("0-d", np.array(3.0)), ("0-d-int", np.array(3))]
        for dt in (np.uint8, np.uint16, np.uint32, np.uint64, np.int8, np.int16, np.int32, np.int64, np.float16, np.float32, np.float64):
            scal.append((dt.__name__, dt(3)))
        for tn, c in scal:
            pt = {a.name: rng.choice([-2.5, 0.75, 4.0]), b.name: rng.choice([1.5, -0.25])}
            forms = [("x*c", a * c), ("c*x", c * a if not isinstance(c, (np.generic, np.ndarray)) else Constant(c) * a),
                     ("x-c", a - c), ("C(c)-x", Constant(c) - a), ("x/c", a / c), ("C(c)/x", Constant(c) / (a * a + 1.0)),
                     ("x**c", (a * a + 1.0) ** c), ("C(c)**x", Constant(c) ** (a * 0.25)), ("-C(c)*x", -(Constant(c) * a)),
                     ("x+C(c)*y", a + Constant(c) * b)]
            for nm, e in forms:
                out.append((f"type:scalar:{tn}:{nm}", e, [a, b], pt, {}, "exact" if "**x" not in nm else "loose"))
        base_arr = [2.0, 0.0, 3.0]
        arrs = [("list", [2.0, 0.0, 3.0]), ("int-list", [2, 0, 3]), ("tuple", (2.0, 0.0, 3.0)), ("bool", np.array([True, False, True])),
                ("noncontig", np.array([2.0, 9.0, 0.0, 9.0, 3.0])[::2]), ("neg-stride", np.array([3.0, 0.0, 2.0])[::-1]),
                ("row-of-F", np.asfortranarray(np.array([[2.0, 0.0, 3.0], [9.0, 9.0, 9.0]]))[0])]
        for dt in (np.uint8, np.uint64, np.int8, np.int32, np.int64, np.float16, np.float32, np.float64):
            arrs.append((dt.__name__, np.array([2, 0, 3], dtype=dt)))
        Qb = [[1.0, 2.0, 0.0], [0.0, -1.0, 3.0], [2.0, 0.0, 1.0]]
        mats = [("list", Qb), ("int32", np.array(Qb, dtype=np.int32)), ("uint8", np.abs(np.array(Qb)).astype(np.uint8)),
                ("float32", np.array(Qb, dtype=np.float32)), ("F-order", np.asfortranarray(np.array(Qb))),
                ("transposed-view", np.array(Qb).T.copy().T), ("strided", np.kron(np.array(Qb), np.ones((2, 2)))[::2, ::2])]
        pt = {x[i].name: [1.5, -2.0, 0.25][i] for i in range(3)}
        for tn, c in arrs:
            for nm, mk in (("LinearCombination", lambda: V.LinearCombination(c, x)), ("c@x", lambda: c @ x if isinstance(c, np.ndarray) else np.asarray(c) @ x)):
                try:
                    e = mk()
                except Exception as ex:  # noqa: BLE001
                    out.append((f"type:array:{tn}:{nm}", ex, list(x), pt, {}, "construct"))
                    continue
                out.append((f"type:array:{tn}:{nm}", e, list(x), pt, {}, "exact"))
        for tn, Qm in mats:
            for nm, mk in (("QuadraticForm", lambda: M.QuadraticForm(x, Qm)), ("A@x.sum", lambda: (np.asarray(Qm) @ x).sum()),
                           ("MatrixVectorProduct", lambda: V.DotProduct(x, M.MatrixVectorProduct(Qm, x)))):
                try:
                    e = mk()
                except Exception as ex:  # noqa: BLE001
                    out.append((f"type:matrix:{tn}:{nm}", ex, list(x), pt, {}, "construct"))
                    continue
                out.append((f"type:matrix:{tn}:{nm}", e, list(x), pt, {}, "exact"))
        for tn, k in (("int", 2), ("float", 2.0), ("np.int64", np.int64(2)), ("np.float32", np.float32(2)), ("np.uint8", np.uint8(2)), ("bool", True)):
            out.append((f"type:power:{tn}:ps", V.VectorPowerSum(x, k), list(x), pt, {}, "exact"))
            out.append((f"type:power:{tn}:x**k.sum", (x ** k).sum(), list(x), pt, {}, "exact"))
            out.append((f"type:power:{tn}:scalar", x[0] ** k + x[1], list(x), pt, {}, "exact"))
        for tn, val in (("int", 3), ("np.float32", np.float32(0.5)), ("np.int64", np.int64(-2)), ("bool", True), ("np.uint8", np.uint8(3))):
            pp = Parameter("p", val)
            out.append((f"type:param:{tn}", pp * x[0] - x[1] / (pp * pp + 1.0), list(x), pt, {}, "exact"))
    return out


def special_section(rep, rng, thorough, ids):
    n_ok = 0
    for i, (tag, e, V, pt, pset, judge) in enumerate(special_cases(rng, thorough)):
        key = ":".join(tag.split(":")[:2])
        rep.histogram[key] = rep.histogram.get(key, 0) + 1
        if judge == "construct":
            rep.skipped[f"constructor rejected the operand ({type(e).__name__}): {tag}"] = 1
            continue
        for p, v in pset.items():
            p.set(v)
        thr = THRESHOLDS[i % 3]
        r = check_exact(e, V, pt, thr) if judge == "exact" else check_loose(e, V, pt, thr)
        if r == "skip" and judge == "exact":
            r = check_loose(e, V, pt, thr)
        if r == "skip":
            rep.skipped["special case: reference undefined / ill-conditioned"] = rep.skipped.get(
                "special case: reference undefined / ill-conditioned", 0) + 1
            continue
        if r is not None:
            try:
                sx = Ser(ids).expr(e)
            except Unsupported:
                sx = None
            r.update({"expr": sx, "vars": [v.name for v in V], "point": pt, "threshold": thr, "judge": judge,
                      "params": {p.name: (float(v) if not isinstance(v, bool) else v) for p, v in pset.items()}, "tag": tag})
            rep.oracle_failures.append(r)
        else:
            n_ok += 1
            rep.nontrivial.add(hash((tag, tuple(pt.values()), i)))
    rep.evaluations += n_ok
    rep.histogram["special_points"] = n_ok



# ----------------------------------------------------------------------------- histories, call sequences, lifetime, aliasing


def low_precision(e) -> bool:
    """a float16 / float32 number stored in a Constant or Parameter (known finding: tree evaluation with Python-float
    values then runs in that precision)"""
    from optyx.core.expressions import BinaryOp, Constant, UnaryOp
    from optyx.core.parameters import Parameter

    stack = [e]
    while stack:
        n = stack.pop()
        if isinstance(n, (Constant, Parameter)):
            v = n.value
            if isinstance(v, (np.ndarray, np.generic)) and v.dtype in (np.float16, np.float32):
                return True
        elif isinstance(n, BinaryOp):
            stack += [n.left, n.right]
        elif isinstance(n, UnaryOp):
            stack.append(n.operand)
        else:
            for attr in ("vector", "left", "right", "expression"):
                sub = getattr(n, attr, None)
                if sub is not None and hasattr(sub, "_expressions"):
                    stack += list(sub._expressions)
    return False


def ref_at(e, pt):
    try:
        v = float(oracle.prim(oracle.ref_eval(e, dict(pt))))
    except (oracle.NotRegular, OverflowError, ZeroDivisionError, ValueError, KeyError):
        return None
    return v if well_conditioned(e, pt) else None


def history_section(rep, rng, thorough):
    """no cache is cleared inside one history: compile for several variable orders, re-compile (cache hit), a rejected
    compilation in between, derived quantities queried first, parameters set between calls, the same callable called
    twice / on an array mutated in place / at a singular point and then at a regular one / at ±0.0, twin models with
    the same names, models dropped and rebuilt (id reuse); user arrays must be bit-identical afterwards"""
    import gc
    import optyx
    import optyx.core.compiler as C
    import optyx.core.autodiff as AD
    from optyx import Variable, VectorVariable, Parameter
    from optyx.core import vectors as V
    from optyx.core import matrices as M

    fails = rep.oracle_failures
    C._compile_cached.cache_clear()

    def judge(what, e, VV, pt, got, extra):
        want = ref_at(e, pt)
        rep.histogram["history_points"] = rep.histogram.get("history_points", 0) + 1
        if want is None:
            return
        val, err = got
        if val is None or not same(val, want):
            try:
                sx = ser(e)
            except Unsupported:
                sx = None
            fails.append(dict(extra, what=f"{what}: " + (f"raised {err}" if val is None else "value differs from the mathematical value"),
                              got=val, want=want, expr=sx, vars=[v.name for v in VV], point=pt, history=True))

    rounds = 120 if thorough else 30
    for r in range(rounds):
        U = gen.Universe(rng)
        e = gen.rand_expr(rng, U, rng.randint(1, 4), safe=True)
        if has_f20_shape(e):
            continue
        own = gen.expr_vars(e)
        if not own:
            continue
        V1 = list(own)
        V2 = list(own); rng.shuffle(V2)
        V3 = V2 + [v for v in U.all_vars() if v.name not in {w.name for w in own}][:2]; rng.shuffle(V3)
        extra = {"tag": "history:cache", "round": r}
        # derived quantities first
        if r % 3 == 0:
            guardedq = [lambda: e.degree, lambda: AD.gradient(e, own[0]), lambda: e.get_variables()]
            for q in guardedq:
                try:
                    q()
                except Exception:  # noqa: BLE001
                    pass
        if r % 4 == 0 and len(own) > 1:
            try:
                C.compile_expression(e, V1[1:])  # rejected: a variable is missing
            except KeyError:
                pass
            except Exception as ex:  # noqa: BLE001
                fails.append(dict(extra, what=f"compile with a missing variable raised {type(ex).__name__}, not KeyError"))
        f1 = C.compile_expression(e, V1)
        f2 = C.compile_expression(e, V2)
        f3 = C.compile_expression(e, V3)
        f1b = C.compile_expression(e, V1)  # cache hit
        # a twin model: same names, same structure, its own parameter objects and values
        st = rng.getstate()
        for p in U.params:
            p.set(rng.dy())
        pt = gen.rand_point(rng, V3)
        for nm, f, VV in (("first order", f1, V1), ("permuted order", f2, V2), ("superset order", f3, V3), ("re-compiled (cached)", f1b, V1)):
            arr = np.array([pt[v.name] for v in VV], dtype=float)
            keep = arr.copy()
            got = call(lambda: f(arr))
            judge(f"compiled for the {nm}", e, VV, pt, got, extra)
            if not np.array_equal(arr, keep):
                fails.append(dict(extra, what="the point array was modified by the compiled callable"))
            # same callable: same point twice, then the same array object mutated in place
            got2 = call(lambda: f(arr))
            if got[0] is not None and got2[0] is not None and repr(got[0]) != repr(got2[0]):
                fails.append(dict(extra, what="the same callable returned two different values at one point", got=[got[0], got2[0]]))
            pt2 = gen.rand_point(rng, V3)
            arr[:] = [pt2[v.name] for v in VV]
            judge(f"compiled for the {nm}, array mutated in place", e, VV, pt2, call(lambda: f(arr)), extra)
        # parameters set between calls (incl. 0, 1, sign flips)
        for p in U.params:
            p.set(rng.choice([0.0, 1.0, -float(p.value), rng.dy()]))
        arr = np.array([pt[v.name] for v in V2], dtype=float)
        judge("after Parameter.set between calls", e, V2, pt, call(lambda: f2(arr)), extra)
        judge("evaluate after Parameter.set", e, V2, pt, call(lambda: e.evaluate(dict(pt))), extra)
    # ---- singular → regular → singular on one callable; ±0.0
    a, b = Variable("a"), Variable("b")
    x = VectorVariable("x", 3)
    sing = [("1/a", 1.0 / a + b, {"a": 0.0}), ("log", optyx.log(a) * b, {"a": 0.0}), ("sqrt(neg)", optyx.sqrt(a) + b, {"a": -1.0}),
            ("a**-1", a ** -1.0 - b, {"a": 0.0}), ("b/a", b / a, {"a": 0.0}), ("l2-grad-shape", a / V.L2Norm(x), {"x[0]": 0.0, "x[1]": 0.0, "x[2]": 0.0}),
            ("acosh", optyx.acosh(a) + b, {"a": 0.5}), ("tan-pole", optyx.tan(a) * b, {"a": math.pi / 2})]
    for nm, e, bad in sing:
        VV = gen.expr_vars(e)
        f = C.compile_expression(e, VV)
        for k in range(4 if thorough else 2):
            good = {v.name: rng.choice([0.75, 1.5, 2.25, 3.0]) for v in VV}
            for ptb in (dict(good, **bad), good, dict(good, **bad), good):
                arr = np.array([ptb[v.name] for v in VV], dtype=float)
                got = call(lambda: f(arr))
                if ptb is good:
                    judge(f"regular point after a singular one ({nm})", e, VV, good, got, {"tag": "history:singular"})
    for nm, e in (("a+1", a + 1.0), ("abs", optyx.abs_(a) + b), ("a*b", a * b - b), ("sqrt", optyx.sqrt(a * a) + b), ("dot", x.dot(x) + a),
                  ("l1", V.L1Norm(x) - a), ("sin", optyx.sin(a) + optyx.cos(b))):
        VV = gen.expr_vars(e)
        f = C.compile_expression(e, VV)
        for z in (0.0, -0.0):
            ptz = {v.name: z for v in VV}
            if "b" in ptz:
                ptz["b"] = 1.5
            arr = np.array([ptz[v.name] for v in VV], dtype=float)
            try:
                want = float(oracle.prim(oracle.ref_eval(e, {k: (v + 0.0) for k, v in ptz.items()})))
            except oracle.NotRegular:
                with NoMargin():
                    try:
                        want = float(oracle.prim(oracle.ref_eval(e, ptz)))
                    except oracle.NotRegular:
                        continue
            for what, got in (("compiled", call(lambda: f(arr))), ("evaluate", call(lambda: e.evaluate(dict(ptz))))):
                rep.histogram["history_points"] = rep.histogram.get("history_points", 0) + 1
                if got[0] is None or not same(got[0], want):
                    fails.append({"tag": "history:signed-zero", "what": f"{what} at {z!r} ({nm})", "got": got[0], "want": want,
                                  "history": True})
    # ---- user arrays stay bit-identical (coefficients, matrices, the point)
    cs = np.array([2.0, -1.0, 0.5]); Q = np.array([[1.0, 2.0, 0.0], [0.0, -1.0, 3.0], [2.0, 0.0, 1.0]])
    keep_cs, keep_Q = cs.tobytes(), Q.tobytes()
    es = [V.LinearCombination(cs, x), cs @ x, M.QuadraticForm(x, Q), (Q @ x).sum(), x.dot(Q @ x), V.DotProduct(x, Q @ x)]
    ptx = {x[i].name: [1.5, -2.0, 0.25][i] for i in range(3)}
    for e in es:
        f = C.compile_expression(e, list(x))
        arr = np.array([1.5, -2.0, 0.25])
        f(arr); e.evaluate(dict(ptx)); AD.gradient(e, x[0]); _ = e.degree
        judge("array-backed node", e, list(x), ptx, call(lambda: f(arr)), {"tag": "history:alias"})
        if cs.tobytes() != keep_cs or Q.tobytes() != keep_Q or not np.array_equal(arr, [1.5, -2.0, 0.25]):
            fails.append({"tag": "history:alias", "what": "a user-supplied array was modified", "history": True})
    # ---- lifetime: same-named models dropped and rebuilt, caches never cleared
    for r in range(200 if thorough else 40):
        pv = rng.dy()
        p = Parameter("p", pv)
        y = VectorVariable("y", 3)
        k = rng.choice([1.0, 2.0, -0.5])
        shape = r % 4
        e = [p * y.dot(y) + k, (y ** 2).sum() * p - y[0] * k, p + y[1] * k, V.L2Norm(y + 1.0) * p * k][shape]
        VV = list(y)
        if r % 2:
            VV = VV[::-1]
        pty = gen.rand_point(rng, VV)
        f = C.compile_expression(e, VV)
        judge("rebuilt model with the same names", e, VV, pty, call(lambda: f(np.array([pty[v.name] for v in VV]))), {"tag": "history:lifetime", "round": r})
        if shape == 2:
            f0 = C.compile_expression(p, VV)  # bare Parameter: never shared between same-named parameters
            got = call(lambda: f0(np.array([pty[v.name] for v in VV])))
            if got[0] is None or got[0] != pv:
                fails.append({"tag": "history:lifetime", "what": "compiled bare Parameter returns another parameter's value",
                              "got": got[0], "want": pv, "history": True})
        del e, f, p, y
        if r % 10 == 0:
            gc.collect()
    C._compile_cached.cache_clear()


# ----------------------------------------------------------------------------- recipe oracle (the formula the user WROTE)
#
# Everything above judges the tree that was BUILT (compile vs evaluate vs the model / the reference interpreter, all
# reading the expression object).  A rewrite done by an operator overload or a helper at construction time
# ((e**m)**p -> e**(m*p), --e -> e, e-e -> 0, sqrt(e**2) -> e, constant folding ...) is invisible there: every
# observer sees the rewritten tree.  This section keeps its OWN description of the formula it asks the API to build
# (a recipe: nested tuples) and evaluates it with NumPy float64 operations, together with a running first-order
# bound on the rounding error of that evaluation; the observables of the real code are compared with this value.
#
# recipe ::= ("v", name) | ("c", number, kind) | ("p", name, value_at_build, value_at_call)
#          | ("b", op, recipe, recipe) | ("u", fn, recipe)
#          | ("q", name)                                   a Parameter with a set-history (value looked up at evaluation time)
#          | ("r", kind, elems, aux, form, variant)        a vector / matrix reduction over element recipes (see _red_eval)
# kind of a constant = how it is handed to the API: "raw" (a Python number next to an operator: _ensure_expr /
# reflected operators), "const" (a Constant object), "arr" (vector route: a NumPy array operand).

_U = 2.0 ** -52
_LN2, _LN10 = math.log(2.0), math.log(10.0)
X_, Y_, Z_ = ("v", "x"), ("v", "y"), ("v", "z")


def K(v):
    return ("c", v)


def Bn(op, l, r):
    return ("b", op, l, r)


def Un(fn, a):
    return ("u", fn, a)


# written out by hand: NOT UnaryOp._OPS / BinaryOp._OPS (a changed dispatch table must not move the oracle)
_R_UN = {"neg": np.negative, "abs": np.absolute, "sin": np.sin, "cos": np.cos, "tan": np.tan, "exp": np.exp, "log": np.log,
         "log2": np.log2, "log10": np.log10, "sqrt": np.sqrt, "tanh": np.tanh, "sinh": np.sinh, "cosh": np.cosh,
         "asin": np.arcsin, "acos": np.arccos, "atan": np.arctan, "asinh": np.arcsinh, "acosh": np.arccosh,
         "atanh": np.arctanh}


def _fin(v):
    v = float(v)
    return v if v == v else math.inf


def _un_slope(fn, a, v):
    """|f'(a)| (v = f(a)); inf where the slope is unbounded"""
    if fn in ("neg", "abs"):
        return 1.0
    if fn == "sin": return abs(math.cos(a))
    if fn == "cos": return abs(math.sin(a))
    if fn == "tan": return 1.0 + v * v
    if fn == "exp": return abs(v)
    if fn == "log": return 1.0 / abs(a)
    if fn == "log2": return 1.0 / (abs(a) * _LN2)
    if fn == "log10": return 1.0 / (abs(a) * _LN10)
    if fn == "sqrt": return 0.5 / v
    if fn == "tanh": return abs(1.0 - v * v) + _U
    if fn == "sinh": return math.cosh(a)
    if fn == "cosh": return abs(math.sinh(a))
    if fn in ("asin", "acos"): return 1.0 / math.sqrt(1.0 - a * a)
    if fn == "atan": return 1.0 / (1.0 + a * a)
    if fn == "asinh": return 1.0 / math.sqrt(1.0 + a * a)
    if fn == "acosh": return 1.0 / math.sqrt(a * a - 1.0)
    if fn == "atanh": return 1.0 / abs(1.0 - a * a)
    raise KeyError(fn)


def _un_room(fn, a):
    """distance of the argument from the singular set of fn (the argument's own error must stay below it)"""
    if fn in ("log", "log2", "log10", "sqrt"):
        return abs(a)
    if fn in ("asin", "acos", "atanh"):
        return 1.0 - abs(a)
    if fn == "acosh":
        return a - 1.0
    if fn == "tan":
        return abs(math.cos(a))
    return math.inf


def rec_eval(r, env):
    """(value, bound): NumPy float64 evaluation of the recipe and a first-order running bound on the distance between
    this evaluation and the real-number value of the same formula (inf when an operand cannot be told apart from a
    singular point of the operation or an intermediate result is not finite)"""
    k = r[0]
    if k == "v":
        return np.float64(env[r[1]]), 0.0
    if k == "c":
        v = r[1]
        return (v if isinstance(v, int) and not isinstance(v, bool) else np.float64(v)), 0.0
    if k == "p":
        return np.float64(r[3]), 0.0
    if k == "q":
        return np.float64(env["par:" + r[1]]), 0.0  # a Parameter with a history: its CURRENT value (the caller's own bookkeeping)
    if k == "r":
        return _red_eval(r, env)
    if k == "u":
        a, ea = rec_eval(r[2], env)
        a = np.float64(a)
        v = _R_UN[r[1]](a)
        if not (np.isfinite(a) and np.isfinite(v)):
            return v, math.inf
        af, vf = float(a), float(v)
        if ea == 0.0:
            prop = 0.0
        elif ea >= _un_room(r[1], af):
            return v, math.inf
        else:
            try:
                prop = _un_slope(r[1], af, vf) * ea
            except (ZeroDivisionError, ValueError, OverflowError):
                return v, math.inf
        return v, _fin(prop + (0.0 if r[1] in ("neg", "abs") else 4.0 * _U * abs(vf)))
    op = r[1]
    a, ea = rec_eval(r[2], env)
    b, eb = rec_eval(r[3], env)
    if op == "+":
        v = np.add(a, b)
    elif op == "-":
        v = np.subtract(a, b)
    elif op == "*":
        v = np.multiply(a, b)
    elif op == "/":
        v = np.divide(a, b)
    else:
        v = np.power(a, b)
    af, bf, vf = float(a), float(b), float(v)
    if not (math.isfinite(af) and math.isfinite(bf) and math.isfinite(vf)):
        return v, math.inf
    if op in "+-":
        e = ea + eb
    elif op == "*":
        e = abs(af) * eb + abs(bf) * ea
    elif op == "/":
        if eb >= abs(bf):
            return v, math.inf
        try:
            e = ea / abs(bf) + (abs(af) / abs(bf)) * (eb / abs(bf))
        except (ZeroDivisionError, OverflowError):
            return v, math.inf
    else:
        e = 0.0
        if ea > 0.0:
            if ea >= abs(af) and not (bf == int(bf) and bf >= 1.0):
                return v, math.inf
            try:
                e += abs(bf * float(np.power(np.float64(abs(af)), np.float64(bf - 1.0)))) * ea
            except (ZeroDivisionError, OverflowError):
                return v, math.inf
        if eb > 0.0:
            if af <= 0.0:
                return v, math.inf
            e += abs(vf * math.log(af)) * eb
    try:
        return v, _fin(e + 2.0 * _U * abs(vf))
    except OverflowError:
        return v, math.inf


def _red_eval(r, env):
    """(value, bound) of a reduction node ("r", kind, elems, aux, form, variant): the elements are recipes (Parameters,
    constants, variable-free compounds, variables), evaluated first; the reduction itself is ONE NumPy call on the array of
    element values — np.sum, np.dot, np.linalg.norm, v @ Q @ v, np.sum(A @ v) — never optyx code.
      kind  aux                                       value
      sum   None                                      Σ vᵢ            (also "msum": the elements laid out as a matrix)
      lc    coefficient tuple c                       c · v
      dot   (elems2, form2)                           v · w
      l2 / l1  None                                   ‖v‖₂ / ‖v‖₁
      qf    matrix rows Q                             vᵀ Q v
      mvsum matrix rows A                             Σ (A v)"""
    kind, elems, aux = r[1], r[2], r[3]
    pairs = [rec_eval(el, env) for el in elems]
    v = np.array([float(p[0]) for p in pairs], dtype=np.float64)
    e = np.array([p[1] for p in pairs], dtype=np.float64)
    n = len(v)
    if not (np.all(np.isfinite(v)) and np.all(np.isfinite(e))):
        return np.float64("nan"), math.inf
    av = np.abs(v)
    with np.errstate(all="ignore"):
        if kind in ("sum", "msum"):
            val, err = np.sum(v), float(e.sum()) + (n + 1) * _U * float(av.sum())
        elif kind == "lc":
            c = np.array([float(x) for x in aux], dtype=np.float64)
            val = np.dot(c, v)
            err = float(np.dot(np.abs(c), e)) + (n + 2) * _U * float(np.dot(np.abs(c), av))
        elif kind == "dot":
            pairs2 = [rec_eval(el, env) for el in aux[0]]
            w = np.array([float(p[0]) for p in pairs2], dtype=np.float64)
            ew = np.array([p[1] for p in pairs2], dtype=np.float64)
            if not (np.all(np.isfinite(w)) and np.all(np.isfinite(ew))):
                return np.float64("nan"), math.inf
            val = np.dot(v, w)
            err = float(np.dot(av, ew) + np.dot(np.abs(w), e)) + (n + 2) * _U * float(np.dot(av, np.abs(w)))
        elif kind == "l2":
            val = np.linalg.norm(v)
            if float(val) == 0.0:
                err = math.inf if float(e.sum()) > 0.0 else 0.0
            else:
                err = float(np.dot(av, e)) / float(val) + (n + 4) * _U * float(val)
        elif kind == "l1":
            val, err = np.sum(av), float(e.sum()) + (n + 1) * _U * float(av.sum())
        elif kind == "qf":
            Q = np.array([[float(x) for x in row] for row in aux], dtype=np.float64)
            val = v @ Q @ v
            aQ = np.abs(Q)
            err = float(av @ aQ @ e + e @ aQ @ av) + (2 * n + 4) * _U * float(av @ aQ @ av)
        elif kind == "mvsum":
            A = np.array([[float(x) for x in row] for row in aux], dtype=np.float64)
            val = np.sum(A @ v)
            aA = np.abs(A)
            err = float(np.sum(aA @ e)) + (n + A.shape[0] + 4) * _U * float(np.sum(aA @ av))
        else:
            raise KeyError(kind)
    if not (math.isfinite(float(val)) and math.isfinite(err)):
        return val, math.inf
    return val, _fin(err)


def _red_text(r):
    kind, elems, aux = r[1], r[2], r[3]
    vec = "[" + ", ".join(rec_text(el) for el in elems) + "]"
    if kind == "sum":
        return f"sum({vec})"
    if kind == "msum":
        return f"MatrixSum({vec} as {aux[0]}x{aux[1]})"
    if kind == "lc":
        return f"array({[float(x) for x in aux]}) @ {vec}"
    if kind == "dot":
        return f"dot({vec}, [" + ", ".join(rec_text(el) for el in aux[0]) + "])"
    if kind == "l2":
        return f"norm({vec})"
    if kind == "l1":
        return f"norm({vec}, 1)"
    if kind == "qf":
        return f"quadratic_form({vec}, {[[float(x) for x in row] for row in aux]})"
    if kind == "mvsum":
        return f"sum(array({[[float(x) for x in row] for row in aux]}) @ {vec})"
    return f"{kind}({vec})"


_PREC = {"+": 1, "-": 1, "*": 2, "/": 2, "**": 3}


def rec_text(r):
    """the formula as the user would type it"""
    k = r[0]
    if k == "v":
        return r[1]
    if k == "c":
        v = r[1]
        s = repr(v)
        if len(r) > 2 and r[2] == "const":
            s = f"Constant({s})"
        elif len(r) > 2 and r[2] == "arr":
            s = f"array({s})"
        return f"({s})" if (isinstance(v, (int, float)) and v < 0 and "(" not in s) else s
    if k == "p":
        return f"{r[1]}[={r[3]!r}, was {r[2]!r} when built]"
    if k == "q":
        return r[1]
    if k == "r":
        return _red_text(r)
    if k == "u":
        return ("-(" + rec_text(r[2]) + ")") if r[1] == "neg" else f"{r[1]}({rec_text(r[2])})"
    return "(" + rec_text(r[2]) + f" {r[1]} " + rec_text(r[3]) + ")"


def rec_resolve(r, rng, style):
    """fix how every constant is handed to the API and its numeric type (integer-valued numbers as int or float);
    a constant under a unary function, or next to another constant, must be a Constant object (two raw Python numbers
    would be folded by Python itself, not by optyx)"""

    def numtype(v):
        if isinstance(v, int) and rng.random() < 0.4:
            return float(v)
        return v

    def go(n, force_const):
        k = n[0]
        if k == "c":
            if len(n) > 2:
                return tuple(n)
            kind = "const" if force_const else (style if style in ("raw", "const") else
                                                rng.choice(["raw", "const", "arr"] if style == "mixed-vec" else ["raw", "const"]))
            return ("c", numtype(n[1]), kind)
        if k in ("v", "p"):
            return tuple(n)
        if k == "u":
            return ("u", n[1], go(n[2], True))
        lc, rc = n[2][0] in ("c", "p"), n[3][0] in ("c", "p")
        both = lc and rc
        return ("b", n[1], go(n[2], both), go(n[3], both))

    return go(r, True)


def _py_op(op, a, b):
    if op == "+": return a + b
    if op == "-": return a - b
    if op == "*": return a * b
    if op == "/": return a / b
    return a ** b


def _fn(fn):
    import optyx

    return optyx.abs_ if fn == "abs" else getattr(optyx, fn)


class RecipeBuilder:
    """asks the public API for the recipe: scalar route (operators / optyx.<fn> on Expression objects, or the node
    constructors directly), vector route (operators / functions on VectorVariable, views, VectorExpression; what the
    vector API does not take — Parameter or Constant operands, number ** vector, functions without a vector form — is
    applied element by element with the scalar operators, as a user has to)"""

    def __init__(self, node=False, share=True):
        self.node, self.share = node, share
        self.params = {}
        self.memo = {}
        self.qpool = {}  # name -> Parameter object (scalar Parameter or VectorParameter element) of the ("q", name) leaves

    def param(self, r):
        from optyx import Parameter

        key = (r[1], r[2], r[3])
        if key not in self.params:
            self.params[key] = Parameter(r[1], r[2])
        return self.params[key]

    def set_call_values(self):
        for (nm, v0, v1), p in self.params.items():
            p.set(v1)

    def call_values(self):
        return {nm: v1 for (nm, v0, v1) in self.params}

    # ---- scalar route
    def scalar(self, r, leaves):
        from optyx.core.expressions import BinaryOp, Constant, UnaryOp, _ensure_expr

        key = None
        if self.share and r[0] in ("b", "u", "r"):
            key = repr(r)
            if key in self.memo:
                return self.memo[key]
        k = r[0]
        if k == "v":
            out = leaves[r[1]]
        elif k == "c":
            out = Constant(r[1]) if r[2] == "const" else r[1]
        elif k == "p":
            out = self.param(r)
        elif k == "q":
            out = self.qpool[r[1]]
        elif k == "r":
            out = self.reduction(r, leaves)
        elif k == "u":
            a = self.scalar(r[2], leaves)
            if self.node:
                out = UnaryOp(_ensure_expr(a), r[1])
            else:
                out = -a if r[1] == "neg" else _fn(r[1])(a)
        else:
            a, b = self.scalar(r[2], leaves), self.scalar(r[3], leaves)
            if self.node:
                out = BinaryOp(_ensure_expr(a), _ensure_expr(b), r[1])
            else:
                out = _py_op(r[1], a, b)
        if key is not None:
            self.memo[key] = out
        return out

    # ---- reductions over element recipes ("r" nodes)
    def vec_of(self, elems, form, leaves):
        """the vector operand of a reduction.  form "ve": VectorExpression([element, ...]) with every element built on the
        scalar route (`VectorExpression(list(prices))`); "vv:<name>": the VectorVariable / view `leaves["vec:<name>"]`, whose
        elements are the ("v", …) recipes; "vecop": the vector API applied to whole vectors when all elements have one shape
        (`pvec * k`, `k - pvec`, `-pvec`, `pvec + cvec`, `pvec * uvec`) — otherwise element by element"""
        from optyx.core.expressions import _ensure_expr
        from optyx.core import vectors as V

        if isinstance(form, str) and form.startswith("vv:"):
            return leaves["vec:" + form[3:]]
        if form == "vecop":
            f0 = elems[0]
            if f0[0] == "u" and all(el[0] == "u" and el[1] == "neg" for el in elems):
                return -self.vec_of(tuple(el[2] for el in elems), "ve", leaves)
            if f0[0] == "b" and all(el[0] == "b" and el[1] == f0[1] for el in elems):
                op = f0[1]
                ls, rs = tuple(el[2] for el in elems), tuple(el[3] for el in elems)
                lconst = all(tuple(x) == tuple(ls[0]) and x[0] == "c" and x[2] == "raw" for x in ls)
                rconst = all(tuple(x) == tuple(rs[0]) and x[0] == "c" and x[2] == "raw" for x in rs)
                lvec = not any(x[0] == "c" for x in ls)
                rvec = not any(x[0] == "c" for x in rs)
                if rconst and lvec:
                    return _py_op(op, self.vec_of(ls, "ve", leaves), rs[0][1])
                if lconst and rvec and op != "**":
                    return _py_op(op, ls[0][1], self.vec_of(rs, "ve", leaves))
                if lvec and rvec and op in ("+", "-", "*"):
                    return _py_op(op, self.vec_of(ls, "ve", leaves), self.vec_of(rs, "ve", leaves))
        return V.VectorExpression([_ensure_expr(self.scalar(el, leaves)) for el in elems])

    def reduction(self, r, leaves):
        """the reduction node through the public API; `variant` picks the spelling (operator / method / helper / constructor)"""
        from optyx.core.expressions import _ensure_expr
        from optyx.core import vectors as V
        from optyx.core import matrices as M

        kind, elems, aux = r[1], r[2], r[3]
        form = r[4] if len(r) > 4 else "ve"
        variant = int(r[5]) if len(r) > 5 else 0
        if kind == "msum":
            rows, cols = int(aux[0]), int(aux[1])
            ex = [_ensure_expr(self.scalar(el, leaves)) for el in elems]
            mat = M.MatrixExpression([ex[i * cols:(i + 1) * cols] for i in range(rows)])
            return mat.sum() if variant % 2 == 0 else M.MatrixSum(mat)
        vec = self.vec_of(elems, form, leaves)
        if kind == "sum":
            if variant % 3 == 2 and isinstance(vec, V.VectorExpression):
                return V.vector_sum(vec)  # the helper: a chain of scalar additions
            if variant % 3 == 1 and isinstance(vec, V.VectorExpression):
                return V.VectorExpressionSum(vec)
            return vec.sum()
        if kind == "lc":
            c = np.array([float(x) for x in aux])
            return [lambda: c @ vec, lambda: vec @ c, lambda: V.LinearCombination(c, vec), lambda: vec @ [float(x) for x in c]][variant % 4]()
        if kind == "dot":
            same_operand = repr(_tuplify(aux[0])) == repr(_tuplify(elems)) and aux[1] == form
            other = vec if same_operand else self.vec_of(aux[0], aux[1], leaves)  # v·v: one operand OBJECT on both sides
            return [lambda: vec.dot(other), lambda: vec @ other, lambda: V.DotProduct(vec, other)][variant % 3]()
        if kind == "l2":
            return V.norm(vec) if variant % 2 == 0 else V.L2Norm(vec)
        if kind == "l1":
            return V.norm(vec, 1) if variant % 2 == 0 else V.L1Norm(vec)
        if kind == "qf":
            Q = np.array([[float(x) for x in row] for row in aux])
            return M.quadratic_form(vec, Q) if variant % 2 == 0 else M.QuadraticForm(vec, Q)
        if kind == "mvsum":
            A = np.array([[float(x) for x in row] for row in aux])
            return (M.matmul(A, vec) if variant % 2 == 0 else M.MatrixVectorProduct(A, vec)).sum()
        raise KeyError(kind)

    # ---- vector route: returns a vector-like object, or ("s", scalar operand)
    def vector(self, r, leaves, n):
        from optyx.core.expressions import Constant
        from optyx.core import vectors as V

        def norm(v):
            return V.VectorExpression(list(v)) if isinstance(v, (V.ElementwisePower, V.ElementwiseUnary)) else v

        def each(f, v):
            return V.VectorExpression([f(el) for el in list(v)])

        key = None
        if self.share and r[0] in ("b", "u"):
            key = repr(r)
            if key in self.memo:
                return self.memo[key]
        k = r[0]
        if k == "v":
            out = leaves[r[1]]
        elif k == "c":
            out = ("s", r[1], r[2])
        elif k == "p":
            out = ("s", self.param(r), "expr")
        elif k == "u":
            a = self.vector(r[2], leaves, n)
            if isinstance(a, tuple):
                s = a[1]
                if a[2] != "expr":
                    s = Constant(s)
                out = ("s", -s if r[1] == "neg" else _fn(r[1])(s), "expr")
            elif r[1] == "neg":
                out = -norm(a)
            elif r[1] in V.ElementwiseUnary._NUMPY_FUNCS:
                out = _fn(r[1])(norm(a))
            else:
                out = each(_fn(r[1]), a)
        else:
            op = r[1]
            a, b = self.vector(r[2], leaves, n), self.vector(r[3], leaves, n)
            sa, sb = isinstance(a, tuple), isinstance(b, tuple)
            if sa and sb:
                x, y = (Constant(a[1]) if a[2] != "expr" else a[1]), (Constant(b[1]) if b[2] != "expr" else b[1])
                out = ("s", _py_op(op, x, y), "expr")
            elif not sa and not sb:
                a, b = norm(a), norm(b)
                if op == "**" and isinstance(a, V.VectorVariable):
                    a = V.VectorExpression(list(a))
                out = _py_op(op, a, b)
            elif sb:
                a = norm(a)
                c, kind = b[1], b[2]
                if kind == "raw":
                    out = _py_op(op, a, c)
                elif kind == "arr":
                    if op == "**" and isinstance(a, V.VectorVariable):
                        a = V.VectorExpression(list(a))
                    out = _py_op(op, a, np.array([c] * n))
                else:
                    cc = Constant(c) if kind == "const" else c
                    out = each(lambda el: _py_op(op, el, cc), a)
            else:
                b = norm(b)
                c, kind = a[1], a[2]
                if kind == "raw" and op != "**":
                    out = _py_op(op, c, b)
                elif kind == "arr" and op in ("-", "/") and isinstance(b, (V.VectorVariable, V.VectorExpression)):
                    out = _py_op(op, np.array([c] * n), b) if isinstance(b, V.VectorVariable) else _py_op(op, [c] * n, b)
                else:
                    cc = c if kind in ("raw", "expr") else Constant(c)
                    out = each(lambda el: _py_op(op, cc, el), b)
        if key is not None:
            self.memo[key] = out
        return out


# ---- the families: every place where a "simplifying" constructor could bite

_INV_PAIRS = [("exp", "log"), ("log", "exp"), ("sin", "asin"), ("asin", "sin"), ("cos", "acos"), ("acos", "cos"), ("tan", "atan"),
              ("atan", "tan"), ("sinh", "asinh"), ("asinh", "sinh"), ("cosh", "acosh"), ("acosh", "cosh"), ("tanh", "atanh"),
              ("atanh", "tanh"), ("log2", "exp2"), ("exp2", "log2"), ("log10", "exp10"), ("exp10", "log10"), ("sqrt", "sq"),
              ("sq", "sqrt"), ("abs", "abs"), ("neg", "neg"), ("abs", "neg"), ("neg", "abs"), ("abs", "sq"), ("abs", "exp"),
              ("abs", "cosh"), ("abs", "sqrt"), ("sqrt", "abs"), ("sqrt", "exp"), ("log", "abs"), ("log", "sq"), ("log", "sqrt"),
              ("exp", "neg"), ("sin", "neg"), ("cos", "neg"), ("tan", "neg"), ("sinh", "neg"), ("cosh", "neg"), ("tanh", "neg"),
              ("asin", "neg"), ("atan", "neg"), ("asinh", "neg"), ("sin", "abs"), ("cos", "abs"), ("cosh", "abs"), ("abs", "sin"),
              ("abs", "cube"), ("cube", "abs"), ("sq", "abs"), ("sq", "neg"), ("cube", "neg"), ("sqrt", "quart"), ("cbrt", "cube"),
              ("cube", "cbrt"), ("recip", "recip"), ("recip", "neg"), ("recip", "abs"), ("recip", "exp"), ("log", "recip"),
              ("sqrt", "recip"), ("recip", "sqrt")]


def _ap(f, e):
    """pseudo-functions of the pair table written with the operators"""
    if f == "exp2": return Bn("**", K(2), e)
    if f == "exp10": return Bn("**", K(10), e)
    if f == "sq": return Bn("**", e, K(2))
    if f == "cube": return Bn("**", e, K(3))
    if f == "quart": return Bn("**", e, K(4))
    if f == "cbrt": return Bn("**", e, K(1.0 / 3.0))
    if f == "recip": return Bn("/", K(1), e)
    return Un(f, e)


_POW_INNER = [2, 4, -2, 3, -1, -3, 0.5, 1.5, 6, 0, 1, -4]
_POW_OUTER = [0.5, 1.5, 0.25, 2, 3, -1, -0.5, -2, 1.0 / 3.0, 0, 1, 2.5]
_CS = [2, 3, 0.5, -1, -2, 1.5, 4, 0.25, -0.5, -3, 1.25, 1, 0]


def recipe_templates():
    """(family, name, f(E, F, c1, c2) -> recipe)"""
    T = []

    def t(fam, name, f):
        T.append((fam, name, f))

    for m in _POW_INNER:
        for p in _POW_OUTER:
            t("pow", f"(E**{m})**{p:.3g}", lambda E, F, c1, c2, m=m, p=p: Bn("**", Bn("**", E, K(m)), K(p)))
    t("pow", "((E**c1)**c2)**c1", lambda E, F, c1, c2: Bn("**", Bn("**", Bn("**", E, K(2)), K(0.5)), K(3)))
    t("pow", "((E**2)**0.25)**2", lambda E, F, c1, c2: Bn("**", Bn("**", Bn("**", E, K(2)), K(0.25)), K(2)))
    t("pow", "(E**2)**F", lambda E, F, c1, c2: Bn("**", Bn("**", E, K(2)), F))
    t("pow", "(E**2)**(F*0.5)", lambda E, F, c1, c2: Bn("**", Bn("**", E, K(2)), Bn("*", F, K(0.5))))
    t("pow", "(E**F)**2", lambda E, F, c1, c2: Bn("**", Bn("**", E, F), K(2)))
    t("pow", "(E*E)**0.5", lambda E, F, c1, c2: Bn("**", Bn("*", E, E), K(0.5)))
    t("pow", "(E*E)**1.5", lambda E, F, c1, c2: Bn("**", Bn("*", E, E), K(1.5)))
    t("pow", "(E**2*F**2)**0.5", lambda E, F, c1, c2: Bn("**", Bn("*", Bn("**", E, K(2)), Bn("**", F, K(2))), K(0.5)))
    t("pow", "(E*F)**0.5", lambda E, F, c1, c2: Bn("**", Bn("*", E, F), K(0.5)))
    t("pow", "(E/F)**0.5", lambda E, F, c1, c2: Bn("**", Bn("/", E, F), K(0.5)))
    t("pow", "(E*F)**c", lambda E, F, c1, c2: Bn("**", Bn("*", E, F), K(c1)))
    t("pow", "(E/F)**c", lambda E, F, c1, c2: Bn("**", Bn("/", E, F), K(c1)))
    t("pow", "(E*c1)**c2", lambda E, F, c1, c2: Bn("**", Bn("*", E, K(c1)), K(c2)))
    t("pow", "(E/c1)**c2", lambda E, F, c1, c2: Bn("**", Bn("/", E, K(c1 or 2)), K(c2)))
    t("pow", "(c1/E)**c2", lambda E, F, c1, c2: Bn("**", Bn("/", K(c1), E), K(c2)))
    t("pow", "(-E)**c", lambda E, F, c1, c2: Bn("**", Un("neg", E), K(c1)))
    t("pow", "(-E)**2", lambda E, F, c1, c2: Bn("**", Un("neg", E), K(2)))
    t("pow", "(-E)**3", lambda E, F, c1, c2: Bn("**", Un("neg", E), K(3)))
    t("pow", "(-E)**0.5", lambda E, F, c1, c2: Bn("**", Un("neg", E), K(0.5)))
    t("pow", "abs(E)**c", lambda E, F, c1, c2: Bn("**", Un("abs", E), K(c1)))
    t("pow", "E**c1*E**c2", lambda E, F, c1, c2: Bn("*", Bn("**", E, K(c1)), Bn("**", E, K(c2))))
    t("pow", "E**c1/E**c2", lambda E, F, c1, c2: Bn("/", Bn("**", E, K(c1)), Bn("**", E, K(c2))))
    t("pow", "E**0.5*E**0.5", lambda E, F, c1, c2: Bn("*", Bn("**", E, K(0.5)), Bn("**", E, K(0.5))))
    t("pow", "E**c*F**c", lambda E, F, c1, c2: Bn("*", Bn("**", E, K(c1)), Bn("**", F, K(c1))))
    t("pow", "E**c*E", lambda E, F, c1, c2: Bn("*", Bn("**", E, K(c1)), E))
    t("pow", "E**2/E", lambda E, F, c1, c2: Bn("/", Bn("**", E, K(2)), E))
    t("pow", "(c1**E)**c2", lambda E, F, c1, c2: Bn("**", Bn("**", K(abs(c1) + 0.5), E), K(c2)))
    t("pow", "c**E*c**F", lambda E, F, c1, c2: Bn("*", Bn("**", K(abs(c1) + 0.5), E), Bn("**", K(abs(c1) + 0.5), F)))
    t("pow", "c1**E*c2**E", lambda E, F, c1, c2: Bn("*", Bn("**", K(abs(c1) + 0.5), E), Bn("**", K(abs(c2) + 0.5), E)))
    t("pow", "c1**(E+c2)", lambda E, F, c1, c2: Bn("**", K(abs(c1) + 0.5), Bn("+", E, K(c2))))
    t("pow", "E**(c1+c2)", lambda E, F, c1, c2: Bn("**", E, Bn("+", K(abs(c1)), K(abs(c2)))))
    t("pow", "E**(c-c)", lambda E, F, c1, c2: Bn("**", E, Bn("-", K(c1), K(c1))))
    t("pow", "0**E", lambda E, F, c1, c2: Bn("**", K(0), E))
    t("pow", "1**E", lambda E, F, c1, c2: Bn("**", K(1), E))
    t("pow", "0.0**(E*E)", lambda E, F, c1, c2: Bn("**", K(0.0), Bn("*", E, E)))
    # neutral / absorbing elements, both operand positions
    for nm, f in [("E+0", lambda E: Bn("+", E, K(0))), ("0+E", lambda E: Bn("+", K(0), E)), ("E-0", lambda E: Bn("-", E, K(0))),
                  ("0-E", lambda E: Bn("-", K(0), E)), ("E*1", lambda E: Bn("*", E, K(1))), ("1*E", lambda E: Bn("*", K(1), E)),
                  ("E*0", lambda E: Bn("*", E, K(0))), ("0*E", lambda E: Bn("*", K(0), E)), ("E/1", lambda E: Bn("/", E, K(1))),
                  ("0/E", lambda E: Bn("/", K(0), E)), ("1/E", lambda E: Bn("/", K(1), E)), ("E**1", lambda E: Bn("**", E, K(1))),
                  ("E**0", lambda E: Bn("**", E, K(0))), ("E*-1", lambda E: Bn("*", E, K(-1))), ("-1*E", lambda E: Bn("*", K(-1), E)),
                  ("E/-1", lambda E: Bn("/", E, K(-1))), ("E**-1", lambda E: Bn("**", E, K(-1))), ("E*2", lambda E: Bn("*", E, K(2))),
                  ("E/2", lambda E: Bn("/", E, K(2))), ("E**0.5", lambda E: Bn("**", E, K(0.5))), ("E**2", lambda E: Bn("**", E, K(2)))]:
        t("neutral", nm, lambda E, F, c1, c2, f=f: f(E))
        t("neutral", nm + "+F", lambda E, F, c1, c2, f=f: Bn("+", f(E), F))
        t("neutral", "F*(" + nm + ")", lambda E, F, c1, c2, f=f: Bn("*", F, f(E)))
    # the same operand twice
    t("self", "E-E", lambda E, F, c1, c2: Bn("-", E, E))
    t("self", "E+E", lambda E, F, c1, c2: Bn("+", E, E))
    t("self", "E/E", lambda E, F, c1, c2: Bn("/", E, E))
    t("self", "E*E", lambda E, F, c1, c2: Bn("*", E, E))
    t("self", "E**E", lambda E, F, c1, c2: Bn("**", E, E))
    t("self", "E*(1/E)", lambda E, F, c1, c2: Bn("*", E, Bn("/", K(1), E)))
    t("self", "E-E+F", lambda E, F, c1, c2: Bn("+", Bn("-", E, E), F))
    t("self", "F*(E/E)", lambda E, F, c1, c2: Bn("*", F, Bn("/", E, E)))
    t("self", "(E+F)-E", lambda E, F, c1, c2: Bn("-", Bn("+", E, F), E))
    t("self", "(E+F)-F", lambda E, F, c1, c2: Bn("-", Bn("+", E, F), F))
    t("self", "(E-F)+F", lambda E, F, c1, c2: Bn("+", Bn("-", E, F), F))
    t("self", "E-(E-F)", lambda E, F, c1, c2: Bn("-", E, Bn("-", E, F)))
    t("self", "E-(F-E)", lambda E, F, c1, c2: Bn("-", E, Bn("-", F, E)))
    t("self", "(E*F)/F", lambda E, F, c1, c2: Bn("/", Bn("*", E, F), F))
    t("self", "(E*F)/E", lambda E, F, c1, c2: Bn("/", Bn("*", E, F), E))
    t("self", "(E/F)*F", lambda E, F, c1, c2: Bn("*", Bn("/", E, F), F))
    t("self", "E/(E*F)", lambda E, F, c1, c2: Bn("/", E, Bn("*", E, F)))
    t("self", "E/(E/F)", lambda E, F, c1, c2: Bn("/", E, Bn("/", E, F)))
    t("self", "E*c1+E*c2", lambda E, F, c1, c2: Bn("+", Bn("*", E, K(c1)), Bn("*", E, K(c2))))
    t("self", "E*c1-E*c1", lambda E, F, c1, c2: Bn("-", Bn("*", E, K(c1)), Bn("*", E, K(c1))))
    t("self", "E*c-F*c", lambda E, F, c1, c2: Bn("-", Bn("*", E, K(c1)), Bn("*", F, K(c1))))
    t("self", "E*F-F*E", lambda E, F, c1, c2: Bn("-", Bn("*", E, F), Bn("*", F, E)))
    t("self", "E/abs(E)", lambda E, F, c1, c2: Bn("/", E, Un("abs", E)))
    t("self", "abs(E)/E", lambda E, F, c1, c2: Bn("/", Un("abs", E), E))
    t("self", "E/sqrt(E)", lambda E, F, c1, c2: Bn("/", E, Un("sqrt", E)))
    t("self", "sqrt(E)*sqrt(E)", lambda E, F, c1, c2: Bn("*", Un("sqrt", E), Un("sqrt", E)))
    t("self", "abs(E)*abs(E)", lambda E, F, c1, c2: Bn("*", Un("abs", E), Un("abs", E)))
    t("self", "E*abs(E)", lambda E, F, c1, c2: Bn("*", E, Un("abs", E)))
    # signs
    t("neg", "-(-E)", lambda E, F, c1, c2: Un("neg", Un("neg", E)))
    t("neg", "-(-(-E))", lambda E, F, c1, c2: Un("neg", Un("neg", Un("neg", E))))
    t("neg", "-(E-F)", lambda E, F, c1, c2: Un("neg", Bn("-", E, F)))
    t("neg", "E-(-F)", lambda E, F, c1, c2: Bn("-", E, Un("neg", F)))
    t("neg", "E+(-F)", lambda E, F, c1, c2: Bn("+", E, Un("neg", F)))
    t("neg", "(-E)+F", lambda E, F, c1, c2: Bn("+", Un("neg", E), F))
    t("neg", "(-E)-F", lambda E, F, c1, c2: Bn("-", Un("neg", E), F))
    t("neg", "(-E)+E", lambda E, F, c1, c2: Bn("+", Un("neg", E), E))
    t("neg", "(-E)*(-F)", lambda E, F, c1, c2: Bn("*", Un("neg", E), Un("neg", F)))
    t("neg", "(-E)*F", lambda E, F, c1, c2: Bn("*", Un("neg", E), F))
    t("neg", "(-E)/(-F)", lambda E, F, c1, c2: Bn("/", Un("neg", E), Un("neg", F)))
    t("neg", "E/(-F)", lambda E, F, c1, c2: Bn("/", E, Un("neg", F)))
    t("neg", "-(E*c)", lambda E, F, c1, c2: Un("neg", Bn("*", E, K(c1))))
    t("neg", "(-E)*c", lambda E, F, c1, c2: Bn("*", Un("neg", E), K(c1)))
    t("neg", "c-(-E)", lambda E, F, c1, c2: Bn("-", K(c1), Un("neg", E)))
    t("neg", "-(c-E)", lambda E, F, c1, c2: Un("neg", Bn("-", K(c1), E)))
    t("neg", "-(c/E)", lambda E, F, c1, c2: Un("neg", Bn("/", K(c1), E)))
    t("neg", "0-(0-E)", lambda E, F, c1, c2: Bn("-", K(0), Bn("-", K(0), E)))
    t("neg", "-abs(E)", lambda E, F, c1, c2: Un("neg", Un("abs", E)))
    t("neg", "-(E**2)", lambda E, F, c1, c2: Un("neg", Bn("**", E, K(2))))
    t("neg", "-(E**c)", lambda E, F, c1, c2: Un("neg", Bn("**", E, K(c1))))
    # constant folding through nested operators, constant in either position
    folds = {
        "(E*c1)*c2": lambda E, a, b: Bn("*", Bn("*", E, a), b), "c1*(c2*E)": lambda E, a, b: Bn("*", a, Bn("*", b, E)),
        "(c1*E)*c2": lambda E, a, b: Bn("*", Bn("*", a, E), b), "c1*(E*c2)": lambda E, a, b: Bn("*", a, Bn("*", E, b)),
        "(E+c1)+c2": lambda E, a, b: Bn("+", Bn("+", E, a), b), "c1+(c2+E)": lambda E, a, b: Bn("+", a, Bn("+", b, E)),
        "(c1+E)+c2": lambda E, a, b: Bn("+", Bn("+", a, E), b), "(E-c1)-c2": lambda E, a, b: Bn("-", Bn("-", E, a), b),
        "c1-(c2-E)": lambda E, a, b: Bn("-", a, Bn("-", b, E)), "(c1-E)-c2": lambda E, a, b: Bn("-", Bn("-", a, E), b),
        "c1-(E-c2)": lambda E, a, b: Bn("-", a, Bn("-", E, b)), "(E-c1)+c2": lambda E, a, b: Bn("+", Bn("-", E, a), b),
        "(E+c1)-c2": lambda E, a, b: Bn("-", Bn("+", E, a), b), "c1+(E-c2)": lambda E, a, b: Bn("+", a, Bn("-", E, b)),
        "c1-(E+c2)": lambda E, a, b: Bn("-", a, Bn("+", E, b)), "c1+(c2-E)": lambda E, a, b: Bn("+", a, Bn("-", b, E)),
        "(E/c1)/c2": lambda E, a, b: Bn("/", Bn("/", E, a), b), "c1/(c2/E)": lambda E, a, b: Bn("/", a, Bn("/", b, E)),
        "(c1/E)/c2": lambda E, a, b: Bn("/", Bn("/", a, E), b), "c1/(E/c2)": lambda E, a, b: Bn("/", a, Bn("/", E, b)),
        "(E*c1)/c2": lambda E, a, b: Bn("/", Bn("*", E, a), b), "(E/c1)*c2": lambda E, a, b: Bn("*", Bn("/", E, a), b),
        "c1/(E*c2)": lambda E, a, b: Bn("/", a, Bn("*", E, b)), "c1*(c2/E)": lambda E, a, b: Bn("*", a, Bn("/", b, E)),
        "(E+c1)*c2": lambda E, a, b: Bn("*", Bn("+", E, a), b), "c1*(E-c2)": lambda E, a, b: Bn("*", a, Bn("-", E, b)),
        "(c1-E)*c2": lambda E, a, b: Bn("*", Bn("-", a, E), b), "(E*c1)+c2": lambda E, a, b: Bn("+", Bn("*", E, a), b),
        "(E+c1)/c2": lambda E, a, b: Bn("/", Bn("+", E, a), b), "c1-(c2*E)": lambda E, a, b: Bn("-", a, Bn("*", b, E)),
        "(c1-E)/c2": lambda E, a, b: Bn("/", Bn("-", a, E), b), "-(E+c1)+c2": lambda E, a, b: Bn("+", Un("neg", Bn("+", E, a)), b),
    }
    for nm, f in folds.items():
        def mk(E, F, c1, c2, f=f, nm=nm):
            a, b = c1, c2
            if "/c1" in nm and a == 0:
                a = 2
            if "/c2" in nm and b == 0:
                b = 4
            return f(E, K(a), K(b))
        t("fold", nm, mk)
        t("fold", nm + ":param", lambda E, F, c1, c2, f=f: f(E, ("p", "p", float(c1 if c1 else 1), 2.5), K(c2 if c2 else 4)))
    t("fold", "(E*p)*1", lambda E, F, c1, c2: Bn("*", Bn("*", E, ("p", "p", 1.0, -1.5)), K(1)))
    t("fold", "E*p1", lambda E, F, c1, c2: Bn("*", E, ("p", "p", 1.0, 3.0)))
    t("fold", "E*p0", lambda E, F, c1, c2: Bn("*", E, ("p", "p", 0.0, 2.0)))
    t("fold", "E+p0", lambda E, F, c1, c2: Bn("+", E, ("p", "p", 0.0, -1.25)))
    t("fold", "E**p1", lambda E, F, c1, c2: Bn("**", E, ("p", "p", 1.0, 2.0)))
    t("fold", "E**p0", lambda E, F, c1, c2: Bn("**", E, ("p", "p", 0.0, 3.0)))
    t("fold", "(E**2)**p", lambda E, F, c1, c2: Bn("**", Bn("**", E, K(2)), ("p", "p", 2.0, 0.5)))
    t("fold", "(E**p)**0.5", lambda E, F, c1, c2: Bn("**", Bn("**", E, ("p", "p", 1.0, 2.0)), K(0.5)))
    t("fold", "p/E", lambda E, F, c1, c2: Bn("/", ("p", "p", 0.0, 1.5), E))
    t("fold", "E/p1", lambda E, F, c1, c2: Bn("/", E, ("p", "p", 1.0, -2.0)))
    t("fold", "p-E", lambda E, F, c1, c2: Bn("-", ("p", "p", 0.0, 0.75), E))
    t("fold", "p**E", lambda E, F, c1, c2: Bn("**", ("p", "p", 1.0, 2.0), E))
    t("fold", "sqrt(E**p)", lambda E, F, c1, c2: Un("sqrt", Bn("**", E, ("p", "p", 4.0, 2.0))))
    # function after function
    for f, g in _INV_PAIRS:
        t("compose", f"{f}({g}(E))", lambda E, F, c1, c2, f=f, g=g: _ap(f, _ap(g, E)))
    # laws of log / exp / sqrt / abs over products and quotients
    t("law", "log(E*F)", lambda E, F, c1, c2: Un("log", Bn("*", E, F)))
    t("law", "log(E/F)", lambda E, F, c1, c2: Un("log", Bn("/", E, F)))
    t("law", "log(E**c)", lambda E, F, c1, c2: Un("log", Bn("**", E, K(c1))))
    t("law", "log(E**2)/2", lambda E, F, c1, c2: Bn("/", Un("log", Bn("**", E, K(2))), K(2)))
    t("law", "log(E)+log(F)", lambda E, F, c1, c2: Bn("+", Un("log", E), Un("log", F)))
    t("law", "log(E)-log(F)", lambda E, F, c1, c2: Bn("-", Un("log", E), Un("log", F)))
    t("law", "c*log(E)", lambda E, F, c1, c2: Bn("*", K(c1), Un("log", E)))
    t("law", "exp(c*log(E))", lambda E, F, c1, c2: Un("exp", Bn("*", K(c1), Un("log", E))))
    t("law", "exp(log(E)+log(F))", lambda E, F, c1, c2: Un("exp", Bn("+", Un("log", E), Un("log", F))))
    t("law", "exp(E)*exp(F)", lambda E, F, c1, c2: Bn("*", Un("exp", E), Un("exp", F)))
    t("law", "exp(E)/exp(F)", lambda E, F, c1, c2: Bn("/", Un("exp", E), Un("exp", F)))
    t("law", "exp(E)**c", lambda E, F, c1, c2: Bn("**", Un("exp", E), K(c1)))
    t("law", "exp(E+F)", lambda E, F, c1, c2: Un("exp", Bn("+", E, F)))
    t("law", "1/exp(E)", lambda E, F, c1, c2: Bn("/", K(1), Un("exp", E)))
    t("law", "log(exp(E)*F)", lambda E, F, c1, c2: Un("log", Bn("*", Un("exp", E), F)))
    t("law", "log(E)/log(c)", lambda E, F, c1, c2: Bn("/", Un("log", E), Un("log", K(abs(c1) + 1.5))))
    t("law", "log2(E*F)", lambda E, F, c1, c2: Un("log2", Bn("*", E, F)))
    t("law", "log10(E**2)", lambda E, F, c1, c2: Un("log10", Bn("**", E, K(2))))
    t("law", "sqrt(E)*sqrt(F)", lambda E, F, c1, c2: Bn("*", Un("sqrt", E), Un("sqrt", F)))
    t("law", "sqrt(E*F)", lambda E, F, c1, c2: Un("sqrt", Bn("*", E, F)))
    t("law", "sqrt(E/F)", lambda E, F, c1, c2: Un("sqrt", Bn("/", E, F)))
    t("law", "sqrt(E)/sqrt(F)", lambda E, F, c1, c2: Bn("/", Un("sqrt", E), Un("sqrt", F)))
    t("law", "sqrt(E*E)", lambda E, F, c1, c2: Un("sqrt", Bn("*", E, E)))
    t("law", "sqrt(E**2*F)", lambda E, F, c1, c2: Un("sqrt", Bn("*", Bn("**", E, K(2)), Un("abs", F))))
    t("law", "sqrt(E**2+0)", lambda E, F, c1, c2: Un("sqrt", Bn("+", Bn("**", E, K(2)), K(0))))
    t("law", "sqrt(E**2*c)", lambda E, F, c1, c2: Un("sqrt", Bn("*", Bn("**", E, K(2)), K(abs(c1) + 0.25))))
    t("law", "sqrt(E**2+F**2)", lambda E, F, c1, c2: Un("sqrt", Bn("+", Bn("**", E, K(2)), Bn("**", F, K(2)))))
    t("law", "sqrt(E**2)-E", lambda E, F, c1, c2: Bn("-", Un("sqrt", Bn("**", E, K(2))), E))
    t("law", "sqrt(E**2)*F", lambda E, F, c1, c2: Bn("*", Un("sqrt", Bn("**", E, K(2))), F))
    t("law", "sqrt(E**6)", lambda E, F, c1, c2: Un("sqrt", Bn("**", E, K(6))))
    t("law", "sqrt(E)**4", lambda E, F, c1, c2: Bn("**", Un("sqrt", E), K(4)))
    t("law", "abs(E)*abs(F)", lambda E, F, c1, c2: Bn("*", Un("abs", E), Un("abs", F)))
    t("law", "abs(E*F)", lambda E, F, c1, c2: Un("abs", Bn("*", E, F)))
    t("law", "abs(E/F)", lambda E, F, c1, c2: Un("abs", Bn("/", E, F)))
    t("law", "abs(E)/abs(F)", lambda E, F, c1, c2: Bn("/", Un("abs", E), Un("abs", F)))
    t("law", "abs(E-F)", lambda E, F, c1, c2: Un("abs", Bn("-", E, F)))
    t("law", "abs(E*c)", lambda E, F, c1, c2: Un("abs", Bn("*", E, K(c1))))
    t("law", "abs(E)*c", lambda E, F, c1, c2: Bn("*", Un("abs", E), K(c1)))
    t("law", "abs(E)+abs(F)", lambda E, F, c1, c2: Bn("+", Un("abs", E), Un("abs", F)))
    t("law", "abs(E+F)", lambda E, F, c1, c2: Un("abs", Bn("+", E, F)))
    # identities of the circular / hyperbolic functions
    t("trig", "sin^2+cos^2", lambda E, F, c1, c2: Bn("+", Bn("**", Un("sin", E), K(2)), Bn("**", Un("cos", E), K(2))))
    t("trig", "cosh^2-sinh^2", lambda E, F, c1, c2: Bn("-", Bn("**", Un("cosh", E), K(2)), Bn("**", Un("sinh", E), K(2))))
    t("trig", "sin/cos", lambda E, F, c1, c2: Bn("/", Un("sin", E), Un("cos", E)))
    t("trig", "sinh/cosh", lambda E, F, c1, c2: Bn("/", Un("sinh", E), Un("cosh", E)))
    t("trig", "2*sin*cos", lambda E, F, c1, c2: Bn("*", Bn("*", K(2), Un("sin", E)), Un("cos", E)))
    t("trig", "cos^2-sin^2", lambda E, F, c1, c2: Bn("-", Bn("**", Un("cos", E), K(2)), Bn("**", Un("sin", E), K(2))))
    t("trig", "exp(E)-exp(-E)", lambda E, F, c1, c2: Bn("-", Un("exp", E), Un("exp", Un("neg", E))))
    t("trig", "sin(E+c)", lambda E, F, c1, c2: Un("sin", Bn("+", E, K(c1))))
    t("trig", "sin(E)*sin(E)", lambda E, F, c1, c2: Bn("*", Un("sin", E), Un("sin", E)))
    t("trig", "tan(E)*cos(E)", lambda E, F, c1, c2: Bn("*", Un("tan", E), Un("cos", E)))
    t("trig", "asin(E)+acos(E)", lambda E, F, c1, c2: Bn("+", Un("asin", E), Un("acos", E)))
    t("trig", "atan(E)+atan(1/E)", lambda E, F, c1, c2: Bn("+", Un("atan", E), Un("atan", Bn("/", K(1), E))))
    t("trig", "sin(E-F)", lambda E, F, c1, c2: Un("sin", Bn("-", E, F)))
    t("trig", "cos(E-F)", lambda E, F, c1, c2: Un("cos", Bn("-", E, F)))
    return T


def _inner_E(rng):
    """sub-expressions that take negative, zero and large values at the probe points"""
    return rng.choice([
        Bn("-", X_, Y_), Bn("*", X_, Y_), Un("neg", X_), Bn("+", X_, K(1.5)), Bn("-", Bn("*", X_, K(2)), Y_), Bn("**", X_, K(3)),
        Bn("/", X_, Bn("+", Bn("*", Y_, Y_), K(1))), Bn("*", K(2), Un("sin", X_)), Bn("*", X_, K(1000.0)), Bn("-", X_, K(0.75)),
        Bn("*", ("p", "q", 1.0, -2.0), X_), Bn("-", Bn("*", X_, Y_), K(0.5)), Bn("/", X_, K(4)), Bn("-", K(1), X_),
        Bn("+", X_, Y_), Un("tanh", X_), Bn("*", X_, Un("abs", Y_)), Bn("-", Bn("*", X_, X_), K(2))])


def _inner_F(rng):
    return rng.choice([Y_, Z_, Bn("+", Y_, X_), Un("neg", Y_), Bn("*", K(0.5), Y_), Bn("*", Y_, Z_), Bn("-", Y_, K(1.25)),
                       Bn("-", Z_, X_), Bn("*", ("p", "r", 1.0, 0.5), Y_)])


_CONTEXTS = [
    ("B", lambda B, G: B), ("B+G", lambda B, G: Bn("+", B, G)), ("G+B", lambda B, G: Bn("+", G, B)), ("B-G", lambda B, G: Bn("-", B, G)),
    ("G-B", lambda B, G: Bn("-", G, B)), ("B*G", lambda B, G: Bn("*", B, G)), ("G*B", lambda B, G: Bn("*", G, B)),
    ("B/(G*G+1)", lambda B, G: Bn("/", B, Bn("+", Bn("*", G, G), K(1)))), ("G/B", lambda B, G: Bn("/", G, B)),
    ("B**2", lambda B, G: Bn("**", B, K(2))), ("B**3", lambda B, G: Bn("**", B, K(3))), ("1.5**tanh(B)", lambda B, G: Bn("**", K(1.5), Un("tanh", B))),
    ("(G*G+1)**B", lambda B, G: Bn("**", Bn("+", Bn("*", G, G), K(1)), Un("tanh", B))), ("-B", lambda B, G: Un("neg", B)),
    ("sin(B)", lambda B, G: Un("sin", B)), ("abs(B)", lambda B, G: Un("abs", B)), ("atan(B)+G", lambda B, G: Bn("+", Un("atan", B), G)),
    ("c-B", lambda B, G: Bn("-", K(2.5), B)), ("c/B", lambda B, G: Bn("/", K(2.5), B)), ("B*c+G", lambda B, G: Bn("+", Bn("*", B, K(-0.5)), G)),
]

_MAGS = [0.25, 0.5, 0.75, 1.25, 2.0, 3.0]


def recipe_points(rng, groups, thorough):
    """probe points: every sign pattern of (x, y), a zero coordinate, large and tiny coordinates.  `groups` maps the recipe
    variable to the names that carry it (one name on the scalar route, the element names on the vector route); all
    elements of a vector follow the pattern's sign with their own magnitudes"""
    pats = [(sx, sy, rng.choice([1.0, -1.0]), "mag") for sx in (1.0, -1.0) for sy in (1.0, -1.0)]
    pats.append((rng.choice([1.0, -1.0]), rng.choice([1.0, -1.0]), 1.0, rng.choice(["zero-x", "zero-y", "zero-xy"])))
    pats.append((rng.choice([1.0, -1.0]), rng.choice([1.0, -1.0]), -1.0, "large"))
    pats.append((rng.choice([1.0, -1.0]), rng.choice([1.0, -1.0]), 1.0, "tiny"))
    if thorough:
        pats += [(sx, sy, -1.0, "large") for sx in (1.0, -1.0) for sy in (1.0, -1.0)]
        pats += [(-1.0, sy, 1.0, "tiny") for sy in (1.0, -1.0)]
    out = []
    for sx, sy, sz, style in pats:
        pt = {}
        for var, sg in (("x", sx), ("y", sy), ("z", sz)):
            for nm in groups.get(var, ()):
                m = rng.choice(_MAGS)
                if style == "large":
                    m = rng.choice([37.5, 1e3, 1e6]) if var != "z" else m
                elif style == "tiny" and var == "x":
                    m = rng.choice([1e-7, 1e-9])
                elif (style == "zero-x" and var == "x") or (style == "zero-y" and var == "y") or (style == "zero-xy" and var != "z"):
                    m = 0.0
                pt[nm] = sg * m
        out.append(pt)
    return out


def recipe_cases(rng, thorough):
    """case = dict(tag, recipe (resolved), route, node, share, leaf, n): every template with E = x and with a compound E,
    constants as raw numbers and as Constant objects, on the scalar route (operators, and the node constructors), and on
    the vector route"""
    out = []
    reps = 4 if thorough else 2
    for fam, name, f in recipe_templates():
        for rep_i in range(reps):
            c1, c2 = rng.choice(_CS), rng.choice(_CS)
            plans = [("scalar", "raw", X_, Y_, 0), ("scalar", "const", X_, Y_, None), ("scalar", "mixed", None, None, None),
                     ("vec", "raw" if rng.random() < 0.5 else "mixed", X_ if rng.random() < 0.6 else None, Y_, 0 if rng.random() < 0.5 else None)]
            if fam == "pow" and not thorough and rep_i == 0 and name.startswith("(E**") and rng.random() < 0.5:
                plans.pop(2)  # the 144-cell grid: the compound-E plan for every other cell
            for route, style, E, F, ctx in plans:
                E = E if E is not None else _inner_E(rng)
                F = F if F is not None else _inner_F(rng)
                r = f(E, F, c1, c2)
                cname, cf = _CONTEXTS[ctx] if ctx is not None else rng.choice(_CONTEXTS)
                r = cf(r, rng.choice([Y_, Z_, Bn("+", Z_, K(0.5))]))
                r = rec_resolve(r, rng, "mixed-vec" if (style == "mixed" and route == "vec") else style)
                out.append({"tag": f"recipe:{fam}:{name}", "context": cname, "recipe": r, "route": route,
                            "node": route == "scalar" and style == "mixed" and rng.random() < 0.3,
                            "share": rng.random() < 0.7, "leaf": rng.choice(["vv", "view", "rev", "ve"]), "n": 3,
                            "elem": rng.randint(0, 2)})
    return out


def _vec_leaves(kind, n):
    from optyx import VectorVariable
    from optyx.core import vectors as V

    leaves = {}
    for nm in ("x", "y", "z"):
        if kind == "view":
            v = VectorVariable(nm, n + 2)[1:n + 1]
        elif kind == "rev":
            v = VectorVariable(nm, n)[::-1]
        elif kind == "ve":
            v = V.VectorExpression(list(VectorVariable(nm, n)))
        else:
            v = VectorVariable(nm, n)
        leaves[nm] = v
    return leaves


def recipe_build(case):
    """-> (builder, [(observed expression, what, [env per recipe evaluation])], groups, all leaf variables)
    an env list of length 1 = the value of the recipe there; longer = the sum of the recipe over these envs"""
    from optyx import Variable
    from optyx.core import vectors as V

    bld = RecipeBuilder(node=case["node"], share=case["share"])
    if case["route"] == "scalar":
        leaves = {nm: Variable(nm) for nm in ("x", "y", "z")}
        e = bld.scalar(case["recipe"], leaves)
        groups = {nm: [nm] for nm in leaves}
        return bld, [(e, "scalar", [{nm: nm for nm in leaves}])], groups, list(leaves.values())
    n = case["n"]
    leaves = _vec_leaves(case["leaf"], n)
    vv = bld.vector(case["recipe"], leaves, n)
    if isinstance(vv, tuple):
        raise Unsupported("recipe without a vector operand")
    elems = {nm: [el.name for el in list(v)] for nm, v in leaves.items()}
    allv = [el for v in leaves.values() for el in list(v)]
    envs = [{nm: elems[nm][i] for nm in leaves} for i in range(n)]
    i = case.get("elem", 0) % n
    obs = [(vv[i], f"element {i}", [envs[i]])]
    if hasattr(vv, "sum"):
        obs.append((vv.sum(), "sum", envs))
    return bld, obs, elems, allv


def recipe_want(recipe, envs, pt):
    """(value, rounding bound) of the recipe (summed over the element environments on the vector-sum route)"""
    tot, err, mag = 0.0, 0.0, 0.0
    for env in envs:
        v, e = rec_eval(recipe, {k: pt[nm] for k, nm in env.items()})
        v = float(v)
        tot += v
        err += e
        mag += abs(v)
    if len(envs) > 1:
        err += len(envs) * _U * mag
    return tot, err


def recipe_check(case, rng, thorough, points=None, stats=None):
    """the observables of the real code against the recipe value; returns a list of failures (at most one per case)"""
    import optyx.core.compiler as C
    from optyx import Variable

    stats = stats if stats is not None else {}

    def bump(k, n=1):
        stats[k] = stats.get(k, 0) + n

    with warnings.catch_warnings():
        warnings.simplefilter("ignore")
        try:
            with np.errstate(all="ignore"):
                bld, observed, groups, allv = recipe_build(case)
        except Unsupported:
            bump("skip:no-vector-operand")
            return []
        except Exception as ex:  # noqa: BLE001
            if case["route"] == "scalar":
                return [{"tag": case["tag"], "what": f"building the formula through the public operators raised {type(ex).__name__}",
                         "formula": rec_text(case["recipe"]), "recipe": case["recipe"], "case": _case_json(case), "recipe_oracle": True}]
            bump(f"skip:vector-route-construction:{type(ex).__name__}")
            return []
    pts = points if points is not None else recipe_points(rng, groups, thorough)
    thr = case.get("thr", rng.choice([0, 400]))
    for e, what, envs in observed:
        V = list(allv)
        if "V" in case:
            by = {v.name: v for v in V}
            V = [by.get(nm) or Variable(nm) for nm in case["V"]]
        else:
            rng.shuffle(V)
            if rng.random() < 0.3:
                V.insert(rng.randint(0, len(V)), Variable("extra"))
        base = {"tag": case["tag"], "formula": rec_text(case["recipe"]), "route": case["route"] + ":" + what, "context": case.get("context"),
                "node_constructors": case["node"], "shared_subexpressions": case["share"], "vars": [v.name for v in V],
                "threshold": thr, "recipe_oracle": True, "built": repr(e)[:300],
                "case": dict(_case_json(case), V=[v.name for v in V], thr=thr)}
        old = C._RECURSION_THRESHOLD
        try:
            C._RECURSION_THRESHOLD = thr
            C._compile_cached.cache_clear()
            try:
                fn = C.compile_expression(e, V)
                dfn = C.compile_to_dict_function(e, V)
                cexp = C.CompiledExpression(e, V)
            except Exception as ex:  # noqa: BLE001
                return [dict(base, what=f"compiling the built expression raised {type(ex).__name__}")]
        finally:
            C._RECURSION_THRESHOLD = old
            C._compile_cached.cache_clear()
        bld.set_call_values()  # parameters change between construction / compilation and the calls
        for pi, pt in enumerate(pts):
            with np.errstate(all="ignore"):
                want, err = recipe_want(case["recipe"], envs, pt)
            if not math.isfinite(want):
                bump("skip:recipe-value-nan-or-inf")
                continue
            if not math.isfinite(err):
                bump("skip:recipe-through-a-singular-or-non-finite-intermediate")
                continue
            tol = 1e-9 * abs(want) + 1000.0 * err + 1e-300
            full = {v.name: pt.get(v.name, 0.25) for v in V}
            arr = np.array([full[v.name] for v in V], dtype=float)
            obs = [("compile_expression(e,V)(x)", call(lambda: fn(arr))), ("e.evaluate(values)", call(lambda: e.evaluate(dict(full)))),
                   ("compile_to_dict_function(e,V)(values)", call(lambda: dfn(dict(full))))]
            if pi % 3 == 0:
                obs.append(("CompiledExpression.value", call(lambda: cexp.value(arr))))
            bump("judged")
            if tol <= 1e-6 * abs(want) or want == 0.0:
                bump("judged-sharp")
            for nm, (got, errk) in obs:
                if got is not None and abs(got - want) <= tol:
                    continue
                f = dict(base, observable=nm, point=full, params=bld.call_values(), got=got, want=want, tolerance=tol,
                         what=(f"{nm} raised {errk} where the formula the user wrote has a finite value" if got is None else
                               f"{nm} differs from the value of the formula the user wrote (NumPy evaluation of the recipe, "
                               f"tolerance 1e-9·|value| + 1000·rounding bound)"))
                if errk == "int_negative_power":
                    f["kind"] = "int_negative_power"
                return [f]
    return []


def _case_json(case):
    return {k: case[k] for k in ("tag", "recipe", "route", "node", "share", "leaf", "n", "elem") if k in case}


def _tuplify(r):
    return tuple(_tuplify(x) if isinstance(x, list) else x for x in r)


def recipe_section(rep, rng, thorough):
    stats = {}
    n_fail = 0
    for case in recipe_cases(rng, thorough):
        fam = ":".join(case["tag"].split(":")[:2]) + ":" + case["route"]
        rep.histogram[fam] = rep.histogram.get(fam, 0) + 1
        before = stats.get("judged", 0)
        fails = recipe_check(case, rng, thorough, stats=stats)
        if stats.get("judged", 0) > before and not fails:
            rep.nontrivial.add(hash(("recipe", repr(case["recipe"]), case["route"], case["node"])))
        for f in fails:
            n_fail += 1
            if n_fail <= 40:
                rep.oracle_failures.append(f)
    rep.evaluations += stats.get("judged", 0)
    rep.histogram["recipe_points"] = stats.get("judged", 0)
    rep.histogram["recipe_points_sharp"] = stats.get("judged-sharp", 0)
    for k, v in stats.items():
        if k.startswith("skip:"):
            rep.skipped["recipe oracle: " + k[5:]] = v


def replay_recipe(f) -> bool:
    case = dict(f["case"])
    case["recipe"] = _tuplify(case["recipe"])
    print("formula the user wrote:", rec_text(case["recipe"]))
    if "point" not in f:
        r = recipe_check(case, core.Rng(0), False)
        print("recipe_check:", r)
        return not r
    pt = {k: float(v) for k, v in f["point"].items()}
    r = recipe_check(case, core.Rng(0), False, points=[pt])
    for x in r:
        print("recipe_check:", {k: x[k] for k in ("what", "observable", "got", "want", "tolerance", "point", "built") if k in x})
    if not r:
        print("recipe_check: all observables agree with the recipe value")
    return not r


# ----------------------------------------------------------------------------- Parameters INSIDE reductions × set histories
#
# Checklist 29.  Everywhere above a Parameter is a scalar LEAF of the tree (`p * x`, `(2 * p) * x`, `E ** p`).  The API also
# lets Parameters (scalar Parameters, the elements of a VectorParameter) be ELEMENTS of a VectorExpression / MatrixExpression:
# `w @ VectorExpression(list(prices))`, `VectorExpression(list(prices)).sum()`, `norm(pvec)`, `pvec.dot(pvec)`,
# `quadratic_form(pvec, Q)`, `MatrixExpression([[…]]).sum()`, `(A @ pvec).sum()`.  Such a reduction reports NO variables, and
# the Parameters are reachable only THROUGH the reduction node — every shortcut that asks "is this sub-tree constant?" by
# looking at get_variables() or at the scalar operators only (compile-time folding, memoised values, hoisting) freezes them.
# This family builds, per case,
#   elements   Parameters in order / reversed / repeated, with a constant slot, variable-free compounds (2*p, p - q, -p, p*c,
#              tanh(p)), whole-vector operators (pvec * k, k - pvec, -pvec, pvec + cvec), a variable in one slot
#   reduction  every reduction node the API has for expression vectors / matrices, in every spelling (operator, method,
#              helper, constructor), sizes 1 … 33
#   wrapper    the reduction bare and inside variable-free scalar operations (1.1*R, R+1, sqrt(R*R+c), exp(-(R/100)), R*q,
#              R - R2, nested), then
#   combo      combined with variables (both operand positions, under functions, as element of a further vector node), or
#              left variable-free as a whole
#   history    compile / Parameter.set / VectorParameter.set / call sequences on ONE expression object without clearing the
#              LRU cache: call before and after sets, set before the first compile and back, re-compile the same (e, V)
#              (cache hit), compile for another variable list after a set, partial sets (one element; to 0, 1, sign flip),
#              read-only queries in between — for the recursive and the explicit-stack builder
# and judges ALL observables (array callable, dict wrapper, CompiledExpression.value, a callable compiled just now, tree
# evaluation) against the NumPy value of the recipe at the CURRENT parameter values, kept in the harness's own bookkeeping
# (never read back from the Parameter objects).

_PH_VALS = [0.5, 1.0, 1.5, 2.0, 2.5, 3.0, 4.0, 0.25, 0.75, 0.125, -0.5, -1.5, -2.0, -3.0, 10.0, 20.0, 30.0, -10.0]
_PH_KINDS = ["lc", "sum", "sum:chain", "dot", "dotself", "dotvar", "l2", "l1", "qf", "msum", "mvsum"]
_PH_STYLES = ["vp", "vp", "vp-rev", "scalars", "mixed-const", "compound", "vecop", "vecop2", "with-var"]
_PH_SIZES = [1, 2, 3, 3, 3, 4, 5, 8, 33]
_PH_HISTORIES = ["compile-set-call", "set-compile-setback", "recompile-cached", "other-V-after-set", "partial-sets",
                 "queries-interleaved"]


def _ph_elems(rng, style, n, kc):
    """(element recipes, form) of a length-n vector whose elements are (mostly) Parameters"""
    P = [("q", f"price[{i}]") for i in range(n)]
    Cc = [("q", f"cost[{i}]") for i in range(n)]
    rate, fee = ("q", "rate"), ("q", "fee")
    if style == "vp":
        return tuple(P), "ve"
    if style == "vp-cost":
        return tuple(Cc), "ve"
    if style == "vp-rev":
        return tuple(reversed(P)), "ve"
    if style == "scalars":  # scalar Parameter objects, the same object in several slots
        return tuple([rate, fee, rate, P[0], fee][i % 5] for i in range(n)), "ve"
    if style == "consts":
        return tuple(("c", rng.choice([0.5, 2.0, -1.5, 1.0, 0.25, 3.0]), "const") for _ in range(n)), "ve"
    if style == "mixed-const":
        j = rng.randint(0, n - 1)
        return tuple(("c", rng.choice([0.5, 2.0, -1.5, 1, 0]), "const") if (i == j and n > 1) else P[i] for i in range(n)), "ve"
    if style == "compound":
        forms = [lambda i: Bn("*", kc(2.0), P[i]), lambda i: Bn("-", P[i], rate), lambda i: Un("neg", P[i]), lambda i: Bn("*", P[i], Cc[i]),
                 lambda i: Bn("/", P[i], kc(4.0)), lambda i: Un("tanh", P[i]), lambda i: Bn("+", Bn("*", rate, P[i]), fee),
                 lambda i: Bn("**", P[i], kc(2))]
        off = rng.randint(0, len(forms) - 1)
        return tuple(forms[(i + off) % len(forms)](i) for i in range(n)), "ve"
    if style == "vecop":  # one operator applied to the whole parameter vector
        k = ("c", rng.choice([2.0, 0.5, -1.5, 3, 1.25]), "raw")
        which = rng.choice(["*k", "k*", "+k", "k+", "-k", "k-", "/k", "neg", "**2"])
        f = {"*k": lambda p: Bn("*", p, k), "k*": lambda p: Bn("*", k, p), "+k": lambda p: Bn("+", p, k), "k+": lambda p: Bn("+", k, p),
             "-k": lambda p: Bn("-", p, k), "k-": lambda p: Bn("-", k, p), "/k": lambda p: Bn("/", p, k), "neg": lambda p: Un("neg", p),
             "**2": lambda p: Bn("**", p, ("c", 2, "raw"))}[which]
        return tuple(f(p) for p in P), "vecop"
    if style == "vecop2":  # two parameter vectors combined element-wise by the vector API
        op = rng.choice(["+", "-", "*"])
        return tuple(Bn(op, P[i], Cc[i]) for i in range(n)), "vecop"
    if style == "with-var":  # a decision variable in one slot: the reduction is not variable-free
        j = rng.randint(0, n - 1)
        slot = rng.choice([("v", "x"), Bn("*", P[j], ("v", "y")), Bn("+", ("v", "x"), Cc[j])])
        return tuple(slot if i == j else P[i] for i in range(n)), "ve"
    raise KeyError(style)


def _ph_reduction(rng, kind, n, kc, style=None):
    """a reduction node of the given kind over a parameter vector of length n"""
    elems, form = _ph_elems(rng, style or rng.choice(_PH_STYLES), n, kc)
    variant = rng.randint(0, 11)
    coef = [0.5, 0.3, 0.2, 2.0, -1.0, 1.5, 0.0, 1.0, -0.25, 1.1]
    if kind == "sum":
        return ("r", "sum", elems, None, form, rng.choice([0, 1, 3, 4]))
    if kind == "sum:chain":
        return ("r", "sum", elems, None, form, 2)
    if kind == "lc":
        return ("r", "lc", elems, tuple(rng.choice(coef) for _ in range(n)), form, variant)
    if kind == "dot":
        other = _ph_elems(rng, rng.choice(["vp-cost", "scalars", "consts", "compound", "vp-rev"]), n, kc)
        return ("r", "dot", elems, other, form, variant)
    if kind == "dotself":
        return ("r", "dot", elems, (elems, form), form, variant)
    if kind == "dotvar":  # the other operand is a VectorVariable: p · u and u · p
        uel = (tuple(("v", f"u[{i}]") for i in range(n)), "vv:u")
        if rng.random() < 0.5:
            return ("r", "dot", elems, uel, form, variant)
        return ("r", "dot", uel[0], (elems, form), uel[1], variant)
    if kind in ("l2", "l1"):
        return ("r", kind, elems, None, form, variant)
    if kind == "qf":
        Q = tuple(tuple(rng.choice([0.0, 0.5, 1.0, -1.0, 2.0, 0.25, -0.5, 1.5]) for _ in range(n)) for _ in range(n))
        return ("r", "qf", elems, Q, form, variant)
    if kind == "msum":
        rows = rng.choice([d for d in range(1, n + 1) if n % d == 0])
        return ("r", "msum", elems, (rows, n // rows), "ve", variant)
    if kind == "mvsum":
        m = rng.choice([1, 2, 3])
        A = tuple(tuple(rng.choice([0.0, 0.5, 1.0, -1.0, 2.0, 0.25, -0.5]) for _ in range(n)) for _ in range(m))
        return ("r", "mvsum", elems, A, form, variant)
    raise KeyError(kind)


def _ph_wrappers():
    """(name, f(R, R2, q, k) -> recipe): variable-free scalar operations around the reduction R (R2: a second reduction,
    q: a scalar Parameter leaf, k: makes a constant operand)"""
    return [
        ("R", lambda R, R2, q, k: R),
        ("1.1*R", lambda R, R2, q, k: Bn("*", k(1.1), R)),
        ("R*0.5", lambda R, R2, q, k: Bn("*", R, k(0.5))),
        ("R+1", lambda R, R2, q, k: Bn("+", R, k(1.0))),
        ("1+R", lambda R, R2, q, k: Bn("+", k(1), R)),
        ("1-R", lambda R, R2, q, k: Bn("-", k(1.0), R)),
        ("R-2.5", lambda R, R2, q, k: Bn("-", R, k(2.5))),
        ("R/100", lambda R, R2, q, k: Bn("/", R, k(100.0))),
        ("100/(R*R+1)", lambda R, R2, q, k: Bn("/", k(100.0), Bn("+", Bn("*", R, R), k(1.0)))),
        ("-R", lambda R, R2, q, k: Un("neg", R)),
        ("R*R", lambda R, R2, q, k: Bn("*", R, R)),
        ("R**2", lambda R, R2, q, k: Bn("**", R, k(2))),
        ("sqrt(R*R+0.25)", lambda R, R2, q, k: Un("sqrt", Bn("+", Bn("*", R, R), k(0.25)))),
        ("exp(-(R/100))", lambda R, R2, q, k: Un("exp", Un("neg", Bn("/", R, k(100.0))))),
        ("tanh(R/8)", lambda R, R2, q, k: Un("tanh", Bn("/", R, k(8.0)))),
        ("abs(R)", lambda R, R2, q, k: Un("abs", R)),
        ("log(R*R+1)", lambda R, R2, q, k: Un("log", Bn("+", Bn("*", R, R), k(1.0)))),
        ("sin(0.5*R)", lambda R, R2, q, k: Un("sin", Bn("*", k(0.5), R))),
        ("2**tanh(R/8)", lambda R, R2, q, k: Bn("**", k(2.0), Un("tanh", Bn("/", R, k(8.0))))),
        ("R*q", lambda R, R2, q, k: Bn("*", R, q)),
        ("q*R", lambda R, R2, q, k: Bn("*", q, R)),
        ("R+q", lambda R, R2, q, k: Bn("+", R, q)),
        ("q-R", lambda R, R2, q, k: Bn("-", q, R)),
        ("R/(q*q+1)", lambda R, R2, q, k: Bn("/", R, Bn("+", Bn("*", q, q), k(1.0)))),
        ("R-R2", lambda R, R2, q, k: Bn("-", R, R2)),
        ("R*R2", lambda R, R2, q, k: Bn("*", R, R2)),
        ("(R+R2)/2", lambda R, R2, q, k: Bn("/", Bn("+", R, R2), k(2.0))),
        ("R2/(R*R+1)", lambda R, R2, q, k: Bn("/", R2, Bn("+", Bn("*", R, R), k(1.0)))),
        ("1.1*(R+1)/2", lambda R, R2, q, k: Bn("/", Bn("*", k(1.1), Bn("+", R, k(1.0))), k(2.0))),
        ("sqrt(abs(R)+1)-1", lambda R, R2, q, k: Bn("-", Un("sqrt", Bn("+", Un("abs", R), k(1.0))), k(1.0))),
        ("-(R/4)+0.5", lambda R, R2, q, k: Bn("+", Un("neg", Bn("/", R, k(4.0))), k(0.5))),
    ]


def _ph_combos():
    """(name, f(W, W2, q, k) -> recipe): the variable-free term W combined with the variables x, y"""
    x, y = X_, Y_
    return [
        ("(x-W)**2+y*q", lambda W, W2, q, k: Bn("+", Bn("**", Bn("-", x, W), k(2)), Bn("*", y, q))),
        ("x*W+y/(W*W+1)", lambda W, W2, q, k: Bn("+", Bn("*", x, W), Bn("/", y, Bn("+", Bn("*", W, W), k(1.0))))),
        ("W*x+y", lambda W, W2, q, k: Bn("+", Bn("*", W, x), y)),
        ("x+W", lambda W, W2, q, k: Bn("+", x, W)),
        ("W-x", lambda W, W2, q, k: Bn("-", W, x)),
        ("W", lambda W, W2, q, k: W),
        ("W+q", lambda W, W2, q, k: Bn("+", W, q)),
        ("x*(W*y)", lambda W, W2, q, k: Bn("*", x, Bn("*", W, y))),
        ("sin(x+W)*y", lambda W, W2, q, k: Bn("*", Un("sin", Bn("+", x, W)), y)),
        ("x**2*W-y", lambda W, W2, q, k: Bn("-", Bn("*", Bn("**", x, k(2)), W), y)),
        ("(x+y)/(W*W+0.5)", lambda W, W2, q, k: Bn("/", Bn("+", x, y), Bn("+", Bn("*", W, W), k(0.5)))),
        ("W**2+x", lambda W, W2, q, k: Bn("+", Bn("**", W, k(2)), x)),
        ("(x*x+1)**tanh(W/8)", lambda W, W2, q, k: Bn("**", Bn("+", Bn("*", x, x), k(1.0)), Un("tanh", Bn("/", W, k(8.0))))),
        ("y*W2+W*x", lambda W, W2, q, k: Bn("+", Bn("*", y, W2), Bn("*", W, x))),
        ("sum([x*W,y,W])", lambda W, W2, q, k: ("r", "sum", (Bn("*", x, W), y, W), None, "ve", 0)),
        ("dot([x,y,x*y],[W,W2,c])", lambda W, W2, q, k: ("r", "dot", (x, y, Bn("*", x, y)), ((W, W2, ("c", 0.5, "const")), "ve"), "ve", 0)),
        ("lc([W,x,y*W])", lambda W, W2, q, k: ("r", "lc", (W, x, Bn("*", y, W)), (2.0, -1.0, 0.5), "ve", 0)),
        ("norm([x,W,y])", lambda W, W2, q, k: ("r", "l2", (x, W, y), None, "ve", 0)),
        ("W*q-W2", lambda W, W2, q, k: Bn("-", Bn("*", W, q), W2)),
    ]


def rec_names(r, kind="v"):
    """names of the ("v", …) / ("q", …) leaves of a recipe, in first-occurrence order"""
    out, stack = [], [r]
    while stack:
        n = stack.pop()
        if not isinstance(n, (tuple, list)) or not n:
            continue
        if n[0] == kind and len(n) >= 2 and isinstance(n[1], str):
            if n[1] not in out:
                out.append(n[1])
            continue
        if n[0] in ("v", "q", "c", "p"):
            continue
        if n[0] == "u":
            stack.append(n[2])
        elif n[0] == "b":
            stack += [n[3], n[2]]
        elif n[0] == "r":
            if n[1] == "dot":
                stack += list(reversed(n[3][0]))
            stack += list(reversed(n[2]))
    return out


def parhist_case(rng, thorough, kind=None, wi=None, ci=None, hi=None):
    """one case (plain data, JSON-able): recipe + parameter pool with the values at construction + variable lists +
    points + history script"""
    n = rng.choice(_PH_SIZES)
    kinds_const = rng.choice(["raw", "const", "mixed"])

    def k(v):
        return ("c", v, kinds_const if kinds_const != "mixed" else rng.choice(["raw", "const"]))

    kind = kind or rng.choice(_PH_KINDS)
    wrappers, combos = _ph_wrappers(), _ph_combos()
    wname, wf = wrappers[wi if wi is not None else rng.randint(0, len(wrappers) - 1)]
    cname, cf = combos[ci if ci is not None else rng.randint(0, len(combos) - 1)]
    fam = _PH_HISTORIES[hi if hi is not None else rng.randint(0, len(_PH_HISTORIES) - 1)]
    # the reduction under test never has the "with-var" style when the point is the variable-free wrapper: keep both
    R = _ph_reduction(rng, kind, n, k)
    R2 = _ph_reduction(rng, rng.choice(_PH_KINDS[:5] + _PH_KINDS[6:]), n, k, style=rng.choice(["vp-cost", "scalars", "vp", "compound"]))
    q = ("q", rng.choice(["rate", "fee"]))
    W = wf(R, R2, q, k)
    # the second variable-free term of the combos: another wrapper around the other reduction
    W2 = wrappers[rng.randint(0, len(wrappers) - 1)][1](R2, R, ("q", "fee"), k)
    recipe = cf(W, W2, q, k)
    pool = {"scalars": {"rate": rng.choice(_PH_VALS), "fee": rng.choice(_PH_VALS)},
            "vectors": {"price": [rng.choice(_PH_VALS) for _ in range(n)], "cost": [rng.choice(_PH_VALS) for _ in range(n)]}}
    own = rec_names(recipe, "v")
    extras = ["z", "t", "s"]
    V1 = list(own) if own else ["z"]
    V2 = list(V1)
    rng.shuffle(V2)
    if len(V2) < 2:
        V2 = V2 + ["t"]
    V3 = list(V1) + extras[: rng.randint(1, 2)] if own else ["t", "z", "s"]
    rng.shuffle(V3)
    names = sorted(set(V1) | set(V2) | set(V3))
    pts = []
    for _ in range(3 if thorough else 2):
        pts.append({nm: rng.randint(-16, 16) / 8 + 1 / 16 for nm in names})
    # ---- the history script
    cur = {"rate": pool["scalars"]["rate"], "fee": pool["scalars"]["fee"]}
    for vn, vals in pool["vectors"].items():
        for i, v in enumerate(vals):
            cur[f"{vn}[{i}]"] = v
    initial = dict(cur)

    def newval(old):
        for _ in range(20):
            v = rng.choice(_PH_VALS)
            if v != old:
                return v
        return old + 1.0

    def astype(assign):
        if all(float(v) == int(v) for v in assign.values()) and rng.random() < 0.5:
            return "int"
        return rng.choice(["float", "float", "np"])

    def s_full():
        a = {nm: newval(v) for nm, v in cur.items()}
        cur.update(a)
        return ["set", rng.choice(["vector", "vector", "each"]), a, astype(a)]

    def s_back():
        a = dict(initial)
        cur.update(a)
        return ["set", rng.choice(["vector", "each"]), a, "float"]

    def s_vec():
        vn = rng.choice(["price", "cost"])
        a = {f"{vn}[{i}]": newval(cur[f"{vn}[{i}]"]) for i in range(n)}
        cur.update(a)
        return ["set", "vector", a, astype(a)]

    def s_one():
        used = rec_names(recipe, "q") or list(cur)
        nm = rng.choice(used)
        a = {nm: newval(cur[nm])}
        cur.update(a)
        return ["set", "each", a, astype(a)]

    def s_special():
        used = rec_names(recipe, "q") or list(cur)
        how = rng.choice(["zero", "one", "flip", "flip-all", "zero-all"])
        if how == "zero":
            a = {rng.choice(used): 0.0}
        elif how == "one":
            a = {rng.choice(used): 1.0}
        elif how == "flip":
            nm = rng.choice(used)
            a = {nm: -cur[nm] if cur[nm] != 0.0 else 2.0}
        elif how == "flip-all":
            a = {nm: (-v if v != 0.0 else 2.0) for nm, v in cur.items()}
        else:
            a = {nm: 0.0 for nm in cur}
        cur.update(a)
        return ["set", rng.choice(["vector", "each"]), a, astype(a)]

    def s_any():
        return rng.choice([s_full, s_full, s_vec, s_one, s_special])()

    if fam == "compile-set-call":
        hist = [["compile", "a", V1], ["call"], s_full(), ["call"], s_any(), ["call"]]
    elif fam == "set-compile-setback":
        hist = [s_full(), ["compile", "a", V1], s_back(), ["call"], s_any(), ["call"]]
    elif fam == "recompile-cached":
        hist = [["compile", "a", V1], s_full(), ["fresh", V1], ["call"], s_any(), ["fresh", V1], ["call"]]
    elif fam == "other-V-after-set":
        hist = [["compile", "a", V1], s_full(), ["compile", "b", V2], s_full(), ["call"], ["compile", "c", V3], s_any(), ["call"]]
    elif fam == "partial-sets":
        hist = [["compile", "a", V2], s_one(), ["call"], s_special(), ["call"], s_vec(), ["call"], s_full(), ["call"]]
    else:
        hist = [["query"], ["compile", "a", V3], ["query"], s_full(), ["query"], ["call"], ["clear"], ["fresh", V3], s_any(), ["call"]]
    return {"tag": f"parhist:{kind}:{wname}:{cname}:{fam}", "kind": kind, "wrapper": wname, "combo": cname, "family": fam, "n": n,
            "recipe": recipe, "pool": pool, "points": pts, "history": hist, "thr": rng.choice([0, 3, 400, 400]),
            "node": rng.random() < 0.25, "share": rng.random() < 0.7}


def parhist_cases(rng, thorough):
    """every reduction kind × every wrapper, every combo × every history family (the other dimensions drawn at random),
    plus free random cases"""
    out = []
    nw, nc, nh = len(_ph_wrappers()), len(_ph_combos()), len(_PH_HISTORIES)
    for _ in range(3 if thorough else 1):
        for kind in _PH_KINDS:
            for wi in range(nw):
                out.append(parhist_case(rng, thorough, kind=kind, wi=wi))
        for ci in range(nc):
            for hi in range(nh):
                out.append(parhist_case(rng, thorough, ci=ci, hi=hi))
        # the plainest shapes: the bare reduction as the WHOLE expression (no variable at all) and the bare reduction next to
        # a variable, every kind × every history family
        for kind in _PH_KINDS:
            for hi in range(nh):
                out.append(parhist_case(rng, thorough, kind=kind, wi=0, ci=5, hi=hi))
                out.append(parhist_case(rng, thorough, kind=kind, wi=0, ci=3, hi=hi))
    for _ in range(600 if thorough else 60):
        out.append(parhist_case(rng, thorough))
    return out


def parhist_run(case, stats=None):
    """execute the history of one case on the real code; returns a list of failures (at most one)"""
    import optyx.core.compiler as C
    import optyx.core.autodiff as AD
    from optyx import Parameter, Variable, VectorParameter, VectorVariable
    from optyx.core.expressions import _ensure_expr

    stats = stats if stats is not None else {}

    def bump(k, n=1):
        stats[k] = stats.get(k, 0) + n

    recipe = _tuplify(case["recipe"])
    n = int(case["n"])
    cur, qpool, vecs = {}, {}, {}
    for nm, v in case["pool"]["scalars"].items():
        qpool[nm] = Parameter(nm, float(v))
        cur[nm] = float(v)
    for vn, vals in case["pool"]["vectors"].items():
        vp = VectorParameter(vn, len(vals), [float(v) for v in vals])
        vecs[vn] = vp
        for i, p in enumerate(vp):
            qpool[f"{vn}[{i}]"] = p
            cur[f"{vn}[{i}]"] = float(vals[i])
    leaves = {"x": Variable("x"), "y": Variable("y")}
    u = VectorVariable("u", n)
    leaves["vec:u"] = u
    for el in u:
        leaves[el.name] = el
    bld = RecipeBuilder(node=bool(case.get("node")), share=bool(case.get("share", True)))
    bld.qpool = qpool
    with warnings.catch_warnings():
        warnings.simplefilter("ignore")
        try:
            with np.errstate(all="ignore"):
                e = _ensure_expr(bld.scalar(recipe, leaves))
        except Exception as ex:  # noqa: BLE001
            bump(f"skip:construction:{type(ex).__name__}")
            return []
    formula = rec_text(recipe)
    thr = int(case.get("thr", 400))
    slots = {}       # slot -> (V, fn, dict_fn, CompiledExpression, parameter values when compiled)
    done = []        # the steps executed so far, as text

    def vlist(names):
        return [leaves[nm] if nm in leaves else Variable(nm) for nm in names]

    def compile_all(names):
        V = vlist(names)
        old = C._RECURSION_THRESHOLD
        try:
            C._RECURSION_THRESHOLD = thr
            with warnings.catch_warnings():
                warnings.simplefilter("ignore")  # display only: the numeric behaviour of the code under test is untouched
                return V, C.compile_expression(e, V), C.compile_to_dict_function(e, V), C.CompiledExpression(e, V), dict(cur)
        finally:
            C._RECURSION_THRESHOLD = old

    def base(**kw):
        return dict({"tag": case["tag"], "formula": formula, "threshold": thr, "params": dict(cur), "history_so_far": list(done),
                     "param_history": True, "built": repr(e)[:300], "case": _parhist_json(case)}, **kw)

    def judge(pt, observations):
        """observations: [(observable name, V names, parameter values when compiled | None, thunk)]"""
        env = {nm: v for nm, v in pt.items()}
        env.update({"par:" + nm: v for nm, v in cur.items()})
        with np.errstate(all="ignore"):
            want, err = rec_eval(recipe, env)
        want = float(want)
        if not math.isfinite(want):
            bump("skip:recipe-value-nan-or-inf")
            return None
        if not math.isfinite(err):
            bump("skip:recipe-through-a-singular-or-non-finite-intermediate")
            return None
        tol = 1e-9 * abs(want) + 1000.0 * err + 1e-300
        bump("judged")
        if tol <= 1e-6 * abs(want) or want == 0.0:
            bump("judged-sharp")
        for nm, vnames, pcomp, thunk in observations:
            got, errk = call(thunk)
            if got is not None and abs(got - want) <= tol:
                continue
            return base(observable=nm, vars=list(vnames), point=dict(pt), got=got, want=want, tolerance=tol,
                        params_when_compiled=pcomp,
                        what=(f"{nm} raised {errk} where the formula has a finite value at the current parameter values" if got is None
                              else f"{nm} differs from the NumPy value of the formula at the CURRENT parameter values "
                                   f"(tolerance 1e-9·|value| + 1000·rounding bound)"))
        return None

    def observe(pt, only=None):
        obs = [("e.evaluate(values)", sorted(pt), None, lambda: e.evaluate(dict(pt)))]
        for slot, (V, fn, dfn, cexp, pcomp) in slots.items():
            if only is not None and slot != only:
                continue
            vn = [v.name for v in V]
            arr = np.array([pt[nm] for nm in vn], dtype=float)
            full = {nm: pt[nm] for nm in vn}
            obs.append((f"compile_expression(e,V)(x) [compiled at step '{slot}']", vn, pcomp, lambda fn=fn, arr=arr: fn(arr)))
            obs.append((f"compile_to_dict_function(e,V)(values) [compiled at step '{slot}']", vn, pcomp, lambda dfn=dfn, full=full: dfn(dict(full))))
            obs.append((f"CompiledExpression.value [compiled at step '{slot}']", vn, pcomp, lambda cexp=cexp, arr=arr: cexp.value(arr)))
        return obs

    points = [{k: float(v) for k, v in pt.items()} for pt in case["points"]]
    C._compile_cached.cache_clear()
    try:
        for si, step in enumerate(case["history"]):
            op = step[0]
            if op in ("compile", "fresh"):
                names = step[2] if op == "compile" else step[1]
                slot = step[1] if op == "compile" else f"fresh@{si}"
                done.append(f"{op} for V={list(names)} (parameters {_ph_short(cur)})")
                try:
                    slots[slot] = compile_all(names)
                except Exception as ex:  # noqa: BLE001
                    return [base(vars=list(names), what=f"compiling the expression raised {type(ex).__name__}")]
                if op == "fresh":
                    # a callable requested NOW (possibly served from the LRU cache) must see the current values
                    for pt in points:
                        f = judge(pt, observe(pt, only=slot)[1:])
                        if f is not None:
                            return [f]
                    del slots[slot]
            elif op == "set":
                mode, assign, astype = step[1], {k: float(v) for k, v in step[2].items()}, step[3]
                conv = {"int": lambda v: int(v), "np": lambda v: np.float64(v)}.get(astype, float)
                rest = dict(assign)
                if mode == "vector":
                    for vn, vp in vecs.items():
                        keys = [f"{vn}[{i}]" for i in range(len(vp))]
                        if all(kk in rest for kk in keys):
                            vals = [conv(rest.pop(kk)) for kk in keys]
                            vp.set(np.array(vals) if astype == "np" else vals)
                for nm, v in rest.items():
                    qpool[nm].set(conv(v))
                cur.update(assign)
                done.append(f"set[{mode},{astype}] {_ph_short(assign)}")
            elif op == "call":
                done.append("call")
                for pt in points:
                    f = judge(pt, observe(pt))
                    if f is not None:
                        return [f]
            elif op == "clear":
                C._compile_cached.cache_clear()
                done.append("cache_clear")
            elif op == "query":
                done.append("read-only queries")
                for qf in (lambda: e.degree, lambda: e.get_variables(), lambda: repr(e), lambda: hash(e),
                           lambda: AD.gradient(e, leaves["x"]), lambda: e.evaluate(dict(points[0]))):
                    try:
                        with warnings.catch_warnings(), np.errstate(all="ignore"):
                            warnings.simplefilter("ignore")
                            qf()
                    except Exception:  # noqa: BLE001
                        pass
    finally:
        C._compile_cached.cache_clear()
    return []


def _ph_short(d, limit=8):
    items = list(d.items())
    txt = ", ".join(f"{k}={v:g}" for k, v in items[:limit])
    return "{" + txt + (", …" if len(items) > limit else "") + "}"


def _parhist_json(case):
    return {k: case[k] for k in ("tag", "kind", "wrapper", "combo", "family", "n", "recipe", "pool", "points", "history", "thr",
                                 "node", "share") if k in case}


def parhist_section(rep, rng, thorough):
    stats = {}
    n_fail = 0
    found = []
    for case in parhist_cases(rng, thorough):
        for key in ("kind", "family"):
            hk = f"parhist:{key}:{case[key]}"
            rep.histogram[hk] = rep.histogram.get(hk, 0) + 1
        before = stats.get("judged", 0)
        fails = parhist_run(case, stats=stats)
        if stats.get("judged", 0) > before and not fails:
            rep.nontrivial.add(hash(("parhist", repr(case["recipe"]), repr(case["history"]))))
        for f in fails:
            n_fail += 1
            found.append(f)
    # the smallest failing case first (run.py reports the first violation): short vectors, short formulas
    found.sort(key=lambda f: (int(f["case"]["n"]), len(f.get("formula", ""))))
    rep.oracle_failures.extend(found[:20])
    rep.evaluations += stats.get("judged", 0)
    rep.histogram["parhist_points"] = stats.get("judged", 0)
    rep.histogram["parhist_points_sharp"] = stats.get("judged-sharp", 0)
    for k, v in stats.items():
        if k.startswith("skip:"):
            rep.skipped["parameters in reductions × histories: " + k[5:]] = v


def replay_parhist(f) -> bool:
    case = dict(f["case"])
    print("formula:", rec_text(_tuplify(case["recipe"])))
    for st in case["history"]:
        print("  step:", str(st)[:200])
    r = parhist_run(case)
    for x in r:
        print("parhist_run:", {k: x[k] for k in ("what", "observable", "got", "want", "tolerance", "point", "params",
                                                 "params_when_compiled", "history_so_far") if k in x})
    if not r:
        print("parhist_run: all observables agree with the NumPy value of the formula at every step")
    return not r


# ----------------------------------------------------------------------------- search / replay


def check_point(e, V, pt, newp, thr):
    """the property oracle on one input of the real code; None = holds / not judged, else failure dict"""
    import optyx.core.compiler as C

    try:
        ref = float(oracle.prim(oracle.ref_eval(e, dict(pt))))
    except (oracle.NotRegular, OverflowError, ZeroDivisionError, ValueError, KeyError):
        return None
    if not well_conditioned(e, pt):
        return None
    old = C._RECURSION_THRESHOLD
    try:
        C._RECURSION_THRESHOLD = thr
        C._compile_cached.cache_clear()
        arr = np.array([pt[v.name] for v in V], dtype=float)
        obs = {
            "compile_expression(e,V)(x)": call(lambda: C.compile_expression(e, V)(arr)),
            "e.evaluate(values)": call(lambda: e.evaluate(dict(pt))),
            "compile_to_dict_function(e,V)(values)": call(lambda: C.compile_to_dict_function(e, V)(dict(pt))),
        }
    finally:
        C._RECURSION_THRESHOLD = old
        C._compile_cached.cache_clear()
    for nm, (val, err) in obs.items():
        if val is None:
            f = {"what": f"{nm} raised {err} at a regular point", "want": ref, "observable": nm}
            if err == "int_negative_power":
                f["kind"] = "int_negative_power"
            return f
        if not same(val, ref):
            return {"what": f"{nm} differs from the mathematical value", "got": val, "want": ref, "observable": nm}
    return None


def expr_params(e):
    """the Parameter objects of an expression in first-visit order (explicit stack; through vector and matrix operands)"""
    from optyx.core.parameters import Parameter

    out, seen, stack = [], set(), [e]
    while stack:
        n = stack.pop()
        if id(n) in seen:
            continue
        seen.add(id(n))
        if isinstance(n, Parameter):
            out.append(n)
            continue
        for attr in ("right", "left", "operand", "vector", "expression"):
            sub = getattr(n, attr, None)
            if sub is None:
                continue
            if hasattr(sub, "_expressions"):
                stack += list(reversed(sub._expressions))
                inner = getattr(sub, "vector", None)  # MatrixVectorProduct keeps its operand as well
                if inner is not None and hasattr(inner, "_expressions"):
                    stack += list(reversed(inner._expressions))
            elif hasattr(sub, "evaluate") and not hasattr(sub, "_variables"):
                stack.append(sub)
        m = getattr(n, "matrix", None)
        if m is not None and hasattr(m, "_expressions"):
            stack += [x for row in reversed(m._expressions) for x in reversed(row)]
    return out


def check_point_sets(e, V, pt, thr, before, after):
    """compile / Parameter.set / call on one expression: every Parameter gets its `before` value (by name), the three
    compiled entry points are built, every Parameter gets its `after` value, and the observables are judged by the
    reference interpreter at the values they have NOW.  None = holds / not judged, else a failure dict"""
    import optyx.core.compiler as C

    ps = expr_params(e)
    if not ps:
        return None
    for p in ps:
        p.set(float(before.get(p.name, p.value)))
    old = C._RECURSION_THRESHOLD
    try:
        C._RECURSION_THRESHOLD = thr
        C._compile_cached.cache_clear()
        try:
            fn, dfn, cexp = C.compile_expression(e, V), C.compile_to_dict_function(e, V), C.CompiledExpression(e, V)
        except Exception:  # noqa: BLE001
            return None  # judged by check_point
        for p in ps:
            p.set(float(after.get(p.name, p.value)))
        try:
            ref = float(oracle.prim(oracle.ref_eval(e, dict(pt))))
        except (oracle.NotRegular, OverflowError, ZeroDivisionError, ValueError, KeyError):
            return None
        if not well_conditioned(e, pt):
            return None
        arr = np.array([pt[v.name] for v in V], dtype=float)
        obs = {
            "compile_expression(e,V)(x)": call(lambda: fn(arr)),
            "e.evaluate(values)": call(lambda: e.evaluate(dict(pt))),
            "compile_to_dict_function(e,V)(values)": call(lambda: dfn(dict(pt))),
            "CompiledExpression.value": call(lambda: cexp.value(arr)),
            "compile_expression(e,V)(x), compiled again after the set": call(lambda: C.compile_expression(e, V)(arr)),
        }
    finally:
        C._RECURSION_THRESHOLD = old
        C._compile_cached.cache_clear()
    for nm, (val, err) in obs.items():
        if val is None or not same(val, ref):
            f = {"what": f"{nm}: " + (f"raised {err}" if val is None else "differs from the mathematical value") +
                         " after Parameter.set between compilation and call", "got": val, "want": ref, "observable": nm,
                 "set_history": True, "params_when_compiled": {k: float(v) for k, v in before.items()},
                 "params": {k: float(v) for k, v in after.items()}}
            if err == "int_negative_power":
                f["kind"] = "int_negative_power"
            return f
    return None


def probe_points(rng, names, k):
    """many points for one expression: all sign patterns (few variables), near-singular and large coordinates, random"""
    import itertools

    pts = []
    if len(names) <= 4:
        for signs in itertools.product((1.0, -1.0), repeat=len(names)):
            pts.append({n: sg * rng.choice([0.3125, 1.0625, 2.5625]) for n, sg in zip(names, signs)})
    for _ in range(k):
        style = rng.random()
        if style < 0.3:
            pts.append({n: rng.choice([1e-9, -1e-9, 1e-7, 1e-3, 0.5, 1.0, 5e8, -2e8]) for n in names})
        else:
            pts.append({n: rng.randint(-16, 16) / 8 + 1 / 16 for n in names})
    return pts


def search(ctx, rep):
    from optyx import Variable
    from optyx.core.parameters import Parameter

    rng = core.Rng(ctx["seed"] + 104729)
    # (1) the cases on which model and implementation disagree, at many points, through both builders
    seen = set()
    for sx, names, pvals in list(ctx.get("_c01_mismatch_cases", []))[:400]:
        if (sx, tuple(names)) in seen:
            continue
        seen.add((sx, tuple(names)))
        try:
            e = deser(sx)
        except Exception:  # noqa: BLE001
            continue
        byname = {v.name: v for v in gen.expr_vars(e)}
        V = [byname.get(n, Variable(n)) for n in names]
        if any(n not in names for n in byname):
            continue
        pnames = sorted({p.name for p in expr_params(e)})
        if pnames:
            # the mismatching case under compile / Parameter.set / call histories (a freshly read Parameter is 0.0:
            # without this every Parameter of the case would be judged at 0 only)
            for pt in probe_points(rng, names, 6):
                for thr in (0, 400):
                    before = {n: rng.choice([1.5, 0.5, 2.0, -0.5, 1.0, 0.0, 3.0]) for n in pnames}
                    after = {n: rng.choice([v for v in (2.5, -1.5, 0.75, 4.0, 0.0, 1.0, -2.0) if v != before[n]]) for n in pnames}
                    r = check_point_sets(e, V, pt, thr, before, after)
                    if r is not None and r.get("kind") != "int_negative_power":
                        r.update({"expr": sx, "vars": names, "point": pt, "threshold": thr})
                        return r
        for pt in probe_points(rng, names, 24):
            for thr in (0, 400):
                for chk, tagk in ((check_exact, "exact"), (check_loose, "loose"), (lambda *a: check_point(a[0], a[1], a[2], {}, a[3]), None)):
                    r = chk(e, V, pt, thr)
                    if r == "skip":
                        continue
                    if r is not None and r.get("kind") != "int_negative_power":
                        r.update({"expr": sx, "vars": names, "point": pt, "threshold": thr, "params": {}})
                        if tagk:
                            r["judge"] = tagk
                        return r
                    break
    # (2) Parameters inside vector / matrix reductions × compile / set / call histories (compile-time shortcuts), thorough sizes
    found = []
    for case in parhist_cases(rng, True):
        found += parhist_run(case)
        if len(found) >= 30:
            break
    if found:
        return min(found, key=lambda f: (int(f["case"]["n"]), len(f.get("formula", ""))))
    # (3) the formula the user wrote vs what was built (construction-time rewrites), thorough sizes
    for case in recipe_cases(rng, True):
        fails = [f for f in recipe_check(case, rng, True) if f.get("kind") != "int_negative_power"]
        if fails:
            return fails[0]
    for tag, e, V, pt, pset in magnitude_cases(rng, True):
        for p, v in pset.items():
            p.set(v)
        r = check_exact(e, V, pt, 400)
        if r not in (None, "skip"):
            try:
                r.update({"expr": ser(e), "vars": [v.name for v in V], "point": pt, "threshold": 400, "exact": True,
                          "params": {p.name: v for p, v in pset.items()}})
            except Unsupported:
                continue
            return r
    for i in range(6000):
        U = gen.Universe(rng)
        e = gen.rand_expr(rng, U, rng.randint(1, 5), safe=True)
        if has_f20_shape(e):
            continue
        for vtag, V in v_variants(rng, e, U):
            pt = gen.rand_point(rng, V)
            thr = THRESHOLDS[i % 3]
            r = check_point(e, V, pt, {}, thr)
            if r is not None and r.get("kind") != "int_negative_power":
                try:
                    r.update({"expr": ser(e), "vars": [v.name for v in V], "point": pt, "threshold": thr,
                              "params": {p.name: float(p.value) for p in U.params}})
                except Unsupported:
                    continue
                return r
    return None


def replay(payload) -> bool:
    from optyx import Variable
    from optyx.core.parameters import Parameter

    f = payload["failure"]
    if f.get("param_history"):
        return replay_parhist(f)
    if f.get("recipe_oracle"):
        return replay_recipe(f)
    e = deser(f["expr"])
    byname = {v.name: v for v in gen.expr_vars(e)}
    V = [byname.get(n, Variable(n)) for n in f["vars"]]
    if "point" not in f:
        txt, _ = py_compile(e, V, int(f.get("threshold", 400)))
        print("compile_expression:", txt[:300])
        return not txt.startswith("raise:")
    if f.get("set_history") and expr_params(e):
        r = check_point_sets(e, V, {k: float(v) for k, v in f["point"].items()}, int(f.get("threshold", 400)),
                             f["params_when_compiled"], f["params"])
        print("check_point_sets:", r)
        return r is None
    # parameters: restore the values of the failing run on the rebuilt objects
    stack = [e]
    seen = set()
    while stack:
        n = stack.pop()
        if id(n) in seen:
            continue
        seen.add(id(n))
        if isinstance(n, Parameter) and n.name in f.get("params", {}):
            n.set(float(f["params"][n.name]))
        for attr in ("left", "right", "operand", "vector", "expression"):
            sub = getattr(n, attr, None)
            if sub is None:
                continue
            if hasattr(sub, "_expressions"):
                stack += list(sub._expressions)
            elif hasattr(sub, "evaluate"):
                stack.append(sub)
        m = getattr(n, "matrix", None)
        if m is not None and hasattr(m, "_expressions"):
            stack += [x for row in m._expressions for x in row]
    pt = {k: float(v) for k, v in f["point"].items()}
    if f.get("judge") == "loose":
        r = check_loose(e, V, pt, int(f.get("threshold", 400)))
        print("check_loose:", r)
        return r in (None, "skip")
    if f.get("exact") or f.get("judge") == "exact":
        r = check_exact(e, V, pt, int(f.get("threshold", 400)))
        print("check_exact:", r)
        return r in (None, "skip")
    r = check_point(e, V, pt, {}, int(f.get("threshold", 400)))
    print("check_point:", r)
    return r is None
