"""C11 — vector and matrix modelling operations denote their NumPy counterparts.

Tie:    recipe programs (sequences of API calls over vector / matrix variables of sizes 1..6) are run
        (i) on the real optyx objects, (ii) on the Lean model (`recipe` command of Drive/Api.lean, which
        executes Py.VecApi with its own object-id allocation) and the canonical text of every register is
        compared exactly (structure of every built object, error class of every rejected call).
Oracle: (iii) the same recipe interpreted directly in NumPy on signed powers of two (all arithmetic exact); every register the real
        code evaluates must equal the NumPy value exactly; an object that was built must evaluate; a call
        NumPy rejects for incompatible shapes must have been rejected by optyx.
Also:   the CPython slice model is compared exhaustively with `list(range(n))[slice]`.
Known:  F11 (`VectorParameter @ x`, `x.dot(MatrixParameter @ x)`, more generally DotProduct with a raw array),
        F23 (a scalar / Elementwise* Expression on the left of a vector or matrix operand).
"""
from __future__ import annotations

import itertools
import warnings
from fractions import Fraction

import numpy as np

import core
from ser import Ser, Unsupported, rat

LEAN_MODULE = "Optyx.Props.C11"
EXTRA_MODULES = ["Optyx.Props.PinsC11", "Optyx.Props.OperatorsTie", "Optyx.Props.EvalTie"]   # transcription anchors (harness/source_pins.py)
THEOREMS = [
    "Optyx.Props.C11.getitem_denote",
    "Optyx.Props.C11.slice_denote",
    "Optyx.Props.C11.sliceIdx_spec",
    "Optyx.Props.C11.vectorBinaryOp_denote",
    "Optyx.Props.C11.vectorReflectedOp_denote",
    "Optyx.Props.C11.vectorNeg_denote",
    "Optyx.Props.C11.vvarPow_denote",
    "Optyx.Props.C11.sum_denote",
    "Optyx.Props.C11.dot_denote",
    "Optyx.Props.C11.dot_rewrite_sound",
    "Optyx.Props.C11.linComb_denote",
    "Optyx.Props.C11.mvp_denote",
    "Optyx.Props.C11.quad_denote",
    "Optyx.Props.C11.norm_denote",
    "Optyx.Props.C11.matmulVector_denote",
    "Optyx.Props.C11.trace_denote",
    "Optyx.Props.C11.T_T",
    "Optyx.Props.C11.transpose_entry",
    "Optyx.Props.C11.symmetric_entry",
    "Optyx.Props.C11.symmetric_upper_distinct",
    "Optyx.Props.C11.matGetItem_entry",
    "Optyx.Props.C11.rows_cols_denote",
    "Optyx.Props.C11.diagonal_denote",
    "Optyx.Props.C11.matrixBinaryOp_denote",
    "Optyx.Props.C11.matrixReflected_denote",
    "Optyx.Props.C11.matrixSum_denote",
    "Optyx.Props.C11.diagMatrix_entry",
    "Optyx.Props.C11.shape_mismatch_raises",
    "Optyx.Props.C11.distinct_preserved",
    "Optyx.Props.OperatorsTie.operators_spec",
    "Optyx.Props.OperatorsTie.comparisons_spec",
    "Optyx.Props.OperatorsTie.ensureExpr_text",
    "Optyx.Props.EvalTie.evaluate_step",
    "Optyx.Props.EvalTie.step_unique",
    "Optyx.Props.PinsC11.anchors",
]
ASSUMPTIONS = [
    "values are reals; IEEE rounding and NumPy's summation order are not modelled (recipes use small integers so all three interpretations are exact)",
    "CPython list slicing is modelled by PySlice_AdjustIndices (compared exhaustively with CPython on every run)",
    "object identity is an explicit id; the model allocates ids in the order the Python constructors create objects",
    "arrays of ndim >= 3, ragged lists, bool / complex / string operands are outside the model",
]


def run_lean_unit(lines):
    return core.run_lean(lines)


ERR_NAMES = {"DimensionMismatchError", "WrongDimensionalityError", "InvalidOperationError", "EmptyContainerError",
             "SquareMatrixError", "InvalidSizeError", "IndexError", "TypeError", "ValueError"}


class PyErr:
    def __init__(self, cls):
        self.cls = cls

    def __repr__(self):
        return f"PyErr({self.cls})"


DEP = PyErr("dep")


# ------------------------------------------------------------------ literals


def lit_py(l):
    k, v = l[0], l[1] if len(l) > 1 else None
    if k == "int":
        return int(v)
    if k == "float":
        return float(v)
    if k == "npf":
        return np.float64(v)
    if k == "npi":
        return np.int64(v)
    if k == "a0":
        return np.array(float(v))
    if k == "a1":
        return make_arr([float(x) for x in v], l[2] if len(l) > 2 else None)
    if k == "a2":
        return make_arr([[float(x) for x in r] for r in v], l[2] if len(l) > 2 else None)
    if k == "aN":
        return np.ones((int(l[2]),) + (1,) * (int(v) - 1))
    if k == "l1":
        return [float(x) for x in v]
    if k == "l2":
        return [[float(x) for x in r] for r in v]
    if k == "np":                                   # ("np", value, dtype): a NumPy scalar of that dtype
        return getattr(np, l[2])(v)
    if k == "pybool":
        return bool(v)
    raise ValueError(k)


LIT_KINDS = ("r", "int", "float", "npf", "npi", "a0", "a1", "a2", "aN", "l1", "l2", "np", "pybool")
# float16 / float32 constants must not leak their precision into evaluate() (finding F32, fixed in /repo): always included
NARROW_FLOATS = True
LAYOUTS = ["C", "F", "T", "neg", "strided", "int", "uint8", "int8", "int32", "uint64", "bool"] + (["float32", "float16"] if NARROW_FLOATS else [])


def make_arr(data, layout):
    """the same logical array in different memory layouts / dtypes (NumPy semantics do not depend on them)"""
    a = np.array(data, dtype=float)
    if layout in (None, "C") or a.size == 0:
        return a
    if layout == "F":
        return np.asfortranarray(a)
    if layout == "T":
        return np.ascontiguousarray(a.T).T                       # transposed view of a C-ordered buffer
    if layout == "neg":
        return np.ascontiguousarray(a[..., ::-1])[..., ::-1]     # negative-stride view
    if layout == "strided":
        big = np.full((2 * a.shape[0],) + a.shape[1:], 99.0)
        big[::2] = a
        return big[::2]                                          # non-contiguous slice
    if layout == "int":
        return a.astype(np.int64) if np.all(a == np.round(a)) else a
    if layout in ("uint8", "int8", "int32", "uint64", "float32", "float16", "bool"):
        # another element type, when every value is representable in it (otherwise the float64 array)
        with np.errstate(all="ignore"):
            b = a.astype(getattr(np, layout if layout != "bool" else "bool_"))
            return b if np.array_equal(b.astype(float), a) else a
    raise ValueError(layout)


def lit_sexp(l):
    k = l[0]
    if k == "r":
        return f"(r {l[1]})"
    if k in ("int", "float", "npf", "npi", "a0"):
        return f"({k} {rat(l[1])})"
    if k in ("a1", "a2") and len(l) > 2 and l[2] == "bool" and lit_py(l).dtype == bool:
        raise Unsupported("bool array operand")           # Constant(np.bool_): no S-expression; values are still checked
    if k in ("a1", "l1"):
        return f"({k} (" + " ".join(rat(x) for x in l[1]) + "))"
    if k in ("a2", "l2"):
        return f"({k} (" + " ".join("(" + " ".join(rat(x) for x in r) + ")" for r in l[1]) + "))"
    if k == "aN":
        return f"(aN {l[1]} {l[2]})"
    if k == "np" and l[2] == "bool_":
        raise Unsupported("NumPy bool operand")
    if k == "np":
        return f"(npf {rat(float(lit_py(l)))})" if l[2] == "float64" else f"(npi {rat(float(lit_py(l)))})"
    if k == "pybool":
        raise Unsupported("Python bool operand")      # Constant(True): no S-expression; values are still checked
    raise ValueError(k)


def key_sexp(k):
    if k[0] == "i":
        return f"(i {k[1]})"
    if k[0] == "sl":
        return "(sl " + " ".join("None" if x is None else str(x) for x in k[1:]) + ")"
    return "(other)"


def key_py(k):
    if k[0] == "i":
        return int(k[1])
    if k[0] == "sl":
        return slice(k[1], k[2], k[3])
    return 1.5


def step_sexp(st):
    op = st[0]
    if op == "vec":
        return f'(vec "{st[1]}" {st[2]})'
    if op == "mat":
        return f'(mat "{st[1]}" {st[2]} {st[3]} {1 if st[4] else 0})'
    if op == "imm":
        return f"(imm {lit_sexp(st[1])})"
    if op == "getitem":
        return f"(getitem {lit_sexp(st[1])} {key_sexp(st[2])})"
    if op == "mgetitem":
        return f"(mgetitem {lit_sexp(st[1])} {key_sexp(st[2])} {key_sexp(st[3])})"
    if op == "mgetitem1":
        return f"(mgetitem1 {lit_sexp(st[1])})"
    if op == "arith":
        return f"(arith {st[1]} {lit_sexp(st[2])} {lit_sexp(st[3])})"
    if op in ("neg", "sum", "T", "rows", "cols", "diagonal", "diag", "trace", "getvars", "diagmat", "diagmat_new",
              "frob"):
        return f"({op} {lit_sexp(st[1])})"
    if op in ("dot", "matmul", "mvp", "qf", "lincomb"):
        return f"({op} {lit_sexp(st[1])} {lit_sexp(st[2])})"
    if op == "norm":
        return f"(norm {lit_sexp(st[1])} {st[2]})"
    if op == "fn":
        return f"(fn {st[1]} {lit_sexp(st[2])})"
    if op == "nth":
        return f"(nth {lit_sexp(st[1])} {st[2]})"
    if op == "cmp":
        return f"(cmp {st[1]} {lit_sexp(st[2])} {lit_sexp(st[3])})"
    raise ValueError(op)


# ------------------------------------------------------------------ canonical text of real objects


def ser_constraint(c, S):
    return f"({c.sense} {S.expr(c.expr)})"


def ser_obj(o):
    """canonical text of an API object (same syntax as showVal in Drive/Api.lean); raises Unsupported"""
    from optyx.constraints import Constraint
    from optyx.core.expressions import Expression, Variable
    from optyx.core import vectors as V
    from optyx.core import matrices as M

    S = Ser(with_ids=False)
    if isinstance(o, Constraint):
        return "(single " + ser_constraint(o, S) + ")"
    if isinstance(o, (np.bool_, bool)) or (isinstance(o, np.ndarray) and o.dtype == bool):
        return "(numpy-bool)"
    if isinstance(o, list):
        if o and all(isinstance(c, Constraint) for c in o):
            return "(many " + " ".join(ser_constraint(c, S) for c in o) + ")"
        if all(isinstance(v, V.VectorVariable) for v in o):
            return "(vvs " + " ".join(S.vvar(v) for v in o) + ")"
        if all(isinstance(v, Variable) for v in o):
            return "(vars (" + " ".join(S.var(v) for v in o) + "))"
        raise Unsupported("list result")
    if isinstance(o, M.MatrixVectorProduct):
        rows = " ".join(S.rats(r) for r in np.asarray(o.matrix))
        return f"(mvp ({rows}) {S.vec(o.vector)})"
    if isinstance(o, V.VectorExpression):
        return "(ve (" + " ".join(S.expr(e) for e in o._expressions) + "))"
    if isinstance(o, V.VectorVariable):
        return S.vvar(o)
    if isinstance(o, V.ElementwisePower):
        return f"(epow {S.vvar(o.vector)} {rat(o.power)})"
    if isinstance(o, V.ElementwiseUnary):
        return f"(eun {S.vvar(o.vector)} {o.op})"
    if isinstance(o, M.MatrixVariable):
        rows = " ".join("(" + " ".join(S.var(v) for v in row) + ")" for row in o._variables)
        return f'(mv "{o.name}" {1 if o.symmetric else 0} {1 if o._is_transpose else 0} ({rows}))'
    if isinstance(o, M.MatrixExpression):
        return "(me (" + " ".join("(" + " ".join(S.expr(e) for e in row) + ")" for row in o._expressions) + "))"
    if isinstance(o, Expression):
        return "(e " + S.expr(o) + ")"
    if isinstance(o, NewVars):
        def b(x):
            return "None" if x is None else rat(x)
        return "(newvars " + " ".join(f"({S.var(v)} {b(v.lb)} {b(v.ub)})" for v in o.vars) + ")"
    raise Unsupported(f"result {type(o).__name__}")


class NewVars:
    def __init__(self, vs):
        self.vars = vs


def show_reg(o):
    if o is DEP:
        return "(err dep)"
    if isinstance(o, PyErr):
        return f"(err {o.cls})"
    try:
        return "(ok " + ser_obj(o) + ")"
    except (Unsupported, TypeError, ValueError):  # ser.cst on a Constant that wraps a container
        return "(err outside-model)"


# ------------------------------------------------------------------ the real API


def arith_py(op, a, b):
    if op == "+":
        return a + b
    if op == "-":
        return a - b
    if op == "*":
        return a * b
    if op == "/":
        return a / b
    if op == "**":
        return a ** b
    raise ValueError(op)


ALIAS_LOG = []


def arith_np(op, a, b):
    """the NumPy ufunc optyx's nodes evaluate with (np.add … np.power); note that the scalar `**` operator of a NumPy
    scalar takes another code path than np.power and may differ from it in the last unit"""
    return {"+": np.add, "-": np.subtract, "*": np.multiply, "/": np.divide, "**": np.power}[op](a, b)


def py_step(regs, st):
    """execute one step on real optyx; returns the register value (object | PyErr)"""
    import optyx
    from optyx.core import vectors as V
    from optyx.core import matrices as M
    from optyx.core import functions as F

    def arg(l):
        if l[0] == "r":
            return regs[l[1]]
        v = lit_py(l)
        if isinstance(v, np.ndarray):
            ALIAS_LOG.append((v, v.copy(), v.dtype, v.strides))   # optyx must leave the caller's array alone
        return v

    op = st[0]
    args = [arg(x) for x in st[1:] if isinstance(x, tuple) and x and x[0] in
            LIT_KINDS] if op not in ("vec", "mat") else []
    if any(isinstance(a, PyErr) for a in args):
        return DEP
    try:
        with warnings.catch_warnings(), np.errstate(all="ignore"):
            warnings.simplefilter("ignore")
            if op == "vec":
                return optyx.VectorVariable(st[1], st[2])
            if op == "mat":
                return optyx.MatrixVariable(st[1], st[2], st[3], symmetric=bool(st[4]))
            if op == "imm":
                return args[0]
            if op == "getitem":
                return args[0][key_py(st[2])]
            if op == "mgetitem":
                return args[0][key_py(st[2]), key_py(st[3])]
            if op == "mgetitem1":
                return args[0][1]
            if op == "arith":
                return arith_py(st[1], args[0], args[1])
            if op == "neg":
                return -args[0]
            if op == "sum":
                return args[0].sum()
            if op == "dot":
                return args[0].dot(args[1])
            if op == "matmul":
                return args[0] @ args[1]
            if op == "norm":
                a = args[0]
                return a.norm(st[2]) if isinstance(a, V.VectorVariable) else V.norm(a, st[2])
            if op == "fn":
                return {"abs": F.abs_}[st[1]](args[0])
            if op == "T":
                return args[0].T
            if op == "rows":
                return list(args[0].rows_iter())
            if op == "cols":
                return list(args[0].cols_iter())
            if op == "nth":
                return args[0][st[2]]
            if op == "diagonal":
                return args[0].diagonal()
            if op == "diag":
                return M.diag(args[0])
            if op == "trace":
                return args[0].trace()
            if op == "getvars":
                return args[0].get_variables()
            if op == "mvp":
                return M.MatrixVectorProduct(args[0], args[1])
            if op == "qf":
                return M.QuadraticForm(args[0], args[1])
            if op == "lincomb":
                return V.LinearCombination(args[0], args[1])
            if op == "diagmat":
                return M.diag_matrix(args[0])
            if op == "diagmat_new":
                m = M.diag_matrix(args[0])
                n = m.rows
                return NewVars([m._variables[i][j] for i in range(n) for j in range(n) if i != j])
            if op == "frob":
                return M.FrobeniusNorm(args[0])
            if op == "cmp":
                a, b = args
                if st[1] == "le":
                    return a <= b
                if st[1] == "ge":
                    return a >= b
                return a.eq(b)
    except RecursionError:
        return PyErr("RecursionError")
    except Exception as ex:  # noqa: BLE001
        return PyErr(type(ex).__name__)
    raise ValueError(op)


# ------------------------------------------------------------------ NumPy interpretation (the oracle)


class NpErr:
    pass


NPERR = NpErr()
NONUM = object()  # a register without numeric meaning (lists of variables, ...)


def np_step(nregs, st, values):
    def arg(l):
        if l[0] == "r":
            return nregs[l[1]]
        v = lit_py(l)
        return np.asarray(v, dtype=float) if isinstance(v, list) else v

    op = st[0]
    if op == "vec":
        if st[2] <= 0:
            return NPERR
        return np.array([values[f"{st[1]}[{i}]"] for i in range(st[2])], dtype=float)
    if op == "mat":
        r, c, sym = st[2], st[3], st[4]
        if r <= 0 or c <= 0 or (sym and r != c):
            return NPERR
        return np.array([[values[f"{st[1]}[{min(i, j)},{max(i, j)}]" if sym else f"{st[1]}[{i},{j}]"]
                          for j in range(c)] for i in range(r)], dtype=float)
    args = [arg(x) for x in st[1:] if isinstance(x, tuple) and x and x[0] in LIT_KINDS]
    if any(a is NPERR for a in args):
        return NPERR
    if any(a is NONUM for a in args) and op != "nth":
        return NONUM
    try:
        with warnings.catch_warnings(), np.errstate(all="ignore"):
            warnings.simplefilter("ignore")
            if op == "imm":
                return args[0]
            if op == "getitem":
                k = key_py(st[2])
                r = args[0][k]
                return NPERR if isinstance(r, np.ndarray) and r.size == 0 else r
            if op == "mgetitem":
                r = args[0][key_py(st[2]), key_py(st[3])]
                return NPERR if isinstance(r, np.ndarray) and r.size == 0 else r
            if op == "mgetitem1":
                return NPERR
            if op == "arith":
                return arith_np(st[1], args[0], args[1])
            if op == "neg":
                return -args[0]
            if op == "sum":
                return np.sum(args[0])
            if op == "dot":
                a, b = np.asarray(args[0]), np.asarray(args[1])
                if a.ndim != 1 or b.ndim != 1:
                    return NPERR
                return np.dot(a, b)
            if op == "matmul":
                return args[0] @ args[1]
            if op == "norm":
                if st[2] not in (1, 2):
                    return NPERR
                return np.linalg.norm(args[0], st[2])
            if op == "fn":
                return np.abs(args[0])
            if op == "T":
                return np.asarray(args[0]).T
            if op == "rows":
                return [row for row in args[0]]
            if op == "cols":
                return [col for col in args[0].T]
            if op == "nth":
                return args[0][st[2]]
            if op in ("diagonal", "diag"):
                a = np.asarray(args[0])
                if a.ndim != 2 or a.shape[0] != a.shape[1]:
                    return NPERR
                return np.diag(a)
            if op == "trace":
                a = np.asarray(args[0])
                if a.ndim != 2 or a.shape[0] != a.shape[1]:
                    return NPERR
                return np.trace(a)
            if op in ("getvars", "diagmat_new", "cmp"):
                return NONUM
            if op == "mvp":
                a, b = np.asarray(args[0]), np.asarray(args[1])
                if a.ndim != 2 or b.ndim != 1:
                    return NPERR
                return a @ b
            if op == "qf":
                x, q = np.asarray(args[0]), np.asarray(args[1])
                if q.ndim != 2 or x.ndim != 1:
                    return NPERR
                return x @ q @ x
            if op == "lincomb":
                c, x = np.asarray(args[0]), np.asarray(args[1])
                if c.ndim != 1 or x.ndim != 1:
                    return NPERR
                return c @ x
            if op == "diagmat":
                return np.diag(args[0])
            if op == "frob":
                return np.linalg.norm(args[0])
    except Exception:  # noqa: BLE001
        return NPERR
    raise ValueError(op)


def real_value(o, values):
    """evaluate a real API object at `values`; returns ndarray/float, NONUM, or raises"""
    from optyx.core.expressions import Expression
    from optyx.core import vectors as V
    from optyx.core import matrices as M

    if isinstance(o, V.VectorVariable):
        return np.array([float(np.asarray(v.evaluate(values))) for v in o._variables])
    if isinstance(o, (V.VectorExpression,)):
        return np.array([float(np.asarray(x)) for x in o.evaluate(values)])
    if isinstance(o, M.MatrixVariable):
        return np.array([[float(values[v.name]) for v in row] for row in o._variables])
    if isinstance(o, M.MatrixExpression):
        return np.asarray(o.evaluate(values), dtype=float)
    if isinstance(o, Expression):
        r = np.asarray(o.evaluate(values))
        if r.dtype == object:
            raise TypeError("evaluate returned an object array")
        return r.astype(float)
    if isinstance(o, list) and o and all(isinstance(v, V.VectorVariable) for v in o):
        return [real_value(v, values) for v in o]
    if isinstance(o, (int, float, np.ndarray, np.floating, np.integer, list)):
        return NONUM  # a literal passed through `imm`
    return NONUM


def same_value(a, b):
    if isinstance(a, list) or isinstance(b, list):
        return isinstance(a, list) and isinstance(b, list) and len(a) == len(b) and all(same_value(x, y) for x, y in zip(a, b))
    a, b = np.asarray(a, dtype=float), np.asarray(b, dtype=float)
    return a.shape == b.shape and bool(np.array_equal(a, b, equal_nan=True))


# ------------------------------------------------------------------ recipe generation


VEC_KINDS = ("VectorVariable", "VectorExpression", "MatrixVectorProduct")
MAT_KINDS = ("MatrixVariable", "MatrixExpression")


def kind_of(o):
    if isinstance(o, PyErr):
        return "err"
    if isinstance(o, list):
        return "list"
    return type(o).__name__


def known_kind(st, regs):
    """classification of the known findings by the specific input class of the call"""
    from optyx.core.expressions import Expression
    from optyx.core import vectors as V

    def a(i):
        l = st[i]
        return regs[l[1]] if l[0] == "r" else lit_py(l)

    if st[0] == "arith":
        l, r = a(2), a(3)
        if isinstance(l, Expression) and kind_of(r) in VEC_KINDS + MAT_KINDS:
            return "elementwise_node_arith"
    if st[0] == "dot":
        r = a(2)
        if isinstance(r, (np.ndarray, list)) or kind_of(r) == "MatrixVariable":
            return "vector_parameter_matmul"
    return None


def small_int(rng, nonzero=True):
    v = rng.choice([1, 2, -1, -2, 4, -4]) if nonzero else rng.choice([0, 1, 2, -1, 4, -2])
    return v


def rand_arr(rng, n, div=False):
    return [float(rng.choice([1, 2, 4, -2, -1]) if div else small_int(rng, nonzero=False)) for _ in range(n)]


def rand_slice(rng, n):
    def b():
        return rng.choice([None, None] + list(range(-n - 1, n + 2)))
    return ("sl", b(), b(), rng.choice([None, None, 1, 1, 2, -1, -1, -2, 3]))


class RecipeBuilder:
    """grows a recipe while executing it on the real API (so that operand kinds/shapes are known)"""

    def __init__(self, rng, tag="", scale=1.0):
        self.rng = rng
        self.steps = []
        self.regs = []
        self.tag = tag
        self.scale = scale          # one power-of-two factor on every literal array of the recipe (keeps all sums exact)

    def arr(self, n, div=False):
        return [x * self.scale for x in rand_arr(self.rng, n, div)]

    def scalars(self):
        """registers holding a scalar expression the syntax can express (reductions, elements, wrapped ones)"""
        from optyx.core.expressions import Expression
        from optyx.core.vectors import ElementwisePower, ElementwiseUnary
        return [i for i, o in enumerate(self.regs)
                if isinstance(o, Expression) and not isinstance(o, (ElementwisePower, ElementwiseUnary)) and show_reg(o).startswith("(ok")]

    def add(self, st):
        self.steps.append(st)
        self.regs.append(py_step(self.regs, st))
        return len(self.regs) - 1

    def idx(self, kinds):
        return [i for i, o in enumerate(self.regs) if kind_of(o) in kinds]

    def size(self, i):
        o = self.regs[i]
        return getattr(o, "size", None) if kind_of(o) in VEC_KINDS + ("ElementwisePower",) else None

    def operand_for_vec(self, n, bad):
        """a right/left operand compatible (or not, if bad) with a vector of length n"""
        rng = self.rng
        m = n if not bad else rng.choice([k for k in range(1, 7) if k != n])
        c = rng.random()
        same = [i for i in self.idx(VEC_KINDS + ("ElementwisePower",)) if self.size(i) == m]
        if c < 0.35 and same:
            return ("r", rng.choice(same))
        if c < 0.5:
            return rng.choice([("int", small_int(rng)), ("float", rng.choice([0.5, 2.0, -0.5, 4.0])),
                               ("npf", rng.choice([2.0, 0.5])), ("npi", 2), ("a0", 2.0)])
        if c < 0.8:
            if rng.random() < 0.5:
                return ("a1", self.arr(m, div=True), rng.choice(LAYOUTS))
            return ("l1", self.arr(m, div=True))
        if c < 0.9:
            return ("a2", [self.arr(m, div=True)])
        if same:
            return ("r", rng.choice(same))
        return ("a1", self.arr(m, div=True))

    def operand_for_mat(self, shape, bad):
        rng = self.rng
        r, c = shape
        if bad:
            r, c = rng.choice([(r + 1, c), (r, c + 1), (c, r) if r != c else (r + 1, c + 1)])
        ch = rng.random()
        same = [i for i in self.idx(MAT_KINDS) if self.regs[i].shape == (r, c)]
        if ch < 0.35 and same:
            return ("r", rng.choice(same))
        if ch < 0.55:
            return rng.choice([("int", small_int(rng)), ("float", 2.0), ("npf", 2.0), ("npi", 2), ("a0", 2.0)])
        if ch < 0.9:
            if rng.random() < 0.66:
                return ("a2", [self.arr(c, div=True) for _ in range(r)], rng.choice(LAYOUTS))
            return ("l2", [self.arr(c, div=True) for _ in range(r)])
        return ("a1", self.arr(c, div=True))

    def grow(self):
        rng = self.rng
        vecs = self.idx(VEC_KINDS)
        vvs = self.idx(("VectorVariable",))
        mats = self.idx(MAT_KINDS)
        mvs = self.idx(("MatrixVariable",))
        lists = self.idx(("list",))
        ep = self.idx(("ElementwisePower", "ElementwiseUnary"))
        bad = rng.random() < 0.12
        choices = []
        scal = self.scalars()
        if scal:
            choices += ["swrap", "swrap", "swrap"]
        if vvs:
            choices += ["vgetint", "vslice", "vslice", "vpow", "vnorm", "vfn", "diagmat"]
        if vecs:
            choices += ["varith", "varith", "varith", "vrarith", "vrarith", "vneg", "vsum", "vdot", "vdot", "vdotmvp", "vdotmvp", "vmatmul",
                        "vrmatmul", "vrmatmul", "vegetint", "qf", "lincomb", "mvp"]
        if mats:
            choices += ["marith", "marith", "mrarith", "mneg", "msum", "mT"]
        if mvs:
            choices += ["mget", "mget", "mget", "mrows", "mcols", "mdiag", "mtrace", "mmatmul", "mmatmul", "mgetvars",
                        "mfrob", "mT"]
        if lists:
            choices += ["nth", "nth"]
        if ep:
            choices += ["epsum", "epsum"]
        ch = rng.choice(choices)
        if ch == "swrap":
            # wrappers (±const, k·, /k, neg, const − ·, square) around a scalar node, typically a reduction at the root
            i = rng.choice(scal)
            k = rng.choice([("int", 2), ("float", 0.5), ("int", -1), ("float", 4.0), ("npf", 2.0), ("int", 0), ("float", -2.0)])
            form = rng.choice(["+", "-", "*", "/", "r+", "r-", "r*", "neg", "sq", "add2"])
            if form == "/" and k[1] == 0:
                k = ("int", 2)
            if form == "neg":
                return self.add(("neg", ("r", i)))
            if form == "sq":
                return self.add(("arith", "**", ("r", i), ("int", 2)))
            if form == "add2":
                return self.add(("arith", rng.choice(["+", "-", "*"]), ("r", i), ("r", rng.choice(scal))))
            if form.startswith("r"):
                return self.add(("arith", form[1], k, ("r", i)))
            return self.add(("arith", form, ("r", i), k))
        if ch == "vgetint":
            i = rng.choice(vvs)
            n = self.size(i)
            return self.add(("getitem", ("r", i), ("i", rng.randint(-n - 1, n))))
        if ch == "vegetint":
            i = rng.choice(vecs)
            n = self.size(i)
            return self.add(("getitem", ("r", i), ("i", rng.randint(-n - 1, n))))
        if ch == "vslice":
            i = rng.choice(vvs)
            return self.add(("getitem", ("r", i), rand_slice(rng, self.size(i))))
        if ch == "vpow":
            return self.add(("arith", "**", ("r", rng.choice(vvs)), rng.choice([("int", 2), ("float", 2.0), ("int", 3), ("a0", 2.0), ("int", 0),
                                                                                  ("int", 1), ("int", -1), ("float", -2.0), ("np", 2, "uint8")])))
        if ch == "vnorm":
            return self.add(("norm", ("r", rng.choice(vecs)), rng.choice([1, 2, 2, 3])))
        if ch == "vfn":
            return self.add(("fn", "abs", ("r", rng.choice(vecs))))
        if ch == "diagmat":
            cand = [i for i in vvs if self.size(i) <= 3]
            if not cand:
                return self.grow()
            return self.add(("diagmat", ("r", rng.choice(cand))))
        if ch in ("varith", "vrarith"):
            i = rng.choice(vecs)
            op = rng.choice(["+", "-", "*", "/", "**"] if ch == "varith" else ["+", "-", "*", "/"])
            other = self.operand_for_vec(self.size(i), bad)
            if op == "**":
                other = rng.choice([("int", 2), ("int", 3), ("float", 2.0), ("int", 0), ("int", 1), ("int", -1)])
            # exactness: a divisor is a literal or a plain variable container (values are signed powers of two);
            # dividing by a computed expression would give non-dyadic values whose sums depend on the summation order
            if op == "/" and ch == "varith" and other[0] == "r" and kind_of(self.regs[other[1]]) != "VectorVariable":
                op = "*"
            if op == "/" and ch == "vrarith" and kind_of(self.regs[i]) != "VectorVariable":
                op = "-"
            if ch == "varith":
                return self.add(("arith", op, ("r", i), other))
            if other[0] == "r":
                other = ("a1", self.arr(self.size(i), div=True))
            return self.add(("arith", op, other, ("r", i)))
        if ch == "vneg":
            return self.add(("neg", ("r", rng.choice(vecs))))
        if ch == "vsum":
            return self.add(("sum", ("r", rng.choice(vecs))))
        if ch == "epsum":
            return self.add(("sum", ("r", rng.choice(ep))))
        if ch == "vdot":
            i = rng.choice(vecs)
            m = self.size(i) if not bad else rng.choice([k for k in range(1, 7) if k != self.size(i)])
            same = [j for j in vecs if self.size(j) == m]
            if not same:
                return self.grow()
            return self.add(("dot", ("r", i), ("r", rng.choice(same))))
        if ch == "vdotmvp":
            # u.dot(Q @ v): the QuadraticForm rewrite fires only for identical element objects
            if not vvs:
                return self.grow()
            iv = rng.choice(vvs)
            n = self.size(iv)
            same = [j for j in vecs if self.size(j) == n]
            q = [[float(rng.choice([1, 2, -1, 4, -2, 0])) for _ in range(n)] for _ in range(n)]
            k = self.add(("mvp", ("a2", q, rng.choice(LAYOUTS)), ("r", iv)))
            return self.add(("dot", ("r", rng.choice(same)), ("r", k)))
        if ch == "vmatmul":
            i = rng.choice(vecs)
            other = self.operand_for_vec(self.size(i), bad)
            if other[0] in ("int", "float", "npf", "npi", "a0") and rng.random() < 0.7:
                other = ("a1", self.arr(self.size(i)))
            return self.add(("matmul", ("r", i), other))
        if ch == "vrmatmul":
            i = rng.choice(vecs)
            n = self.size(i) if not bad else rng.choice([k for k in range(1, 7) if k != self.size(i)])
            if rng.random() < 0.5:
                other = rng.choice([("a1", self.arr(n), rng.choice(LAYOUTS)), ("l1", self.arr(n))])
            else:
                rows = [self.arr(n) for _ in range(rng.randint(1, 4))]
                other = rng.choice([("a2", rows, rng.choice(LAYOUTS)), ("l2", rows)])
            return self.add(("matmul", other, ("r", i)))
        if ch == "qf":
            i = rng.choice(vecs)
            n = self.size(i) if not bad else self.size(i) + 1
            return self.add(("qf", ("r", i), ("a2", [self.arr(n) for _ in range(n if rng.random() < 0.9 else n + 1)])))
        if ch == "lincomb":
            i = rng.choice(vecs)
            n = self.size(i) if not bad else self.size(i) + 1
            return self.add(("lincomb", ("a1", self.arr(n)), ("r", i)))
        if ch == "mvp":
            i = rng.choice(vecs)
            n = self.size(i) if not bad else self.size(i) + 1
            return self.add(("mvp", ("a2", [self.arr(n) for _ in range(rng.randint(1, 4))]), ("r", i)))
        if ch in ("marith", "mrarith"):
            i = rng.choice(mats)
            op = rng.choice(["+", "-", "*", "/", "**"] if ch == "marith" else ["+", "-", "*", "/"])
            other = self.operand_for_mat(self.regs[i].shape, bad)
            if op == "**":
                other = rng.choice([("int", 2), ("float", 2.0)])
            if op == "/" and ch == "marith" and other[0] == "r" and kind_of(self.regs[other[1]]) != "MatrixVariable":
                op = "*"
            if op == "/" and ch == "mrarith" and kind_of(self.regs[i]) != "MatrixVariable":
                op = "-"
            if ch == "marith":
                return self.add(("arith", op, ("r", i), other))
            if other[0] == "r":
                r_, c_ = self.regs[i].shape
                other = ("a2", [self.arr(c_, div=True) for _ in range(r_)])
            return self.add(("arith", op, other, ("r", i)))
        if ch == "mneg":
            return self.add(("neg", ("r", rng.choice(mats))))
        if ch == "msum":
            return self.add(("sum", ("r", rng.choice(mats))))
        if ch == "mT":
            return self.add(("T", ("r", rng.choice(mats))))
        if ch == "mget":
            i = rng.choice(mvs)
            r_, c_ = self.regs[i].shape

            def k(n):
                return ("i", rng.randint(-n - 1, n)) if rng.random() < 0.5 else rand_slice(rng, n)
            return self.add(("mgetitem", ("r", i), k(r_), k(c_)))
        if ch == "mrows":
            return self.add(("rows", ("r", rng.choice(mvs))))
        if ch == "mcols":
            return self.add(("cols", ("r", rng.choice(mvs))))
        if ch == "mdiag":
            return self.add((rng.choice(["diagonal", "diag"]), ("r", rng.choice(mvs))))
        if ch == "mtrace":
            return self.add(("trace", ("r", rng.choice(mvs))))
        if ch == "mgetvars":
            return self.add(("getvars", ("r", rng.choice(mvs))))
        if ch == "mfrob":
            return self.add(("frob", ("r", rng.choice(mvs))))
        if ch == "mmatmul":
            i = rng.choice(mvs)
            c_ = self.regs[i].shape[1]
            n = c_ if not bad else c_ + 1
            same = [j for j in vecs if self.size(j) == n]
            if not same:
                return self.grow()
            return self.add(("matmul", ("r", i), ("r", rng.choice(same))))
        if ch == "nth":
            i = rng.choice(lists)
            o = self.regs[i]
            from optyx.core.vectors import VectorVariable
            if not o or not isinstance(o[0], VectorVariable):
                return self.grow()
            return self.add(("nth", ("r", i), rng.randint(0, len(o) - 1)))
        raise ValueError(ch)


SCALES = [2.0 ** -1000, 2.0 ** -40, 2.0 ** -30, 2.0 ** -27, 2.0 ** -26, 2.0 ** -23, 2.0 ** 27, 2.0 ** 54, 2.0 ** 60]
NAME_SETS = [("x", "y", "A", "S", "B"), ("x", "y", "A", "S", "B"), ("w2", "w10", "a1b", "a1", "w02"), ("x", "x1", "M2", "M10", "M"),
             ("x", "x", "A", "A", "A2")]


def random_recipe(rng, length):
    b = RecipeBuilder(rng, scale=rng.choice(SCALES) if rng.random() < 0.15 else 1.0)
    X, Y, A, S, B = rng.choice(NAME_SETS)          # the last set builds same-named clones (distinct objects)
    n = rng.randint(1, 6)
    b.add(("vec", X, n))
    b.add(("vec", Y, n if rng.random() < 0.7 else rng.randint(1, 6)))
    r, c = rng.randint(1, 4), rng.randint(1, 4)
    if rng.random() < 0.5:
        c = n
    b.add(("mat", A, r, c, False))
    if rng.random() < 0.6:
        k = rng.choice([n, rng.randint(1, 4)])
        b.add(("mat", S, k, k, True))
    if rng.random() < 0.3:
        b.add(("mat", B, r, c, False))
    guard = 0
    while len(b.steps) < length and guard < 4 * length:
        guard += 1
        try:
            b.grow()
        except RecursionError:
            break
    return b


# ------------------------------------------------------------------ cell cover


LITS = {
    "int": lambda n, r, c: ("int", 2), "float": lambda n, r, c: ("float", 0.5), "npf": lambda n, r, c: ("npf", 2.0),
    "npi": lambda n, r, c: ("npi", 2), "a0": lambda n, r, c: ("a0", 2.0),
    "a1": lambda n, r, c: ("a1", [1.0, 2.0, 4.0, -1.0, -2.0, 2.0][:n]),
    "l1": lambda n, r, c: ("l1", [2.0, 1.0, -1.0, 4.0, 2.0, -2.0][:n]),
    "a2": lambda n, r, c: ("a2", [[float(2 ** ((i + j) % 3)) for j in range(c)] for i in range(r)]),
    "l2": lambda n, r, c: ("l2", [[float(2 ** ((i + 2 * j) % 3)) * (-1) ** j for j in range(c)] for i in range(r)]),
    "aN": lambda n, r, c: ("aN", 3, n),
}


def base_recipe(n, r, c, m=None):
    """registers: 0 x(n) 1 y(n) 2 w(m) 3 x+1 (ve) 4 mvp 5 A(r,c) 6 B(r,c) 7 A+1 (me) 8 S(r,r sym) 9 t (scalar = x[0]) 10 x**2 11 abs(x)
    12 C(c,r)"""
    m = m if m is not None else n + 1
    return [("vec", "x", n), ("vec", "y", n), ("vec", "w", m), ("arith", "+", ("r", 0), ("int", 1)),
            ("mvp", ("a2", [[float((i + 2 * j) % 3 - 1) for j in range(n)] for i in range(n)]), ("r", 1)),
            ("mat", "A", r, c, False), ("mat", "B", r, c, False), ("arith", "+", ("r", 5), ("int", 1)),
            ("mat", "S", r, r, True), ("getitem", ("r", 1), ("i", 0)), ("arith", "**", ("r", 0), ("int", 2)),
            ("fn", "abs", ("r", 0)), ("mat", "C", c + 1, r, False)]


OPERANDS_OPTYX = {"vv": 0, "ve": 3, "mvp": 4, "mv": 5, "me": 7, "e": 9, "epow": 10, "eun": 11, "vv_bad": 2, "mv_bad": 12}


def cell_cover():
    """one recipe per decision cell; yields (tag, steps)"""
    out = []
    kinds = list(LITS) + list(OPERANDS_OPTYX)

    def operand(k, n, r, c, bad=False):
        if k in OPERANDS_OPTYX:
            return ("r", OPERANDS_OPTYX[k])
        if bad:
            return LITS[k](n + 1, r + 1, c)
        return LITS[k](n, r, c)

    # arithmetic and @ : every (left kind, right kind) with at least one optyx operand, matching and not
    for n, r, c in ((3, 2, 3), (1, 1, 1), (6, 3, 2)):
        base = base_recipe(n, r, c)
        for lk, rk in itertools.product(kinds, kinds):
            if lk not in OPERANDS_OPTYX and rk not in OPERANDS_OPTYX:
                continue
            if (n, r, c) != (3, 2, 3) and (lk in ("aN",) or rk in ("aN",)):
                continue
            for bad in (False, True):
                if bad and lk in OPERANDS_OPTYX and rk in OPERANDS_OPTYX:
                    continue
                a, b = operand(lk, n, r, c, bad and lk not in OPERANDS_OPTYX), operand(rk, n, r, c, bad and rk not in OPERANDS_OPTYX)
                for op in ("+", "-", "*", "/", "**"):
                    out.append((f"arith{op}:{lk}:{rk}:{'bad' if bad else 'ok'}", base + [("arith", op, a, b)]))
                out.append((f"matmul:{lk}:{rk}:{'bad' if bad else 'ok'}", base + [("matmul", a, b)]))
                if lk in ("vv", "ve", "mvp"):
                    out.append((f"dot:{lk}:{rk}:{'bad' if bad else 'ok'}", base + [("dot", a, b)]))
    # the same array operand in every memory layout / dtype (logical value unchanged)
    for n, r, c in ((3, 2, 3), (4, 3, 3)):
        base = base_recipe(n, r, c)
        a2 = [[float(2 ** ((2 * i + j) % 3)) * (-1) ** i for j in range(c)] for i in range(r)]
        a1 = [float(2 ** (i % 3)) * (-1) ** i for i in range(n)]
        for lay in LAYOUTS:
            for op in ("+", "-", "*", "/"):
                for mk in ("mv", "me"):
                    out.append((f"layout:{lay}", base + [("arith", op, ("r", OPERANDS_OPTYX[mk]), ("a2", a2, lay))]))
                    out.append((f"layout:{lay}", base + [("arith", op, ("a2", a2, lay), ("r", OPERANDS_OPTYX[mk]))]))
                for vk in ("vv", "ve", "mvp"):
                    out.append((f"layout:{lay}", base + [("arith", op, ("r", OPERANDS_OPTYX[vk]), ("a1", a1, lay))]))
                    out.append((f"layout:{lay}", base + [("arith", op, ("a1", a1, lay), ("r", OPERANDS_OPTYX[vk]))]))
            for vk in ("vv", "ve"):
                v = ("r", OPERANDS_OPTYX[vk])
                sq = [[float((3 * i + j) % 5 - 2) for j in range(n)] for i in range(n)]
                out.append((f"layout:{lay}", base + [("matmul", ("a1", a1, lay), v), ("matmul", v, ("a1", a1, lay)),
                                                    ("lincomb", ("a1", a1, lay), v), ("mvp", ("a2", sq, lay), v),
                                                    ("qf", v, ("a2", sq, lay))]))
            out.append((f"layout:{lay}", base + [("matmul", ("a2", [[float((3 * i + j) % 5 - 2) for j in range(n)] for i in range(n)], lay),
                                                          ("r", 0)), ("dot", ("r", 1), ("r", len(base)))]))
    # element types of constant arrays / matrices (values representable in the dtype), every operator in both positions
    n, r, c = 3, 2, 3
    base = base_recipe(n, r, c)
    for lay in LAYOUTS[5:]:
        b_ = lay == "bool"
        a1, d1 = ([1.0, 0.0, 1.0], [1.0, 1.0, 1.0]) if b_ else ([1.0, 2.0, 0.0], [1.0, 2.0, 4.0])
        a2 = [[1.0, 0.0, 1.0], [0.0, 1.0, 1.0]] if b_ else [[1.0, 2.0, 0.0], [4.0, 0.0, 2.0]]
        d2 = [[1.0] * 3] * 2 if b_ else [[1.0, 2.0, 4.0], [4.0, 2.0, 1.0]]
        sq = [[1.0, 0.0, 1.0], [0.0, 1.0, 0.0], [1.0, 1.0, 0.0]] if b_ else [[1.0, 2.0, 0.0], [0.0, 4.0, 1.0], [2.0, 0.0, 2.0]]
        for op in ("+", "-", "*", "/"):
            for vk in ("vv", "ve", "mvp"):
                v = ("r", OPERANDS_OPTYX[vk])
                out.append((f"dtype:{lay}", base + [("arith", op, v, ("a1", d1 if op == "/" else a1, lay)), ("sum", ("r", len(base)))]))
                out.append((f"dtype:{lay}", base + [("arith", op, ("a1", a1, lay), v), ("sum", ("r", len(base)))]))
            for mk in ("mv", "me"):
                m = ("r", OPERANDS_OPTYX[mk])
                out.append((f"dtype:{lay}", base + [("arith", op, m, ("a2", d2 if op == "/" else a2, lay)), ("sum", ("r", len(base)))]))
                out.append((f"dtype:{lay}", base + [("arith", op, ("a2", a2, lay), m), ("sum", ("r", len(base)))]))
        for vk in ("vv", "ve", "mvp"):
            v = ("r", OPERANDS_OPTYX[vk])
            k0 = len(base)
            out.append((f"dtype:{lay}", base + [("lincomb", ("a1", a1, lay), v), ("matmul", ("a1", a1, lay), v), ("matmul", v, ("a1", a1, lay)),
                                               ("mvp", ("a2", sq, lay), v), ("sum", ("r", k0 + 3)), ("dot", ("r", 1), ("r", k0 + 3)),
                                               ("qf", v, ("a2", sq, lay)), ("arith", "*", ("r", k0 + 3), ("int", 2))]))
        out.append((f"dtype:{lay}", base + [("matmul", ("a2", sq, lay), ("r", 0)), ("dot", ("r", 0), ("r", len(base))),
                                           ("getitem", ("r", len(base)), ("i", -1))]))
    # magnitudes of stored numbers: one power-of-two scale (1e-301 … 1e18, and exact zero) on a whole coefficient array
    for sc in SCALES + [0.0, -(2.0 ** -27), -(2.0 ** 54)]:
        a1 = [sc, -2 * sc, 4 * sc]
        z1 = [sc, 0.0, -sc]
        a2 = [[sc, 2 * sc, -sc], [4 * sc, -sc, 2 * sc]]
        sq = [[sc, -2 * sc, 0.0], [0.0, 4 * sc, sc], [-sc, 0.0, 2 * sc]]
        for vk in ("vv", "ve"):
            v = ("r", OPERANDS_OPTYX[vk])
            k0 = len(base)
            steps = base + [("lincomb", ("a1", a1), v), ("lincomb", ("a1", z1), v), ("mvp", ("a2", sq), v), ("sum", ("r", k0 + 2)),
                            ("dot", ("r", 1), ("r", k0 + 2)), ("qf", v, ("a2", sq)), ("arith", "*", v, ("a1", a1)), ("arith", "*", ("a1", z1), v),
                            ("arith", "+", v, ("a1", a1)), ("arith", "-", ("a1", a1), v), ("matmul", ("a1", a1), v), ("sum", ("r", k0 + 6)),
                            ("arith", "*", v, ("float", sc)), ("arith", "*", ("float", sc), v), ("sum", ("r", k0 + 12))]
            if sc != 0.0:
                steps += [("arith", "/", v, ("a1", a1)), ("arith", "/", ("a1", a1), ("r", 0)), ("arith", "/", v, ("float", sc))]
            out.append(("magnitude", steps))
        for mk in ("mv", "me"):
            m = ("r", OPERANDS_OPTYX[mk])
            k0 = len(base)
            steps = base + [("arith", "*", m, ("a2", a2)), ("sum", ("r", k0)), ("arith", "+", ("a2", a2), m), ("arith", "-", ("a2", a2), m),
                            ("arith", "*", m, ("float", sc)), ("sum", ("r", k0 + 4))]
            if sc != 0.0:
                steps += [("arith", "/", m, ("a2", a2)), ("arith", "/", ("a2", a2), ("r", 5))]
            out.append(("magnitude", steps))
    # numeric types of scalar operands, both positions
    for lit in (("np", 2, "uint8"), ("np", 2, "int8"), ("np", 2, "int32"), ("np", 2, "uint64"), ("np", 2, "int64"),
                ("np", 255, "uint8"), ("np", -128, "int8"), ("np", 2.0, "float64"),
                *((("np", 2.0, "float16"), ("np", 0.5, "float32")) if NARROW_FLOATS else ()), ("np", True, "bool_"), ("pybool", True), ("int", 0), ("int", 1),
                ("float", 1e-300), ("float", 2.0 ** 60), ("a0", 2.0)):
        for ok in ("vv", "ve", "mvp", "mv", "me", "e"):
            o = ("r", OPERANDS_OPTYX[ok])
            for op in ("+", "-", "*", "/", "**"):
                if op == "/" and lit[1] == 0:
                    continue
                out.append((f"scalar-type:{lit[0]}:{lit[-1]}", base + [("arith", op, o, lit)]))
                out.append((f"scalar-type:{lit[0]}:{lit[-1]}", base + [("arith", op, lit, o)]))
    # same-named clones: distinct objects, equal names
    q3 = ("a2", [[1.0, 2.0, 0.0], [0.0, -1.0, 4.0], [2.0, 0.0, 1.0]])
    out.append(("clones", [("vec", "x", 3), ("vec", "x", 3), ("dot", ("r", 0), ("r", 1)), ("mvp", q3, ("r", 1)), ("dot", ("r", 0), ("r", 3)),
                           ("mvp", q3, ("r", 0)), ("dot", ("r", 0), ("r", 5)), ("arith", "+", ("r", 0), ("r", 1)), ("sum", ("r", 7)),
                           ("arith", "-", ("r", 0), ("r", 1)), ("mat", "x", 2, 3, False), ("matmul", ("r", 10), ("r", 1)),
                           ("mat", "S", 3, 3, True), ("mat", "S", 3, 3, False), ("arith", "-", ("r", 12), ("r", 13)), ("sum", ("r", 14))]))
    # wrappers (±const, k·, /k, neg, const − ·, squares) around every reduction node
    reds = [("sum", ("r", 0)), ("sum", ("r", 3)), ("sum", ("r", 4)), ("dot", ("r", 0), ("r", 1)), ("dot", ("r", 3), ("r", 4)),
            ("lincomb", ("a1", [1.0, -2.0, 4.0]), ("r", 0)), ("qf", ("r", 1), q3), ("norm", ("r", 0), 2), ("norm", ("r", 3), 1),
            ("sum", ("r", 5)), ("sum", ("r", 7)), ("sum", ("r", 8)), ("frob", ("r", 5)), ("frob", ("r", 8)), ("trace", ("r", 8)),
            ("sum", ("r", 10)), ("sum", ("r", 11))]
    for red in reds:
        k0 = len(base)
        for w in ([("arith", "*", ("int", 2), ("r", k0))], [("arith", "*", ("r", k0), ("float", 0.5))], [("arith", "+", ("r", k0), ("int", 1))],
                  [("arith", "-", ("int", 3), ("r", k0))], [("arith", "/", ("r", k0), ("int", 4))], [("neg", ("r", k0))],
                  [("arith", "**", ("r", k0), ("int", 2))], [("arith", "-", ("r", k0), ("float", 0.5)), ("arith", "*", ("int", -2), ("r", k0 + 1))],
                  [("neg", ("r", k0)), ("arith", "+", ("r", k0 + 1), ("r", k0))], [("arith", "*", ("r", k0), ("int", 0))]):
            out.append(("wrap", base + [red] + w))
    # u.dot(Q @ v) for every pair of equally long views (the QuadraticForm rewrite must need identical elements)
    for n in (3, 4):
        pre = [("vec", "x", 2 * n), ("mat", "A", n, n, False), ("T", ("r", 1)), ("vec", "y", n)]
        views = [("getitem", ("r", 0), ("sl", 0, n, None)), ("getitem", ("r", 0), ("sl", 0, 2 * n, 2)),
                 ("getitem", ("r", 0), ("sl", n - 1, None, -1)), ("getitem", ("r", 0), ("sl", 1, n + 1, None)),
                 ("getitem", ("r", 0), ("sl", 0, n, None)), ("getitem", ("r", 0), ("sl", None, None, None)),
                 ("mgetitem", ("r", 1), ("i", 0), ("sl", None, None, None)), ("mgetitem", ("r", 1), ("sl", None, None, None), ("i", 0)),
                 ("diagonal", ("r", 1)), ("mgetitem", ("r", 2), ("i", 0), ("sl", None, None, None)),
                 ("mgetitem", ("r", 1), ("i", 0), ("sl", None, None, -1)), ("mgetitem", ("r", 1), ("i", 1), ("sl", None, None, None)),
                 ("imm", ("r", 3))]
        q = ("a2", [[float((3 * i + 2 * j) % 7 - 3) for j in range(n)] for i in range(n)])
        q2 = ("a2", [[float((3 * i + 2 * j) % 7 - 3) for j in range(2 * n)] for i in range(2 * n)])
        k0 = len(pre)
        for iu in range(len(views)):
            for iv in range(len(views)):
                ru, rv = k0 + iu, k0 + iv
                steps = pre + views + [("mvp", q, ("r", rv)), ("dot", ("r", ru), ("r", k0 + len(views)))]
                out.append(("dotmvp:views", steps))
        out.append(("dotmvp:full", pre + [("mvp", q2, ("r", 0)), ("dot", ("r", 0), ("r", k0)),
                                         ("getitem", ("r", 0), ("sl", None, None, None)), ("dot", ("r", k0 + 2), ("r", k0))]))
    # constructors with shape checks
    for n in (1, 2, 4):
        base = base_recipe(n, 2, n)
        for vk in ("vv", "ve", "mvp"):
            v = ("r", OPERANDS_OPTYX[vk])
            for rows, cols in ((n, n), (n + 1, n), (n, n + 1), (1, n), (2, n)):
                q = ("a2", [[float((i * 2 + j) % 4 - 1) for j in range(cols)] for i in range(rows)])
                out.append((f"qf:{vk}", base + [("qf", v, q)]))
                out.append((f"mvp:{vk}", base + [("mvp", q, v)]))
                out.append((f"mvpdot:{vk}", base + [("mvp", q, v), ("dot", v, ("r", len(base)))]))
            for k in (n, n + 1, max(1, n - 1)):
                out.append((f"lincomb:{vk}", base + [("lincomb", ("a1", [float(i - 1) for i in range(k)]), v)]))
            out.append((f"qf:{vk}:1d", base + [("qf", v, ("a1", [1.0] * n))]))
            for o in (1, 2, 3, 0):
                out.append((f"norm:{vk}", base + [("norm", v, o)]))
            out.append((f"sum:{vk}", base + [("sum", v)]))
            out.append((f"neg:{vk}", base + [("neg", v)]))
            out.append((f"fn:{vk}", base + [("fn", "abs", v), ("sum", ("r", len(base)))]))
        out.append(("sum:epow", base + [("sum", ("r", 10))]))
        out.append(("sum:eun", base + [("sum", ("r", 11))]))
    # the x.dot(A @ y) rewrite: same object, same elements through a view, different slices with equal names (F10)
    for n in (2, 4):
        q = ("a2", [[float(1 + (i + j) % 3) for j in range(n)] for i in range(n)])
        base = [("vec", "x", 2 * n), ("vec", "y", n)]
        out.append(("rewrite:self", [("vec", "x", n), ("mvp", q, ("r", 0)), ("dot", ("r", 0), ("r", 1))]))
        out.append(("rewrite:view", [("vec", "x", n), ("getitem", ("r", 0), ("sl", None, None, None)), ("mvp", q, ("r", 1)),
                                     ("dot", ("r", 0), ("r", 2)), ("dot", ("r", 1), ("r", 2))]))
        out.append(("rewrite:other", base + [("mvp", q, ("r", 1)), ("getitem", ("r", 0), ("sl", 0, n, None)), ("dot", ("r", 3), ("r", 2))]))
        out.append(("rewrite:F10", base + [("getitem", ("r", 0), ("sl", 0, 2 * n, 2)), ("getitem", ("r", 0), ("sl", 0, 2 * n - 1, 2)),
                                           ("mvp", q, ("r", 3)), ("dot", ("r", 2), ("r", 4))]))
        out.append(("rewrite:rev", [("vec", "x", n), ("getitem", ("r", 0), ("sl", None, None, -1)), ("mvp", q, ("r", 1)),
                                    ("dot", ("r", 0), ("r", 2))]))
    # indexing: every int key, a grid of slices
    for n in (1, 2, 3, 5):
        base = [("vec", "x", n), ("arith", "*", ("r", 0), ("int", 2))]
        for k in range(-n - 2, n + 2):
            out.append(("vgetitem:int", base + [("getitem", ("r", 0), ("i", k)), ("getitem", ("r", 1), ("i", k))]))
        out.append(("vgetitem:other", base + [("getitem", ("r", 0), ("other",)), ("getitem", ("r", 1), ("sl", 0, 1, None))]))
        bounds = [None] + list(range(-n - 1, n + 2))
        for a, b, s in itertools.product(bounds, bounds, (None, 1, 2, -1, -2, 3, 0)):
            out.append(("vgetitem:slice", [("vec", "x", n), ("getitem", ("r", 0), ("sl", a, b, s))]))
    for r, c, sym in ((2, 3, False), (3, 3, True), (1, 1, False), (3, 2, False)):
        base = [("mat", "A", r, c, sym)]
        rk = [("i", k) for k in range(-r - 1, r + 1)] + [("sl", None, None, None), ("sl", 1, None, None), ("sl", None, None, -1),
                                                         ("sl", 0, 0, None), ("sl", -2, None, 2), ("sl", None, None, 0), ("other",)]
        ck = [("i", k) for k in range(-c - 1, c + 1)] + [("sl", None, None, None), ("sl", None, -1, None), ("sl", None, None, -1),
                                                         ("sl", 5, None, None), ("sl", 0, None, 2), ("sl", None, None, 0), ("other",)]
        for a, b in itertools.product(rk, ck):
            out.append(("mgetitem", base + [("mgetitem", ("r", 0), a, b)]))
        out.append(("mgetitem1", base + [("mgetitem1", ("r", 0))]))
        tail = [("T", ("r", 0)), ("T", ("r", 1)), ("rows", ("r", 0)), ("cols", ("r", 0)), ("rows", ("r", 1)), ("diagonal", ("r", 0)),
                ("diag", ("r", 0)), ("trace", ("r", 0)), ("getvars", ("r", 0)), ("getvars", ("r", 1)), ("frob", ("r", 0)),
                ("sum", ("r", 0)), ("neg", ("r", 0)), ("arith", "*", ("r", 0), ("r", 1)), ("T", ("r", 14)), ("sum", ("r", 14)),
                ("mgetitem", ("r", 14), ("i", 0), ("i", -1)), ("mgetitem", ("r", 14), ("i", r), ("i", 0)), ("nth", ("r", 3), 0),
                ("mgetitem", ("r", 1), ("sl", None, None, None), ("i", 0)), ("diag", ("r", 19))]
        out.append(("matrix:views", base + tail))
    for n in (1, 2, 3):
        out.append(("diagmat", [("vec", "x", n), ("diagmat", ("r", 0)), ("diagmat_new", ("r", 0)), ("trace", ("r", 1)), ("sum", ("r", 1)),
                                ("getitem", ("r", 0), ("sl", None, None, -1)), ("diagmat", ("r", 5)), ("diagonal", ("r", 6))]))
    # construction errors
    for st in (("vec", "x", 0), ("vec", "x", -1), ("mat", "A", 0, 2, False), ("mat", "A", 2, 0, False), ("mat", "A", 2, 3, True),
               ("mat", "A", 3, 3, True), ("mat", "A", 1, 1, True)):
        out.append(("construct", [st]))
    return out


# ------------------------------------------------------------------ running


def execute(steps):
    regs = []
    for st in steps:
        regs.append(py_step(regs, st))
    return regs


def values_for(regs, rng, vscale=1.0):
    """exactly representable values for every variable occurring in any register"""
    from optyx.core import vectors as V
    from optyx.core import matrices as M

    names = {}
    for o in regs:
        vs = []
        if isinstance(o, V.VectorVariable):
            vs = o._variables
        elif isinstance(o, M.MatrixVariable):
            vs = [v for row in o._variables for v in row]
        for v in vs:
            names.setdefault(v.name, v)
    vals = {}
    for k in sorted(names):
        # signed powers of two: every + - * / of the recipes is then exact in binary floating point
        vals[k] = 0.0 if k.startswith("_diag_") else float(rng.choice([1, 2, -1, -2, 4, -4, 8, 0.5, -0.5, -8])) * vscale
    return vals


def natural_key(name):
    parts, cur, dig = [], "", False
    for ch in name:
        d = "0" <= ch <= "9"
        if d != dig:
            parts.append((1, int(cur)) if dig else (0, cur))
            cur, dig = "", d
        cur += ch
    parts.append((1, int(cur)) if dig else (0, cur))
    return (parts, name)


def compiled_channel(o, values):
    """the same quantity through compile_expression (scalar expressions; first / last element of a vector or matrix
    expression); returns [(label, value)] — an exception is the caller's failure"""
    from optyx.core.expressions import Expression, get_all_variables
    from optyx.core.compiler import compile_expression
    from optyx.core import vectors as V
    from optyx.core import matrices as M

    targets = []
    if isinstance(o, M.MatrixVectorProduct) or isinstance(o, V.VectorExpression):
        targets = [((0,), o._expressions[0]), ((len(o._expressions) - 1,), o._expressions[-1])]
    elif isinstance(o, M.MatrixExpression):
        targets = [((0, 0), o._expressions[0][0]), ((o.rows - 1, o.cols - 1), o._expressions[-1][-1])]
    elif isinstance(o, Expression) and not isinstance(o, (V.ElementwisePower, V.ElementwiseUnary)):
        targets = [((), o)]
    out = []
    for idx, e in targets:
        try:
            Ser(with_ids=False).expr(e)
        except (Unsupported, TypeError, ValueError):
            continue                                        # array-valued / container-wrapping nodes: known findings
        vs = sorted(get_all_variables(e), key=lambda v: natural_key(v.name))
        f = compile_expression(e, vs)
        x = np.array([values[v.name] for v in vs], dtype=float)
        out.append((idx, np.asarray(f(x), dtype=float)))
    return out



def oracle_check(steps, regs, rng, rep, vscale=1.0, compiled_from=0):
    """NumPy interpretation vs real evaluate vs compiled value; returns a list of failure dicts"""
    fails = []
    values = values_for(regs, rng, vscale)
    nregs = []
    for i, st in enumerate(steps):
        nv = np_step(nregs, st, values)
        nregs.append(nv)
        o = regs[i]
        if isinstance(o, PyErr) or nv is NONUM:
            continue  # rejected by optyx (rule 4) or no numeric meaning
        kk = known_kind(st, regs)
        try:
            with warnings.catch_warnings(), np.errstate(all="ignore"):
                warnings.simplefilter("ignore")
                rv = real_value(o, values)
        except Exception as ex:  # noqa: BLE001
            if nv is NPERR and not kk:
                # NumPy rejects these operands too: optyx rejects them late (at evaluate), with an error
                rep.histogram["late-rejection"] = rep.histogram.get("late-rejection", 0) + 1
                continue
            f = {"what": "an object was built but cannot be evaluated", "error": f"{type(ex).__name__}: {ex}"[:160],
                 "recipe": [list(map(str, s)) for s in steps[:i + 1]], "steps": repr(steps[:i + 1]), "step": i, "values": values}
            if kk:
                f["kind"] = kk
            fails.append(f)
            nregs[i] = NONUM  # do not propagate
            continue
        if rv is NONUM:
            continue
        if nv is NPERR:
            # NumPy rejects (or gives an empty result); did the failure come from an earlier known-finding register?
            f = {"what": "optyx accepted operands that NumPy rejects as incompatible", "steps": repr(steps[:i + 1]), "step": i,
                 "values": values}
            if kk:
                f["kind"] = kk
            fails.append(f)
            continue
        if not same_value(rv, nv):
            f = {"what": "value differs from the NumPy interpretation", "steps": repr(steps[:i + 1]), "step": i, "values": values,
                 "got": repr(rv)[:200], "want": repr(nv)[:200]}
            if kk:
                f["kind"] = kk
            fails.append(f)
            nregs[i] = NONUM
            continue
        if kk or i < compiled_from:
            continue
        # second channel: the compiled callable of the same expression, and a second evaluate of the same object
        try:
            with warnings.catch_warnings(), np.errstate(all="ignore"):
                warnings.simplefilter("ignore")
                comp = compiled_channel(o, values)
                rv2 = real_value(o, values)
        except Exception as ex:  # noqa: BLE001
            fails.append({"what": "compile_expression / the compiled callable raised at a finite point",
                          "error": f"{type(ex).__name__}: {ex}"[:160], "steps": repr(steps[:i + 1]), "step": i, "values": values})
            continue
        if not same_value(rv2, rv):
            fails.append({"what": "evaluating the same object twice gives two values", "steps": repr(steps[:i + 1]), "step": i, "values": values})
        # a power whose exponent is itself computed is np.power on general floats: the compiled (array) and the scalar
        # call of the same ufunc may differ in the last unit; every other operation of the recipes is exact
        transcendental = any(t[0] == "arith" and t[1] == "**" and t[3][0] == "r" for t in steps[:i + 1])
        for idx, cv in comp:
            want = np.asarray(nv, dtype=float)[idx] if idx else np.asarray(nv, dtype=float)
            rep.histogram["compiled-channel"] = rep.histogram.get("compiled-channel", 0) + 1
            if not same_value(cv, want) and not (transcendental and np.shape(cv) == np.shape(want)
                                                 and np.allclose(cv, want, rtol=1e-13, atol=0.0, equal_nan=True)):
                fails.append({"what": "compiled value differs from the NumPy interpretation", "steps": repr(steps[:i + 1]), "step": i,
                              "values": values, "element": list(idx), "got": repr(cv)[:120], "want": repr(want)[:120]})
                break
    rep.histogram["oracle_registers"] = rep.histogram.get("oracle_registers", 0) + len(steps)
    return fails


def alias_failures(steps):
    """arrays handed to optyx must be bit-identical afterwards (optyx may keep references, never write)"""
    out = []
    for arr, copy, dt, strides in ALIAS_LOG:
        if arr.dtype != dt or arr.strides != strides or not np.array_equal(arr, copy, equal_nan=True):
            out.append({"what": "a user-supplied array was modified by the API", "steps": repr(steps), "before": repr(copy)[:120],
                        "after": repr(arr)[:120]})
    ALIAS_LOG.clear()
    return out


def slice_cases():
    opts = [None] + list(range(-8, 9))
    for n in range(0, 7):
        for a, b, s in itertools.product(opts, opts, [None, -3, -2, -1, 0, 1, 2, 3]):
            yield n, a, b, s


def known_finding_probes():
    """F11 and F23 on the real code: each yields (kind, description, fails: bool)"""
    import optyx
    from optyx.core.functions import abs_

    out = []
    v = optyx.VectorVariable("v", 3)
    w = optyx.VectorVariable("w", 3)
    t = optyx.Variable("t")
    pt = {"t": 2.0, **{f"v[{i}]": float(i + 1) for i in range(3)}, **{f"w[{i}]": 1.0 for i in range(3)}}

    def bad(build, want):
        try:
            with warnings.catch_warnings():
                warnings.simplefilter("ignore")
                e = build()
                r = np.asarray(e.evaluate(pt))
                if r.dtype == object:
                    return True
                return not np.array_equal(r.astype(float), np.asarray(want, dtype=float))
        except Exception:  # noqa: BLE001
            return True

    p = optyx.VectorParameter("price", 3, values=[1.0, 2.0, 3.0])
    out.append(("vector_parameter_matmul", "VectorParameter @ x", bad(lambda: p @ v, 14.0)))
    A = optyx.MatrixParameter("Sigma", np.eye(3))
    out.append(("vector_parameter_matmul", "x.dot(MatrixParameter @ x)", bad(lambda: v.dot(A @ v), 14.0)))
    out.append(("elementwise_node_arith", "v**2 + w", bad(lambda: v ** 2 + w, [2.0, 5.0, 10.0])))
    out.append(("elementwise_node_arith", "abs_(v) + w", bad(lambda: abs_(v) + w, [2.0, 3.0, 4.0])))
    out.append(("elementwise_node_arith", "t * v", bad(lambda: t * v, [2.0, 4.0, 6.0])))
    return out


def run(ctx) -> core.Report:
    rng = ctx["rng"]
    thorough = ctx["tier"] == "thorough" or ctx["escalate"]
    rep = core.Report(rule="cell cover (every operand-kind pair for + - * / ** @ dot, constructors with every shape relation, every "
                           "int key and a grid of slices, the four matrix key shapes, views of symmetric / transposed matrices, the "
                           "dot->QuadraticForm rewrite cells, constant arrays in every memory layout and element type, coefficient magnitudes from "
                           "1e-301 to 1e18 and exact zeros, scalar operands of every numeric type, same-named clones, wrappers around every "
                           "reduction) + seeded random recipe programs over sizes 1..6 (names with digits, clones, literal scales, scaled "
                           "points); every register: evaluate (twice) vs NumPy vs the compiled callable; non-trivial = distinct "
                           "recipes whose last register is a built object that evaluates to a non-constant value")
    recipes = [(tag, steps) for tag, steps in cell_cover()]
    n_rand = 12000 if thorough else 1500
    for i in range(n_rand):
        b = random_recipe(rng, rng.randint(6, 16))
        recipes.append(("random", b.steps))

    lines, has_model = [], []
    for _, steps in recipes:
        try:
            lines.append("recipe (" + " ".join(step_sexp(s) for s in steps) + ")")
            has_model.append(True)
        except Unsupported:
            lines.append("recipe ()")          # an operand the syntax cannot express (Python bool): values only
            has_model.append(False)
    n_rec = len(lines)
    rep.mismatch_cases = []
    sl = list(slice_cases())
    lines += [f"slice {n} " + " ".join("None" if x is None else str(x) for x in (a, b, s)) for n, a, b, s in sl]
    outs = run_lean_unit(lines)
    rep.evaluations = len(lines)

    for (tag, steps), model, hm in zip(recipes, outs[:n_rec], has_model):
        ALIAS_LOG.clear()
        regs = execute(steps)
        impl = "(" + " ".join(show_reg(o) for o in regs) + ")"
        key = tag.split(":")[0]
        rep.histogram[key] = rep.histogram.get(key, 0) + 1
        for o in regs:
            k = "reg:" + (("err:" + o.cls) if isinstance(o, PyErr) else kind_of(o))
            rep.histogram[k] = rep.histogram.get(k, 0) + 1
        if not hm:
            rep.skipped["no-model-line (bool operand)"] = rep.skipped.get("no-model-line (bool operand)", 0) + 1
        elif impl != model:
            rep.mismatch_cases.append((tag, steps))
            rep.corr_mismatches.append({"tag": tag, "steps": repr(steps), "impl": impl[-600:], "model": model[-600:],
                                        "impl_full": impl, "model_full": model, "steps_list": [repr(s) for s in steps]})
        vscale = rng.choice([2.0 ** -100, 2.0 ** 30]) if tag == "random" and rng.random() < 0.1 else 1.0
        fails = oracle_check(steps, regs, rng, rep, vscale=vscale,
                             compiled_from=0 if tag in ("random", "magnitude", "clones") else max(0, len(steps) - 3))
        fails += alias_failures(steps)
        rep.oracle_failures.extend(fails)
        last = regs[-1]
        if not isinstance(last, PyErr):
            rep.nontrivial.add(hash(lines[len(rep.nontrivial) % n_rec] + impl))
        if len(rep.samples) < 6 and tag == "random" and len(impl) < 900:
            rep.samples.append({"recipe": " ".join(step_sexp(s) for s in steps), "registers": impl})

    for (n, a, b, s), model in zip(sl, outs[n_rec:]):
        try:
            want = "(" + " ".join(str(i) for i in list(range(n))[slice(a, b, s)]) + ")"
        except ValueError:
            want = "raise:ValueError"
        rep.histogram["slice"] = rep.histogram.get("slice", 0) + 1
        if want != model:
            rep.corr_mismatches.append({"tag": "slice", "case": [n, a, b, s], "impl": want, "model": model})

    for kind, what, fails in known_finding_probes():
        rep.histogram["known:" + kind] = rep.histogram.get("known:" + kind, 0) + 1
        if fails:
            rep.oracle_failures.append({"kind": kind, "what": what + " does not evaluate to the NumPy value"})
    return rep


def search(ctx, rep):
    rng = core.Rng(ctx["seed"] + 104729)
    dummy = core.Report()
    # first: the recipes whose structure differs from the model, judged by value at several assignments
    for tag, steps in getattr(rep, "mismatch_cases", [])[:600]:
        regs = execute(steps)
        for vs in (1.0, 1.0, 1.0, 2.0 ** -100, 2.0 ** 30):
            fails = [f for f in oracle_check(steps, regs, rng, dummy, vscale=vs) if "kind" not in f]
            if fails:
                return fails[0]
    for i in range(4000):
        b = random_recipe(rng, rng.randint(6, 16))
        fails = [f for f in oracle_check(b.steps, b.regs, rng, dummy) if "kind" not in f]
        if fails:
            return fails[0]
    return None


def replay(payload) -> bool:
    f = payload["failure"]
    if "steps" not in f:
        for kind, what, fails in known_finding_probes():
            if what in f.get("what", ""):
                print(kind, what, "fails" if fails else "holds")
                return not fails
        return True
    steps = eval(f["steps"], {"__builtins__": {}}, {})  # noqa: S307 - literal tuples/lists written by this module
    regs = execute(steps)
    values = {k: float(v) for k, v in f["values"].items()}

    class _R:
        def choice(self, xs):
            return xs[0]
    rep = core.Report()
    # re-evaluate at the recorded values
    fails = []
    nregs = []
    for i, st in enumerate(steps):
        nregs.append(np_step(nregs, st, values))
    o, nv = regs[-1], nregs[-1]
    print("register:", show_reg(o)[:300])
    if isinstance(o, PyErr):
        return True
    try:
        rv = real_value(o, values)
    except Exception as ex:  # noqa: BLE001
        print("evaluate raised", type(ex).__name__, ex)
        return False
    print("optyx:", rv, "numpy:", nv)
    if nv is NPERR:
        return False
    return rv is NONUM or nv is NONUM or same_value(rv, nv)
