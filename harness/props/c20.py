"""C20 — a failed or interrupted solve leaves the process and the problem intact.

Tie:    fault injection on the real code with the solver seams stubbed: one fault (pass, step, class) per run,
        step ∈ {is_linear, _auto_select_method, problem.variables, the guard's warnings.warn,
        compile_expression / compile_jacobian inside _build_solver_cache (objective, gradient, k-th constraint,
        k-th Jacobian), compile_hessian, the solver entry (minimize / linprog), the k-th constraint evaluation
        of the post-solve check, the retry's warning, LinearProgramExtractor.extract} × class ∈ {ValueError,
        FloatingPointError, MemoryError, KeyboardInterrupt} × pass ∈ {call, SLSQP→trust-constr retry} × method ×
        initial cache state (fresh / warmed by SLSQP / by trust-constr / by linprog / by auto); outcome, events,
        `warnings.showwarning`, recursion limit and cache keys compared exactly with `Py.Solve.solve*`.
Oracle: independent of the model — after every faulted run: `warnings.showwarning` is the object it was,
        `sys.getrecursionlimit()` unchanged, the outcome is a FAILED solution or the injected exception
        (possibly wrapped as the cause of SolverError), `_solver_cache` is None or complete, and the *next*
        solve of the same problem equals the solve of a twin problem that never saw the fault.  The same
        oracle with the *real* solvers and the fault at the k-th objective / gradient / constraint / Jacobian /
        Hessian evaluation or at the solver entry.
        "As it was" means: as it was IMMEDIATELY BEFORE THAT CALL.  `state_histories`: on one or two Problems in one
        process the application changes the process-global state BETWEEN the solves — installs another display hook
        (plain function, lambda, functools.partial, bound method, callable object, a hook chaining to the previous
        one, logging.captureWarnings(True), back to Python's own), changes sys.setrecursionlimit, the warnings
        filters, NumPy's error state, wraps the solve in `increased_recursion_limit(n)` — then solves again with /
        without a fault (every seam: k-th obj / grad / con / jac / hess evaluation, solver entry / exit, post-solve
        constraint check, extractor, the helpers before the solver; every class; every method incl. the automatic
        retry; LP and NLP routes), edits the model, solves again.  After every call: hook identity (whatever its
        type), limit, filters, error state equal their values right before the call; a warning raised afterwards
        reaches the application's hook; foreign warnings raised during the call were shown exactly once by the hook
        current at call time and by no replaced hook; the solution equals a freshly built twin's.
        `kwargs_histories`: the per-call **kwargs of one solve belong to that solve.  On fixed LPs with hand-computed
        optima, generated LPs (reference: scipy.optimize.linprog on matrices written down from the recipe) and the NLP
        shapes: [warm-up] → solve(method, **kw) with kw making the attempt fail (callback=… on HiGHS, integrality of the
        wrong length, unknown / duplicate keyword, x0 of the wrong length), stop early (options={'maxiter': 0}, maxiter=1,
        loose tol, a callback raising ValueError / StopIteration / KeyboardInterrupt) or ask another question (c= /
        bounds= / A_ub= / A_eq= overridden, integrality=[1…], x0 far away, use_hessian=False, strict=True), through
        Problem.solve or solve_lp / solve_scipy directly, the application overwriting the passed objects afterwards →
        the plain solve(method') of the same Problem, and of a fresh one built afterwards, must be the optimum / equal a
        twin solved before the attempt; linprog / minimize must receive exactly what they receive for a fresh twin (no
        foreign keyword, equal arrays, x0, tol, options); cached LP data bit-identical to a fresh extraction; globals kept.
        `start_histories`: on non-convex (double-well) models, where the answer depends on the start: [default solves] →
        a bound is assigned → a solve that fails / is interrupted (every seam, every class) / gets an explicit x0 /
        succeeds → the bound is put back (or moved on) → solve() without x0.  At every solve the x0 optyx hands to
        scipy.optimize.minimize must be the documented default start for the bounds the variables have AT THAT MOMENT
        (hand formula; equal to what a fresh Problem hands over), `bounds=` the current bounds, the result a fresh twin's.
"""
from __future__ import annotations

import sys
import warnings

import numpy as np

import core
from props import c06 as base

LEAN_MODULE = "Optyx.Props.C20"
EXTRA_MODULES = ["Optyx.Props.PinsC20", "Optyx.Props.BuildTie", "Optyx.Props.HookTie", "Optyx.Props.ScaledTie"]   # transcription anchors (harness/source_pins.py)
THEOREMS = [
    "Optyx.Props.C20.hook_restored",
    "Optyx.Props.C20.reclimit_unchanged",
    "Optyx.Props.C20.outcome_spec",
    "Optyx.Props.C20.exception_in_solver_gives_failed",
    "Optyx.Props.C20.base_exception_propagates",
    "Optyx.Props.C20.fault_preserves_cache_validity",
    "Optyx.Props.C20.next_solve_unaffected",
    "Optyx.Props.Dispatch.solve_autoSelect_eq_generated",
    "Optyx.Props.Dispatch.solve_route_eq_generated",
    "Optyx.Props.BuildTie.compile_step",
    "Optyx.Props.BuildTie.compileVec_step",
    "Optyx.Props.HookTie.hook_restored_of_source_shape",
    "Optyx.Props.HookTie.hook_installed_during_call",
    "Optyx.Props.HookTie.flow_of_source_shape",
    "Optyx.Props.HookTie.limit_restored_of_source_shape",
    "Optyx.Props.HookTie.limit_raised_inside_block",
    "Optyx.Props.HookTie.globalStateSites_spec",
    "Optyx.Props.ScaledTie.scaledEntry_eq",
    "Optyx.Props.ScaledTie.scaledLoop_step",
    "Optyx.Props.ScaledTie.scaledPattern_frame",
    "Optyx.Props.PinsC20.anchors",
]
ASSUMPTIONS = [
    "one injected fault per solve (after it fires the call ends: FAILED solution or propagation)",
    "exceptions are classified only as Exception-subclass vs BaseException-only (KeyboardInterrupt, SystemExit)",
    "the callbacks evaluated by SciPy are 'inside minimize' (a single step of the model); the compiled callables and "
    "the extractor are abstract: only *where* something raises matters",
]
run_lean_unit = base.run_lean_unit


class InjectedError(Exception):
    """a user-defined Exception subclass"""


class InjectedAbort(BaseException):
    """a user-defined BaseException-only class"""


EXC_CLASSES = [ValueError, FloatingPointError, MemoryError, RuntimeError, ZeroDivisionError, KeyError, RecursionError,
               AssertionError, OSError, np.linalg.LinAlgError, UserWarning, OverflowError, InjectedError, StopIteration]
BASE_CLASSES = [KeyboardInterrupt, SystemExit, GeneratorExit, InjectedAbort]
CLASSES = EXC_CLASSES + BASE_CLASSES
# classes whose handling inside SciPy itself is part of SciPy's documented protocol (StopIteration ends an
# optimisation when raised by a *callback*): kept out of the real-solver runs, present in the stubbed table
REAL_CLASSES = [c for c in CLASSES if c is not StopIteration]
CATCH_STEPS = ("minimize", "linprog", "extract", "compileHess")


def classes_for(i, step, full):
    """every class at the steps where the class decides the outcome; a rotating Exception class and a rotating
    BaseException-only class elsewhere"""
    if full and (step in CATCH_STEPS or (isinstance(step, tuple) and step == ("postCon", 0))):
        return CLASSES
    return [EXC_CLASSES[i % len(EXC_CLASSES)], BASE_CLASSES[(i // 3) % len(BASE_CLASSES)]]

INT_SHAPE = {"vars": [["k", 0.0, 5.0, "integer"], ["y", None, 2.0, "continuous"]], "sense": "min",
             "obj": [[1, [[0, 2]]], [1, [[1, 2]]], [-1, [[1, 1]]]],
             "cons": [[[[1, [[0, 1]]], [1, [[1, 1]]]], ">=", 1.0]]}
INT_LP_SHAPE = {"vars": [["k", 0.0, 5.0, "integer"], ["y", 0.0, 2.0, "continuous"]], "sense": "max",
                "obj": [[1, [[0, 1]]], [2, [[1, 1]]], [1, []]], "cons": [[[[1, [[0, 1]]], [1, [[1, 1]]]], "<=", 3.0]]}
TABLE_SHAPES = {"B": base.SHAPES["B"]["spec"], "E": base.SHAPES["E"]["spec"], "C": base.SHAPES["C"]["spec"],
                "I": INT_SHAPE, "IL": INT_LP_SHAPE}
# per shape: a feasible and an (accepted) infeasible point, in problem.variables order
POINTS = {"B": ([2.0, 1.0], [3.0, 2.0]), "E": ([1.0, 0.0], [0.25, 0.25]), "C": ([1.0], [0.0]),
          "I": ([1.0, 0.0], [0.0, 0.0]), "IL": ([1.0, 2.0], [4.0, 4.0])}
WARMUPS = [None, "SLSQP", "trust-constr", "linprog", "auto"]
CALLS = [("solve", "auto"), ("solve", "SLSQP"), ("solve", "trust-constr"), ("solve", "L-BFGS-B"), ("solve", "Nelder-Mead"),
         ("solve", "linprog"), ("solve", "highs-ds"), ("solve-scipy", "SLSQP"), ("solve-scipy", "Newton-CG"), ("solve-lp", None)]
# every other `method=` string: on fresh problems in the quick tier, everywhere in the thorough tier
EXTRA_CALLS = [("solve", "highs"), ("solve", "highs-ipm"), ("solve", "COBYLA"), ("solve", "TNC"), ("solve", "CG"),
               ("solve", "BFGS"), ("solve", "Powell"), ("solve", "trust-ncg"), ("solve", "dogleg"),
               ("solve-scipy", "trust-constr"), ("solve-lp", "highs-ipm")]


QUICK_WARM_CALLS = [("solve", "auto"), ("solve", "SLSQP"), ("solve", "trust-constr"), ("solve", "linprog"), ("solve-lp", None)]
_BASELINES = {}


def steps_for(ncons):
    s = ["isLinear", "autoSelect", "variables", "warn", "buildObj", "buildGrad", "compileHess", "minimize", "retryWarn",
         "extract", "linprog"]
    for k in range(ncons):
        s += [("buildCon", k), ("buildJac", k), ("postCon", k)]
    s += [("postCon", ncons), ("buildCon", ncons + 1)]   # beyond the last constraint: never reached
    return s


def stub_results(shape, variant):
    feas, infeas = POINTS[shape]
    spec = TABLE_SHAPES[shape]
    neg = -1.0 if spec["sense"] == "max" else 1.0
    f = lambda x: neg * base.poly_eval(spec["obj"], x)  # noqa: E731
    if variant == 0:
        r1 = base.Res(True, "Optimization terminated successfully", feas, f(feas), 4)
    else:
        r1 = base.Res(True, "Positive directional derivative for linesearch", infeas, f(infeas), 6)
    r2 = base.Res(True, "`xtol` termination condition is satisfied.", feas, f(feas), 11)
    lr = base.LRes(True, 0, feas, neg * (base.poly_eval(spec["obj"], feas) - base.poly_eval(spec["obj"], [0.0] * len(feas))), 3)
    return r1, r2, lr


def make_problem(shape, warm, variant):
    """a fresh problem, optionally warmed by one successful stubbed solve"""
    P = base.build_problem(TABLE_SHAPES[shape])[0]
    if warm is not None:
        r1, r2, lr = stub_results(shape, 0)
        base.observe(P, "solve", warm, False, True, None, r1, r2, lr)
    return P


def cache_report(P):
    """None when the problem's caches are valid, else what is wrong"""
    from optyx.analysis import LPData

    c = P._solver_cache
    if c is not None:
        missing = [k for k in ("obj_fn", "grad_fn", "bounds", "scipy_constraints") if k not in c]
        if missing:
            return f"_solver_cache lacks {missing}"
        if not callable(c["obj_fn"]) or not callable(c["grad_fn"]):
            return "_solver_cache holds a non-callable"
        if len(c["scipy_constraints"]) != len([k for k in P.constraints if k.expr is not None]):
            return "_solver_cache['scipy_constraints'] is incomplete"
        if any(not callable(k.get("fun")) or not callable(k.get("jac")) for k in c["scipy_constraints"]):
            return "a cached constraint lacks fun / jac"
        if "hess_fn" in c and not callable(c["hess_fn"]):
            return "_solver_cache['hess_fn'] is not callable"
    if P._lp_cache is not None and not isinstance(P._lp_cache, LPData):
        return "_lp_cache is not an LPData"
    if P._is_linear_cache not in (None, True, False):
        return "_is_linear_cache is not a verdict"
    return None


def lp_cache_report(P, spec):
    """the cached LP data must be what a fresh extraction of an untouched twin gives (bit-identical arrays)"""
    from optyx.analysis import LinearProgramExtractor

    lp = P._lp_cache
    if lp is None or spec is None:
        return None
    ref = LinearProgramExtractor().extract(base.build_problem(spec)[0])
    for name in ("c", "A_ub", "b_ub", "A_eq", "b_eq"):
        a, b = getattr(lp, name), getattr(ref, name)
        if (a is None) != (b is None) or (a is not None and not np.array_equal(np.asarray(a), np.asarray(b))):
            return f"_lp_cache.{name} differs from a fresh extraction: {a!r} vs {b!r}"[:240]
    if lp.sense != ref.sense or list(lp.variables) != list(ref.variables) or lp.c0 != ref.c0:
        return "_lp_cache sense / variables / c0 differ from a fresh extraction"
    return None


def judge(meta, info, P, fault):
    """the property on one faulted run (the next-solve comparison is done by the caller)"""
    if not info["hook_same"]:
        return {"what": "warnings.showwarning was not restored"}
    if not info["reclimit_same"]:
        return {"what": "the recursion limit changed"}
    if not info.get("globals_same", True):
        return {"what": "warnings.filters / numpy error state changed"}
    cr = cache_report(P) or (lp_cache_report(P, TABLE_SHAPES.get(meta.get("shape"))) if not meta.get("edited") else None)
    if cr is not None:
        return {"what": "problem caches invalid after the fault: " + cr}
    if info["fired"]:
        sol, exc = info.get("solution"), info.get("exception")
        if sol is not None:
            if sol.status.name != "FAILED":
                return {"what": f"a solve in which {fault.cls.__name__} was raised returned status {sol.status.name}"}
        else:
            injected = exc is not None and (type(exc) is fault.cls and "injected fault" in str(exc)
                                            or (exc.__cause__ is not None and type(exc.__cause__) is fault.cls))
            if not injected:
                return {"what": f"the injected {fault.cls.__name__} surfaced as {type(exc).__name__}: {exc}"[:300]}
            if fault.base_only and type(exc) is not fault.cls:
                return {"what": f"{fault.cls.__name__} was converted into {type(exc).__name__}"}
    return None


def fault_table(rep, rng, thorough, with_model=True):
    lines, metas = [], []
    i = 0
    for shape, spec in TABLE_SHAPES.items():
        ncons = len(spec["cons"])
        for warm in WARMUPS:
            if warm in ("linprog",) and shape not in ("E", "IL"):
                continue
            for call, method in CALLS + EXTRA_CALLS:
                if not thorough and warm is not None and (call, method) not in QUICK_WARM_CALLS:
                    continue
                extra = (call, method) in EXTRA_CALLS
                if extra and not thorough and shape not in ("B", "IL"):
                    continue
                lp_call = call == "solve-lp" or method in ("linprog", "highs", "highs-ds", "highs-ipm")
                if lp_call and shape not in ("E", "IL"):
                    # LP methods on a nonlinear problem only reach the NonLinearError: keep one representative
                    if not (shape == "B" and warm is None):
                        continue
                for variant in (0, 1):
                    if extra and not thorough and variant == 1:
                        continue
                    for pass_ in (0, 1):
                        if extra and not thorough and pass_ == 1:
                            continue
                        if pass_ == 1 and not (variant == 1 and method in ("SLSQP", "auto")):
                            if not (thorough and i % 5 == 0):
                                continue
                        for step in steps_for(ncons):
                            full = not extra and (thorough or (warm is None and pass_ == 0 and shape in ("B", "IL"))
                                                  or (pass_ == 1 and shape == "B" and warm is None))
                            for cls in dict.fromkeys(classes_for(i, step, full)):
                                i += 1
                                r1, r2, lr = stub_results(shape, variant)
                                # the reference is taken BEFORE the fault (module-level state polluted by the fault
                                # would otherwise affect both sides alike)
                                ref, _ = base.observe(make_problem(shape, warm, variant), call, method, False, True, None,
                                                      r1, r2, lr)
                                P = make_problem(shape, warm, variant)
                                f = base.Fault(pass_, step, cls)
                                if with_model:
                                    lines.append(base.model_line(call, P, method, False, True, None, r1, r2, lr, f))
                                text, info = base.observe(P, call, method, False, True, None, r1, r2, lr, fault=f)
                                meta = {"shape": shape, "warm": warm, "call": call, "method": method, "variant": variant,
                                        "fault": f.js()}
                                bad = judge(meta, info, P, f)
                                if bad is None:
                                    # the next solve of the same problem vs a twin that never saw the fault
                                    nxt, _ = base.observe(P, call, method, False, True, None, r1, r2, lr)
                                    if nxt != ref:
                                        bad = {"what": "the solve after the fault differs from the solve of an untouched twin",
                                               "after_fault": nxt[:500], "twin": ref[:500]}
                                    elif i % 5 == 0:
                                        # object lifetime: drop the faulted problem, rebuild the same model (same names)
                                        del P
                                        again, _ = base.observe(make_problem(shape, warm, variant), call, method, False, True,
                                                                None, r1, r2, lr)
                                        P = make_problem(shape, warm, variant)
                                        if again != ref:
                                            bad = {"what": "a rebuilt model of the same names solves differently after the fault",
                                                   "rebuilt": again[:500], "before_fault": ref[:500]}
                                if bad is not None:
                                    bad.update({"kind_of_case": "table", "case": meta, "observed": text[:300]})
                                    rep.oracle_failures.append(bad)
                                metas.append((meta, text, info["fired"]))
    outs = run_lean_unit(lines) if with_model else [t for _, t, _ in metas]
    rep.evaluations += len(metas)
    for (meta, text, fired), model in zip(metas, outs):
        st = meta["fault"][1]
        k = f"fault:{st if isinstance(st, str) else st[0]}:{'fired' if fired else 'not-reached'}"
        rep.histogram[k] = rep.histogram.get(k, 0) + 1
        if fired:
            o = "FAILED-solution" if text.startswith("sol status=FAILED") else text.split(" ")[0]
            rep.histogram["outcome:" + o] = rep.histogram.get("outcome:" + o, 0) + 1
            rep.nontrivial.add(hash(str(meta)))
        if text != model:
            rep.corr_mismatches.append({"case": meta, "impl": text[:700], "model": model[:700]})
        if fired and len(rep.samples) < 6 and rng.random() < 0.004:
            rep.samples.append({"case": meta, "observed": text[:400]})


# ----------------------------------------------------------------------------- histories on one problem


def apply_edit(P, edit):
    """an edit between solves: bound loosened / tightened / removed on the first variable, or a new constraint"""
    v = P.variables[0]
    if edit == "tighten":
        v.ub = (v.ub if v.ub is not None else 8.0) - 0.5
    elif edit == "loosen":
        v.lb = (v.lb if v.lb is not None else 0.0) - 1.0
    elif edit == "remove-bound":
        v.ub = None
    elif edit == "add-constraint":
        P.subject_to(v <= 64.0)
    elif edit == "re-objective":
        P.minimize(P.objective) if P.sense == "minimize" else P.maximize(P.objective)


HISTORY_EDITS = [None, "tighten", "loosen", "remove-bound", "add-constraint", "re-objective"]
LIN_METHODS = ["auto", "linprog", "highs-ds", "SLSQP", "trust-constr", "L-BFGS-B"]
NL_METHODS = ["auto", "SLSQP", "trust-constr", "L-BFGS-B", "Newton-CG", "Nelder-Mead"]


def fault_histories(rep, rng, thorough, with_model=True):
    """one or two faulted solves (any step, any class, LP- and NLP-path methods interleaved), an optional edit of the
    problem, then a clean solve — compared with a twin that went through the same edit but never saw a fault;
    every call of the history is also compared with the stateful Lean model"""
    lines, texts, metas = [], [], []
    n = 2000 if thorough else 600
    for i in range(n):
        shape = ["B", "E", "IL", "I", "C"][i % 5]
        spec = TABLE_SHAPES[shape]
        methods = LIN_METHODS if shape in ("E", "IL") else NL_METHODS
        variant = rng.randint(0, 1)
        r1, r2, lr = stub_results(shape, variant)
        edit = HISTORY_EDITS[(i // 5) % len(HISTORY_EDITS)]
        final_m = rng.choice(methods)
        twin = make_problem(shape, None, variant)
        apply_edit(twin, edit)
        ref, _ = base.observe(twin, "solve", final_m, False, True, None, r1, r2, lr)
        warm = rng.choice([None, None, "SLSQP", "auto"])
        P = make_problem(shape, warm, variant)
        hist, bad = [], None
        for _ in range(rng.randint(1, 2)):
            m = rng.choice(methods)
            step = rng.choice(steps_for(len(spec["cons"])))
            cls = rng.choice(CLASSES)
            f = base.Fault(rng.choice([0, 0, 1]), step, cls)
            if with_model:
                lines.append(base.model_line("solve", P, m, False, True, None, r1, r2, lr, f))
            text, info = base.observe(P, "solve", m, False, True, None, r1, r2, lr, fault=f)
            hist.append({"method": m, "fault": f.js()})
            meta = {"shape": shape, "warm": warm, "history": list(hist), "edit": edit, "final": final_m, "variant": variant}
            texts.append((meta, text))
            bad = bad or judge({"shape": shape}, info, P, f)
        apply_edit(P, edit)
        if with_model:
            lines.append(base.model_line("solve", P, final_m, False, True, None, r1, r2, lr, None))
        nxt, info = base.observe(P, "solve", final_m, False, True, None, r1, r2, lr)
        meta = {"shape": shape, "warm": warm, "history": list(hist), "edit": edit, "final": final_m, "variant": variant}
        texts.append((meta, nxt))
        # the cache flags may legitimately differ from the twin's (an earlier solve warmed them): compare what the
        # caller sees — outcome and solver calls
        if bad is None and nxt.split(" | ")[:2] != ref.split(" | ")[:2]:
            bad = {"what": "after faulted solves (and the same edit) the problem solves differently from an untouched twin",
                   "after_faults": nxt[:500], "twin": ref[:500]}
        if bad is None and cache_report(P) is not None:
            bad = {"what": "problem caches invalid at the end of the history: " + cache_report(P)}
        rep.histogram[f"history:{edit}"] = rep.histogram.get(f"history:{edit}", 0) + 1
        rep.nontrivial.add(hash(str(meta)))
        if bad is not None:
            bad.update({"kind_of_case": "history", "case": meta})
            rep.oracle_failures.append(bad)
    rep.evaluations += len(texts)
    outs = run_lean_unit(lines) if with_model else []
    for (meta, text), model in zip(texts, outs):
        if text != model:
            rep.corr_mismatches.append({"case": meta, "impl": text[:700], "model": model[:700]})


# ----------------------------------------------------------------------------- faults inside the real solvers


REAL_SHAPES = {
    "A": base.SHAPES["A"]["spec"],
    "B": base.SHAPES["B"]["spec"],
    "C": base.SHAPES["C"]["spec"],
    "Q": {"vars": [["p", -3.0, 3.0, "continuous"], ["q", -3.0, 3.0, "continuous"]], "sense": "max",
          "obj": [[-1, [[0, 2]]], [-2, [[1, 2]]], [1, [[0, 1], [1, 1]]], [3, [[0, 1]]]],
          "cons": [[[[1, [[0, 2]]], [1, [[1, 2]]]], "<=", 4.0], [[[1, [[0, 1]]], [-1, [[1, 1]]]], "==", 0.5]]},
}
# "SLSQP>retry": the first (SLSQP) call returns a fabricated "successful" infeasible point, so that the automatic
# retry runs the REAL trust-constr (its callbacks, its Hessian) with the fault armed
REAL_METHODS = {"A": ["SLSQP", "trust-constr", "auto", "SLSQP>retry", "COBYLA"],
                "B": ["SLSQP", "trust-constr", "SLSQP>retry"],
                "C": ["L-BFGS-B", "BFGS", "trust-constr", "Newton-CG", "Nelder-Mead", "TNC", "CG", "Powell", "trust-ncg", "dogleg"],
                "Q": ["SLSQP", "trust-constr", "COBYLA", "SLSQP>retry", "auto"]}
FAR_POINT = {"A": [-64.0], "B": [30.0, 20.0], "Q": [9.0, 9.0]}
EVAL_KINDS = ["obj", "grad", "con", "jac", "hess", "entry"]


def real_fault_run(spec, method, kind, k, cls, arm=True, far=None):
    """solve with the real SciPy; the k-th evaluation of `kind` raises `cls`.
    -> dict(outcome, fired, inside, hook_same, reclimit_same, problem)"""
    import optyx.core.autodiff as AD
    import optyx.core.compiler as CC
    import optyx.solvers.scipy_solver as SS

    P = base.build_problem(spec)[0]
    retry = method == "SLSQP>retry"
    method = "SLSQP" if retry else method
    st = {"n": {}, "fired": False, "inside": False, "in_min": False, "armed": arm, "ce": 0, "cj": 0, "exc": None}

    def tick(kd):
        if not st["armed"] or st["fired"]:
            return
        n = st["n"].get(kd, 0)
        st["n"][kd] = n + 1
        if kd == kind and n == k:
            st["fired"], st["inside"] = True, st["in_min"]
            st["exc"] = cls("injected fault")
            raise st["exc"]

    def wrap(f, kd):
        def g(*a, **kw):
            tick(kd)
            return f(*a, **kw)
        return g

    o_ce, o_cj, o_ch, o_min = CC.compile_expression, AD.compile_jacobian, AD.compile_hessian, SS.minimize

    def p_ce(*a, **kw):
        f = o_ce(*a, **kw)
        if sys._getframe(1).f_code.co_name == "_build_solver_cache":
            kd = "obj" if st["ce"] == 0 else "con"
            st["ce"] += 1
            return wrap(f, kd)
        return f

    def p_cj(*a, **kw):
        f = o_cj(*a, **kw)
        if sys._getframe(1).f_code.co_name == "_build_solver_cache":
            kd = "grad" if st["cj"] == 0 else "jac"
            st["cj"] += 1
            return wrap(f, kd)
        return f

    def p_ch(*a, **kw):
        return wrap(o_ch(*a, **kw), "hess")

    def p_min(*a, **kw):
        st["in_min"] = True
        try:
            tick("entry")
            if retry and kw.get("method") == "SLSQP":
                from scipy.optimize import OptimizeResult

                return OptimizeResult(x=np.array(far, dtype=float), success=True, fun=0.0, nit=1,
                                      message="Optimization terminated successfully")
            return o_min(*a, **kw)
        finally:
            st["in_min"] = False

    out = {}
    rl0 = sys.getrecursionlimit()
    with warnings.catch_warnings(record=True), np.errstate(all="ignore"):
        warnings.simplefilter("always")
        hook0 = warnings.showwarning
        err0 = np.geterr()
        CC.compile_expression, AD.compile_jacobian, AD.compile_hessian, SS.minimize = p_ce, p_cj, p_ch, p_min
        try:
            try:
                out["solution"] = P.solve(method=method)
            except BaseException as e:  # noqa: BLE001
                out["exception"] = e
        finally:
            CC.compile_expression, AD.compile_jacobian, AD.compile_hessian, SS.minimize = o_ce, o_cj, o_ch, o_min
            st["armed"] = False
        out["hook_same"] = warnings.showwarning is hook0 and np.geterr() == err0
    out["reclimit_same"] = sys.getrecursionlimit() == rl0
    out.update(fired=st["fired"], inside=st["inside"], problem=P, injected=st["exc"])
    return out


def plain_solve(P, method):
    with warnings.catch_warnings(), np.errstate(all="ignore"):
        warnings.simplefilter("ignore")
        return P.solve(method=method)


def same_solution(a, b):
    if a.status != b.status or list(a.values) != list(b.values):
        return False
    if (a.objective_value is None) != (b.objective_value is None):
        return False
    if a.objective_value is not None and abs(a.objective_value - b.objective_value) > 1e-9 * (1 + abs(b.objective_value)):
        return False
    return all(abs(a.values[k] - b.values[k]) <= 1e-9 * (1 + abs(b.values[k])) for k in a.values)


def judge_real(case, out, cls):
    P = out["problem"]
    if not out["hook_same"]:
        return {"what": "warnings.showwarning was not restored"}
    if not out["reclimit_same"]:
        return {"what": "the recursion limit changed"}
    cr = cache_report(P)
    if cr is not None:
        return {"what": "problem caches invalid after the fault: " + cr}
    if out["fired"]:
        sol, exc = out.get("solution"), out.get("exception")
        if sol is not None:
            if sol.status.name != "FAILED":
                return {"what": f"a solve in which {cls.__name__} was raised returned status {sol.status.name}"}
            if not out["inside"] or not issubclass(cls, Exception):
                return {"what": f"{cls.__name__} raised outside the solver call / not an Exception was swallowed"}
        elif exc is not out["injected"]:
            return {"what": f"the injected {cls.__name__} surfaced as {type(exc).__name__}: {exc}"[:300]}
    pm = "SLSQP" if case["method"] == "SLSQP>retry" else case["method"]
    nxt = plain_solve(P, pm)
    bk = (case["shape"], pm)
    if bk not in _BASELINES:   # deterministic: one baseline solve per (shape, method), checked to be repeatable
        _BASELINES[bk] = plain_solve(base.build_problem(case["spec"])[0], pm)
        again = plain_solve(base.build_problem(case["spec"])[0], pm)
        if not same_solution(_BASELINES[bk], again):
            _BASELINES[bk] = None
    ref = _BASELINES[bk]
    if ref is None:
        ref = plain_solve(base.build_problem(case["spec"])[0], pm)
    if not same_solution(nxt, ref):
        return {"what": "the solve after the fault differs from a baseline solve",
                "after_fault": [nxt.status.name, dict(nxt.values), nxt.objective_value],
                "baseline": [ref.status.name, dict(ref.values), ref.objective_value]}
    return None


def real_fault_cases(rep, rng, thorough, kmax=None):
    kmax = kmax or (12 if thorough else 5)
    for shape, spec in REAL_SHAPES.items():
        for method in REAL_METHODS[shape]:
            for kind in EVAL_KINDS:
                ks = list(range(kmax + 1)) if kind != "entry" else [0]
                if not thorough and len(ks) > 4:
                    ks = [0, 1] + rng.sample(ks[2:], 2)
                for k in ks:
                    j = k + len(kind) + len(method)
                    some = [REAL_CLASSES[j % len(REAL_CLASSES)], BASE_CLASSES[j % len(BASE_CLASSES)]]
                    if k == 0 and not thorough:
                        some += [MemoryError, REAL_CLASSES[(j + 5) % len(REAL_CLASSES)]]
                    for cls in dict.fromkeys(REAL_CLASSES if thorough else some):
                        case = {"shape": shape, "spec": spec, "method": method, "eval": kind, "k": k, "cls": cls.__name__}
                        out = real_fault_run(spec, method, kind, k, cls, far=FAR_POINT.get(shape))
                        rep.evaluations += 1
                        tag = f"real:{kind}:" + ("not-reached" if not out["fired"] else
                                                 ("inside" if out["inside"] else "outside") + ":" +
                                                 ("FAILED" if "solution" in out else "propagated"))
                        rep.histogram[tag] = rep.histogram.get(tag, 0) + 1
                        if out["fired"]:
                            rep.nontrivial.add(hash((shape, method, kind, k, cls.__name__)))
                        bad = judge_real(case, out, cls)
                        if bad is not None:
                            bad.update({"kind_of_case": "real", "case": case})
                            rep.oracle_failures.append(bad)


def real_lp_faults(rep):
    """the real linprog / extractor: fault at the solver entry and inside extract"""
    import scipy.optimize as SO

    import optyx.analysis as AN

    spec = base.SHAPES["E"]["spec"]
    for where in ("linprog", "extract"):
        for cls in CLASSES:
            for method in ("auto", "linprog", "highs", "highs-ds", "highs-ipm"):
                P = base.build_problem(spec)[0]
                o_lp, o_ex = SO.linprog, AN.LinearProgramExtractor.extract
                injected = cls("injected fault")

                def bad_lp(*a, **k):
                    raise injected

                def bad_ex(self, prob):
                    raise injected
                rl0 = sys.getrecursionlimit()
                res = {}
                with warnings.catch_warnings(record=True):
                    warnings.simplefilter("always")
                    hook0 = warnings.showwarning
                    try:
                        if where == "linprog":
                            SO.linprog = bad_lp
                        else:
                            AN.LinearProgramExtractor.extract = bad_ex
                        try:
                            res["solution"] = P.solve(method=method)
                        except BaseException as e:  # noqa: BLE001
                            res["exception"] = e
                    finally:
                        SO.linprog, AN.LinearProgramExtractor.extract = o_lp, o_ex
                    hook_same = warnings.showwarning is hook0
                rep.evaluations += 1
                case = {"where": where, "cls": cls.__name__, "method": method}
                bad = None
                if not hook_same or sys.getrecursionlimit() != rl0:
                    bad = {"what": "hook / recursion limit not restored"}
                elif cache_report(P) is not None:
                    bad = {"what": "caches invalid: " + cache_report(P)}
                elif "solution" in res:
                    if res["solution"].status.name != "FAILED" or not issubclass(cls, Exception) or where != "linprog":
                        bad = {"what": f"{cls.__name__} in {where} produced status {res['solution'].status.name}"}
                else:
                    e = res["exception"]
                    if not (e is injected or e.__cause__ is injected):
                        bad = {"what": f"injected {cls.__name__} surfaced as {type(e).__name__}"}
                if bad is None:
                    nxt = plain_solve(P, method)
                    ref = plain_solve(base.build_problem(spec)[0], method)
                    if not same_solution(nxt, ref):
                        bad = {"what": "the LP solve after the fault differs from a baseline solve"}
                tag = f"real-lp:{where}:" + ("FAILED" if "solution" in res else type(res["exception"]).__name__)
                rep.histogram[tag] = rep.histogram.get(tag, 0) + 1
                rep.nontrivial.add(hash(("lp", where, cls.__name__, method)))
                if bad is not None:
                    bad.update({"kind_of_case": "real-lp", "case": case})
                    rep.oracle_failures.append(bad)


# ----------------------------------------------------------------------------- faults from INSIDE the compiled callables


def errstate_problem(name):
    """problems whose derivative callables hit 0/0, x/0 or an underflow: under np.errstate(all="raise") the REAL
    compiled gradient / constraint Jacobian / Hessian raises FloatingPointError in the middle of filling its result
    (first entry, a later entry, first call at the default start 0, or every call for the underflow shapes)"""
    from optyx import Problem, Variable, VectorVariable
    from optyx.core.functions import abs_, exp, sqrt
    from optyx.core.vectors import norm

    a, b, c = Variable("a"), Variable("b"), Variable("c")
    v = VectorVariable("v", 3)
    P = Problem()
    if name == "|a|+(b-3)^2":
        P.minimize(abs_(a) + (b - 3.0) ** 2)
    elif name == "(a-3)^2+|b|":
        P.minimize((a - 3.0) ** 2 + abs_(b))
    elif name == "(a-1)^2+(b-2)^2+|c|":
        P.minimize((a - 1.0) ** 2 + (b - 2.0) ** 2 + abs_(c))
    elif name == "sqrt(a*a+b*b)+(a-1)^2":
        P.minimize(sqrt(a * a + b * b) + (a - 1.0) ** 2)
    elif name == "a/|a|-like: a*a/|a|":
        P.minimize((a * a) / (abs_(a) + 0.0 * b) + (b - 1.0) ** 2)
    elif name == "con:|a|+b<=5":
        P.minimize((a - 1.0) ** 2 + (b - 2.0) ** 2).subject_to(abs_(a) + b <= 5.0)
    elif name == "con:sqrt(a*a+b*b)<=4":
        P.minimize((a - 1.0) ** 2 + (b - 5.0) ** 2).subject_to(sqrt(a * a + b * b) <= 4.0)
    elif name == "con2:b-a<=3,|b|+a<=6":
        P.minimize((a - 1.0) ** 2 + (b - 2.0) ** 2).subject_to(b - a <= 3.0).subject_to(abs_(b) + a <= 6.0)
    elif name == "underflow:exp(a-800)":
        P.minimize((a - 1.0) ** 2 + (b - 3.0) ** 2 + exp(a - 800.0))
    elif name == "underflow:exp(b-800)":
        P.minimize((a - 1.0) ** 2 + (b - 3.0) ** 2 + exp(b - 800.0))
    elif name == "underflow-con:exp(b-800)+a<=4":
        P.minimize((a - 5.0) ** 2 + (b - 3.0) ** 2).subject_to(exp(b - 800.0) + a <= 4.0)
    elif name == "overflow:exp(700*a)*0":
        P.minimize((a + 1.0) ** 2 + (b - 3.0) ** 2 + 1e-300 * exp(-750.0 * (a + 1.0)) * (b + 0.0))
    elif name == "norm(v)+(v0-1)^2":
        P.minimize(norm(v) + (v[0] - 1.0) ** 2 + (v[1] - 2.0) ** 2 + v[2] ** 2)
    elif name == "(v.dot(v))**0.5":
        P.minimize(v.dot(v) ** 0.5 + (v[0] - 1.0) ** 2)
    else:
        raise ValueError(name)
    return P


ERRSTATE_PROBLEMS = ["|a|+(b-3)^2", "(a-3)^2+|b|", "(a-1)^2+(b-2)^2+|c|", "sqrt(a*a+b*b)+(a-1)^2", "a/|a|-like: a*a/|a|",
                     "con:|a|+b<=5", "con:sqrt(a*a+b*b)<=4", "con2:b-a<=3,|b|+a<=6", "underflow:exp(a-800)", "underflow:exp(b-800)",
                     "underflow-con:exp(b-800)+a<=4", "overflow:exp(700*a)*0", "norm(v)+(v0-1)^2", "(v.dot(v))**0.5"]
ERRSTATE_METHODS = ["auto", "SLSQP", "L-BFGS-B", "BFGS", "trust-constr", "Newton-CG", "TNC", "CG"]


def errstate_case(data):
    """first solve with floating-point errors raised from inside the real callables (during the whole solve, or only
    during the k-th call of one kind of callable); then the same Problem is solved again without it and must equal a
    fresh problem's solve"""
    import optyx.core.autodiff as AD
    import optyx.core.compiler as CC

    name, method, mode = data["problem"], data["method"], data["mode"]
    P = errstate_problem(name)
    st = {"n": {}, "ce": 0, "cj": 0, "raised": False}

    def wrap(f, kd):
        def g(*a, **kw):
            k = st["n"].get(kd, 0)
            st["n"][kd] = k + 1
            if mode[0] == kd and k == mode[1] and not st["raised"]:
                try:
                    with np.errstate(all="raise"):
                        return f(*a, **kw)
                except FloatingPointError:
                    st["raised"] = True
                    raise
            return f(*a, **kw)
        return g

    o_ce, o_cj, o_ch = CC.compile_expression, AD.compile_jacobian, AD.compile_hessian

    def p_ce(*a, **kw):
        f = o_ce(*a, **kw)
        if sys._getframe(1).f_code.co_name == "_build_solver_cache":
            kd = "obj" if st["ce"] == 0 else "con"
            st["ce"] += 1
            return wrap(f, kd)
        return f

    def p_cj(*a, **kw):
        f = o_cj(*a, **kw)
        if sys._getframe(1).f_code.co_name == "_build_solver_cache":
            kd = "grad" if st["cj"] == 0 else "jac"
            st["cj"] += 1
            return wrap(f, kd)
        return f

    def p_ch(*a, **kw):
        return wrap(o_ch(*a, **kw), "hess")

    out = {}
    rl0, hook_ok = sys.getrecursionlimit(), True
    with warnings.catch_warnings():
        warnings.simplefilter("ignore")
        hook0 = warnings.showwarning
        if mode[0] != "whole":
            CC.compile_expression, AD.compile_jacobian, AD.compile_hessian = p_ce, p_cj, p_ch
        try:
            try:
                if mode[0] == "whole":
                    with np.errstate(all="raise"):
                        out["solution"] = P.solve(method=method)
                else:
                    out["solution"] = P.solve(method=method)
            except BaseException as e:  # noqa: BLE001
                out["exception"] = e
        finally:
            CC.compile_expression, AD.compile_jacobian, AD.compile_hessian = o_ce, o_cj, o_ch
        hook_ok = warnings.showwarning is hook0
    first = out["solution"].status.name if "solution" in out else "raise:" + type(out["exception"]).__name__
    if not hook_ok or sys.getrecursionlimit() != rl0:
        return {"what": "hook / recursion limit not restored"}, first
    if "exception" in out and not isinstance(out["exception"], FloatingPointError):
        return {"what": f"the floating-point fault surfaced as {type(out['exception']).__name__}: {out['exception']}"[:240]}, first
    if mode[0] != "whole" and st["raised"] and "solution" in out and out["solution"].status.name != "FAILED":
        return {"what": f"FloatingPointError raised inside the {mode[0]} callable, yet status {out['solution'].status.name}"}, first
    cr = cache_report(P)
    if cr is not None:
        return {"what": "problem caches invalid after the fault: " + cr}, first
    # the callables of the cache were wrapped: disarmed now (mode index passed / raised flag set)
    st["raised"] = True
    nxt = plain_solve(P, method)
    key = ("errstate", name, method)
    if key not in _BASELINES:
        _BASELINES[key] = plain_solve(errstate_problem(name), method)
    ref = _BASELINES[key]
    if not same_solution(nxt, ref):
        return {"what": "the solve after the floating-point fault differs from the solve of a fresh problem",
                "after_fault": [nxt.status.name, dict(nxt.values), nxt.objective_value],
                "fresh": [ref.status.name, dict(ref.values), ref.objective_value]}, first
    return None, first


def errstate_fault_cases(rep, rng, thorough):
    i = 0
    for name in ERRSTATE_PROBLEMS:
        for method in ERRSTATE_METHODS:
            constrained = "con" in name
            if constrained and method in ("L-BFGS-B", "BFGS", "Newton-CG", "TNC", "CG"):
                continue
            modes = [("whole", 0), ("grad", 0), ("grad", 1), ("grad", 3), ("jac", 0), ("jac", 2), ("hess", 0), ("hess", 1),
                     ("obj", 0), ("con", 1)]
            for mode in modes:
                i += 1
                if mode[0] in ("jac", "con") and not constrained:
                    continue
                if mode[0] == "hess" and method not in ("trust-constr", "Newton-CG", "auto"):
                    continue
                if not thorough and mode[0] != "whole" and mode != ("grad", 0) and mode != ("jac", 0) and i % 3:
                    continue
                data = {"problem": name, "method": method, "mode": list(mode)}
                data["mode"] = tuple(data["mode"])
                bad, first = errstate_case(data)
                rep.evaluations += 1
                k = f"errstate:{mode[0]}:{first}"
                rep.histogram[k] = rep.histogram.get(k, 0) + 1
                if first in ("FAILED", "raise:FloatingPointError"):
                    rep.nontrivial.add(hash(("errstate", name, method, mode)))
                if bad is not None:
                    bad.update({"kind_of_case": "errstate", "data": {"problem": name, "method": method, "mode": list(mode)}})
                    rep.oracle_failures.append(bad)


# ----------------------------------------------------------------------------- public helpers under faults


def recursion_limit_apis():
    """every function of the tree under test whose source calls sys.setrecursionlimit (found by parsing the sources)"""
    import ast
    import os

    found = []
    root = os.path.join(core.REPO, "src", "optyx")
    for dp, _, files in os.walk(root):
        for fn in files:
            if not fn.endswith(".py"):
                continue
            path = os.path.join(dp, fn)
            try:
                tree = ast.parse(open(path).read())
            except SyntaxError:
                continue
            for node in ast.walk(tree):
                if isinstance(node, (ast.FunctionDef, ast.AsyncFunctionDef)) and "setrecursionlimit" in ast.unparse(node):
                    inner = [n for n in ast.walk(node) if n is not node and isinstance(n, ast.FunctionDef)
                             and "setrecursionlimit" in ast.unparse(n)]
                    if not inner:
                        found.append((os.path.relpath(path, root), node.name))
    return sorted(set(found))


HELPER_BODIES = ["raise", "solve-entry", "solve-obj-0", "solve-grad-1", "solve-con-2", "solve-hess-0", "lp-entry",
                 "nested-raise", "nested-solve", "decorator-raise", "generator-close"]


def helper_case(data):
    """`with increased_recursion_limit(n): body` left by an exception of class `cls` raised directly in the body,
    at the entry of the solver, or at the k-th objective / gradient / constraint / Hessian evaluation of a real solve
    inside the block; nested uses; use as a decorator; a generator suspended inside the block being closed.
    Afterwards sys.getrecursionlimit() must be what it was before (and inside the block it must be n)."""
    import scipy.optimize as SO

    import optyx
    helper = optyx.increased_recursion_limit
    cls = {c.__name__: c for c in CLASSES}[data["cls"]]
    before = sys.getrecursionlimit()
    n1, n2 = before + data["dn1"], before + data["dn2"]
    seen = {}
    body = data["body"]

    def work():
        seen["inside"] = sys.getrecursionlimit()
        if body in ("raise", "nested-raise", "decorator-raise"):
            raise cls("injected fault")
        if body == "lp-entry":
            o_lp = SO.linprog

            def bad_lp(*a, **k):
                raise cls("injected fault")
            SO.linprog = bad_lp
            try:
                return base.build_problem(base.SHAPES["E"]["spec"])[0].solve(method="auto")
            finally:
                SO.linprog = o_lp
        kind, k = ("entry", 0) if body in ("solve-entry", "nested-solve") else (body.split("-")[1], int(body.split("-")[2]))
        out = real_fault_run(REAL_SHAPES[data["shape"]], data["method"], kind, k, cls)
        if "exception" in out:
            raise out["exception"]
        return out.get("solution")

    result = {}
    try:
        try:
            if body.startswith("nested"):
                with helper(n1):
                    mid = sys.getrecursionlimit()
                    try:
                        with helper(n2):
                            work()
                    finally:
                        seen["between"] = (sys.getrecursionlimit(), mid)
            elif body == "decorator-raise":
                helper(n1)(work)()
            elif body == "generator-close":
                def gen():
                    with helper(n1):
                        seen["inside"] = sys.getrecursionlimit()
                        yield 1
                        yield 2
                g = gen()
                next(g)
                if data["cls"] == "GeneratorExit":
                    g.close()
                else:
                    try:
                        g.throw(cls("injected fault"))
                    except BaseException as e:  # noqa: BLE001
                        result["exc"] = e
            else:
                with helper(n1):
                    work()
        except BaseException as e:  # noqa: BLE001
            result["exc"] = e
        after = sys.getrecursionlimit()
    finally:
        sys.setrecursionlimit(before)
    want_inside = n2 if body.startswith("nested") else n1
    if seen.get("inside") != want_inside:
        return {"what": f"inside the block the recursion limit is {seen.get('inside')}, not the requested {want_inside}"}
    if "between" in seen and seen["between"][0] != seen["between"][1]:
        return {"what": f"after the inner block the limit is {seen['between'][0]}, not the outer block's {seen['between'][1]}"}
    if after != before:
        return {"what": f"sys.getrecursionlimit() is {after} after the block was left by {data['cls']}; it was {before} before",
                "surfaced": type(result.get("exc")).__name__}
    e = result.get("exc")
    if e is not None and not (type(e) is cls or isinstance(e.__cause__, cls)) and not issubclass(cls, Exception):
        return {"what": f"{data['cls']} leaving the block surfaced as {type(e).__name__}"}
    return None


def helper_fault_cases(rep, rng, thorough):
    apis = recursion_limit_apis()
    rep.histogram["recursion-limit-apis:" + ",".join(f"{a}:{b}" for a, b in apis)] = 1
    unknown = [x for x in apis if x[1] != "increased_recursion_limit"]
    if unknown:
        # the model says: only the public helper touches the limit, a solve never does
        rep.corr_mismatches.append({"case": {"unmodelled function touching the recursion limit": unknown},
                                    "impl": str(apis), "model": "[('core/autodiff.py', 'increased_recursion_limit')]"})
    i = 0
    for body in HELPER_BODIES:
        for cls in CLASSES:
            for dn1, dn2 in ((500, 900), (4000, -200), (0, 300)):
                i += 1
                real = body.startswith("solve") or body == "nested-solve"
                if not thorough and ((real and (i % 3 or cls in EXC_CLASSES[3:] and i % 2)) or (dn1 == 0 and i % 2)):
                    continue
                if cls is StopIteration and (real or body == "generator-close"):
                    continue
                shape = "A" if "con" in body else "C"
                if "hess" in body:
                    method = "trust-constr" if i % 2 else "Newton-CG"
                elif "con" in body:
                    method = "SLSQP" if i % 2 else "trust-constr"
                else:
                    method = ["L-BFGS-B", "trust-constr", "BFGS", "Nelder-Mead"][i % 4] if "grad" not in body else ["L-BFGS-B", "BFGS"][i % 2]
                data = {"body": body, "cls": cls.__name__, "dn1": dn1, "dn2": dn2, "shape": shape, "method": method}
                bad = helper_case(data)
                rep.evaluations += 1
                k = f"helper:{body}:{'base' if cls in BASE_CLASSES else 'exception'}"
                rep.histogram[k] = rep.histogram.get(k, 0) + 1
                rep.nontrivial.add(hash(("helper", str(data))))
                if bad is not None:
                    bad.update({"kind_of_case": "helper", "data": data})
                    rep.oracle_failures.append(bad)


# ----------------------------------------------------------------------------- process-global state changed BETWEEN solves


class HarnessMarker(UserWarning):
    """a warning that is not optyx's own: raised by the application's callbacks / around the solver during a solve"""


class _Recorder:
    """what one installed display hook has been shown"""

    def __init__(self, tag, kind):
        self.tag, self.kind, self.got, self.forward = tag, kind, [], None

    def show(self, message, category, filename, lineno, file=None, line=None):
        self.got.append(str(message))
        if self.forward is not None:
            self.forward(message, category, filename, lineno, file, line)

    def texts(self):
        return list(self.got)


class _LogRecorder(_Recorder):
    """Python's own hook inside `catch_warnings(record=True)`: what it displays lands in the log list"""

    def __init__(self, tag, log):
        super().__init__(tag, "default")
        self.log = log

    def texts(self):
        return [str(w.message) for w in self.log]


class _CallableHook:
    def __init__(self, rec):
        self.rec = rec

    def __call__(self, message, category, filename, lineno, file=None, line=None):
        self.rec.show(message, category, filename, lineno, file, line)


def _hook_into(rec, message, category, filename, lineno, file=None, line=None):
    rec.show(message, category, filename, lineno, file, line)


HOOK_KINDS = ["function", "logging", "partial", "bound-method", "callable-object", "lambda", "chained", "default"]
FILTER_STATES = ["always", "default", "once", "ignore-deprecation", "error-bytes"]
ERR_STATES = [{"all": "ignore"}, {"all": "warn"}, {"all": "ignore", "over": "warn"}, {"all": "warn", "under": "ignore"}]
LIMIT_STEPS = [0, 1, 250, 2000, 4000, 6000]


class _Ambient:
    """the application's side of the process: installs display hooks of every kind, changes the recursion limit,
    the warnings filters and NumPy's error state — all BETWEEN calls of optyx"""

    def __init__(self, log):
        import logging

        self.logging = logging
        self.entry_hook = warnings.showwarning
        self.entry_limit = sys.getrecursionlimit()
        self.entry_err = np.geterr()
        self.default_rec = _LogRecorder("python-default", log)
        self.hooks = [(self.entry_hook, self.default_rec)]   # every hook ever installed, with its recorder
        self.capturing = False
        self.handler = None
        self.pylog = logging.getLogger("py.warnings")
        self.pylog_state = (self.pylog.propagate, self.pylog.level, self.pylog.disabled)

    # -- hooks
    def rec_of(self, hook):
        for h, r in self.hooks:
            if h is hook:
                return r
        return None

    def describe(self, hook):
        r = self.rec_of(hook)
        return r.tag if r is not None else f"<unknown hook of type {type(hook).__name__}: {hook!r}>"[:160]

    def chain_closure(self, rec):
        out, r = [], rec
        while r is not None and r not in out:
            out.append(r)
            r = self.rec_of(r.forward) if r.forward is not None else None
        return out

    def _stop_logging(self):
        if self.capturing:
            self.logging.captureWarnings(False)
            self.capturing = False

    def install(self, kind):
        n = len(self.hooks)
        prev = warnings.showwarning
        if kind == "logging" and self.capturing:
            kind = "function"
        if kind != "logging":
            self._stop_logging()
        if kind == "default":
            warnings.showwarning = self.entry_hook
            return
        rec = _Recorder(f"hook#{n}:{kind}", kind)
        if kind == "logging":
            if self.handler is None:
                amb = self

                class H(self.logging.Handler):
                    def emit(self, record):
                        amb.log_rec.got.append(record.getMessage())
                self.handler = H()
                self.pylog.addHandler(self.handler)
                self.pylog.propagate = False
                self.pylog.disabled = False
                self.pylog.setLevel(self.logging.WARNING)
            self.log_rec = rec
            self.logging.captureWarnings(True)
            self.capturing = True
            hook = warnings.showwarning
            old = self.rec_of(hook)
            if old is not None:            # logging's hook is one module-level function: same object, new recorder
                self.hooks = [(h, r) for h, r in self.hooks if h is not hook]
            self.hooks.append((hook, rec))
            return
        if kind == "function":
            def hook(message, category, filename, lineno, file=None, line=None):
                rec.show(message, category, filename, lineno, file, line)
        elif kind == "lambda":
            hook = lambda *a, **k: rec.show(*a, **k)  # noqa: E731
        elif kind == "partial":
            import functools

            hook = functools.partial(_hook_into, rec)
        elif kind == "bound-method":
            hook = rec.show
        elif kind == "callable-object":
            hook = _CallableHook(rec)
        elif kind == "chained":
            rec.forward = prev

            def hook(message, category, filename, lineno, file=None, line=None):
                rec.show(message, category, filename, lineno, file, line)
        else:
            raise ValueError(kind)
        warnings.showwarning = hook
        self.hooks.append((hook, rec))

    # -- everything
    def apply(self, amb):
        if not amb:
            return
        if amb.get("filters") is not None:
            f = amb["filters"]
            warnings.resetwarnings()
            warnings.simplefilter({"ignore-deprecation": "always", "error-bytes": "always"}.get(f, f))
            if f == "ignore-deprecation":
                warnings.filterwarnings("ignore", category=DeprecationWarning)
            if f == "error-bytes":
                warnings.filterwarnings("error", category=BytesWarning)
            warnings.filterwarnings("always", category=HarnessMarker)
        if amb.get("errstate") is not None:
            np.seterr(**amb["errstate"])
        if amb.get("limit") is not None:
            sys.setrecursionlimit(self.entry_limit + amb["limit"])
        if amb.get("hook") is not None:
            self.install(amb["hook"])

    def close(self):
        try:
            self._stop_logging()
            if self.handler is not None:
                self.pylog.removeHandler(self.handler)
            self.pylog.propagate, level, self.pylog.disabled = self.pylog_state
            self.pylog.setLevel(level)
        finally:
            sys.setrecursionlimit(self.entry_limit)
            np.seterr(**self.entry_err)


def _snap():
    return {"hook": warnings.showwarning, "limit": sys.getrecursionlimit(), "filters": list(warnings.filters),
            "err": np.geterr()}


STATE_SHAPES = dict(REAL_SHAPES, E=base.SHAPES["E"]["spec"], I=INT_SHAPE, IL=INT_LP_SHAPE)
STATE_METHODS = dict(REAL_METHODS,
                     E=["auto", "linprog", "SLSQP", "highs-ds", "trust-constr", "highs", "highs-ipm"],
                     I=["auto", "SLSQP", "trust-constr"],
                     IL=["auto", "SLSQP", "linprog", "highs", "trust-constr"])
STATE_WHERES = ["obj", "grad", "con", "jac", "hess", "entry", "exit", "post", "extract", "pre:_build_solver_cache",
                "pre:_compute_initial_point", "pre:compile_hessian", "pre:is_linear", "pre:_auto_select_method",
                "pre:extract_bounds"]
STATE_EDITS = [None, None, None, "re-objective", "tighten", "add-constraint", "loosen", "remove-bound"]


def _pre_seam(name):
    import optyx.analysis as AN
    import optyx.core.autodiff as AD
    import optyx.solvers.scipy_solver as SS
    from optyx.problem import Problem as PCls

    owner = {"_build_solver_cache": SS, "_compute_initial_point": SS, "compile_hessian": AD, "is_linear": AN,
             "_auto_select_method": PCls, "extract_bounds": AN.LinearProgramExtractor}.get(name)
    if owner is None or not hasattr(owner, name):
        return None
    return owner


def state_solve(P, method, fault=None, emit=False, helper=None, far=None, uid=None):
    """one `P.solve(method=…)` with the REAL solvers, the faults / foreign warnings injected through the seams only
    (`scipy_solver.minimize`, `scipy.optimize.linprog`, the extractor, one named helper), so that it works on a
    problem whose caches are warm.  fault = [where, k, class name]; emit: a `HarnessMarker` warning is raised at the
    solver entry, inside the 2nd objective and the 1st constraint evaluation, and after the solver returned.
    helper: the call is wrapped in `with optyx.increased_recursion_limit(n)` ("default": no argument)."""
    import scipy.optimize as SO

    import optyx
    import optyx.analysis as AN
    import optyx.solvers.scipy_solver as SS

    retry = method == "SLSQP>retry"
    m = "SLSQP" if retry else method
    where, k, cls = (fault[0], fault[1], {c.__name__: c for c in CLASSES}[fault[2]]) if fault else (None, 0, None)
    st = {"n": {}, "fired": False, "inside": False, "depth": 0, "exc": None, "emitted": [], "limit_seen": None}

    def boom():
        st["fired"], st["inside"] = True, st["depth"] > 0
        st["exc"] = cls("injected fault")
        raise st["exc"]

    def tick(kd):
        n = st["n"].get(kd, 0)
        st["n"][kd] = n + 1
        if emit and kd in ("entry", "obj", "con", "exit") and n == (1 if kd == "obj" else 0):
            text = uid()
            st["emitted"].append(text)
            warnings.warn(text, HarnessMarker)
        if where == kd and n == k and not st["fired"]:
            boom()

    def wrap(f, kd):
        def g(*a, **kw):
            tick(kd)
            return f(*a, **kw)
        return g

    saved, mutated = [], []

    def patch(obj, name, new):
        saved.append((obj, name, obj.__dict__[name] if isinstance(obj, type) else getattr(obj, name)))
        setattr(obj, name, new)

    o_min, o_lp, o_ex = SS.minimize, SO.linprog, AN.LinearProgramExtractor.extract

    def p_min(*a, **kw):
        a = list(a)
        st["depth"] += 1
        try:
            tick("entry")
            cons = kw.get("constraints")
            if retry and kw.get("method") == "SLSQP" and far is not None:
                from scipy.optimize import OptimizeResult

                res = OptimizeResult(x=np.array(far, dtype=float), success=True, fun=0.0, nit=1,
                                     message="Optimization terminated successfully")
            else:
                if callable(kw.get("fun")):
                    kw["fun"] = wrap(kw["fun"], "obj")
                elif a and callable(a[0]):
                    a[0] = wrap(a[0], "obj")
                for name, kd in (("jac", "grad"), ("hess", "hess")):
                    if callable(kw.get(name)):
                        kw[name] = wrap(kw[name], kd)
                if isinstance(cons, (list, tuple)) and cons and all(isinstance(c, dict) for c in cons):
                    kw["constraints"] = [dict(c, **{key: wrap(c[key], kd) for key, kd in (("fun", "con"), ("jac", "jac"))
                                                    if callable(c.get(key))}) for c in cons]
                res = o_min(*a, **kw)
            tick("exit")
            if where == "post" and not st["fired"] and isinstance(cons, list) and cons and isinstance(cons[0], dict) \
                    and st["n"].get("post-armed", 0) == k:
                c = cons[0]
                mutated.append((c, c["fun"]))

                def bad(x):
                    boom()
                c["fun"] = bad
            st["n"]["post-armed"] = st["n"].get("post-armed", 0) + 1
            return res
        finally:
            st["depth"] -= 1

    def p_lp(*a, **kw):
        st["depth"] += 1
        try:
            tick("entry")
            res = o_lp(*a, **kw)
            tick("exit")
            return res
        finally:
            st["depth"] -= 1

    def p_ex(self, prob):
        tick("extract")
        return o_ex(self, prob)

    out = {}
    try:
        patch(SS, "minimize", p_min)
        patch(SO, "linprog", p_lp)
        patch(AN.LinearProgramExtractor, "extract", p_ex)
        if where is not None and where.startswith("pre:"):
            owner = _pre_seam(where[4:])
            if owner is not None:
                orig = owner.__dict__[where[4:]] if isinstance(owner, type) else getattr(owner, where[4:])
                if callable(orig) and not isinstance(orig, (staticmethod, classmethod)):
                    def p_pre(*a, _o=orig, **kw):
                        tick(where)
                        return _o(*a, **kw)
                    patch(owner, where[4:], p_pre)
        try:
            if helper is None:
                out["solution"] = P.solve(method=m)
            elif helper == "default":
                with optyx.increased_recursion_limit():
                    st["limit_seen"] = sys.getrecursionlimit()
                    out["solution"] = P.solve(method=m)
            else:
                with optyx.increased_recursion_limit(helper):
                    st["limit_seen"] = sys.getrecursionlimit()
                    out["solution"] = P.solve(method=m)
        except BaseException as e:  # noqa: BLE001 - the observation *is* the exception
            out["exception"] = e
    finally:
        for obj, name, old in reversed(saved):
            setattr(obj, name, old)
        for c, f in mutated:
            c["fun"] = f
    out.update(fired=st["fired"], inside=st["inside"], injected=st["exc"], emitted=st["emitted"],
               limit_seen=st["limit_seen"])
    return out


def state_baseline(shape, edits, method):
    """the same model, freshly built, same edits, solved once through the same seams with nothing injected and the
    process in its plain state; None when the solver is not repeatable on it (then nothing is compared)"""
    key = ("state", shape, tuple(edits), method)
    if key not in _BASELINES:
        sols = []
        for _ in range(2):
            T = base.build_problem(STATE_SHAPES[shape])[0]
            for e in edits:
                apply_edit(T, e)
            with warnings.catch_warnings(), np.errstate(all="ignore"):
                warnings.simplefilter("ignore")
                o = state_solve(T, method, far=FAR_POINT.get(shape))
            sols.append(("sol", o["solution"]) if "solution" in o else ("exc", type(o["exception"])))
        if sols[0][0] == sols[1][0] == "sol" and same_solution(sols[0][1], sols[1][1]):
            _BASELINES[key] = sols[0]
        elif sols[0][0] == sols[1][0] == "exc" and sols[0][1] is sols[1][1]:
            _BASELINES[key] = sols[0]
        else:
            _BASELINES[key] = None
    return _BASELINES[key]


def _state_warmup():
    """SciPy imports parts of itself on the first call of a method, and importing registers warnings filters: every
    (shape, method) is solved once (this also fills the baselines) before any history is judged"""
    if _BASELINES.get("state-warm"):
        return
    _BASELINES["state-warm"] = True
    for shape, methods in STATE_METHODS.items():
        for m in methods:
            state_baseline(shape, [], m)


def state_history(data):
    """a history on one or two Problems in ONE process: the application changes process-global state between the
    solves (display hook of every kind, recursion limit, warnings filters, NumPy error state), solves with / without
    an injected fault, edits the model.  After EVERY call of optyx:
      * `warnings.showwarning` is the object it was immediately before THAT call (whatever its type), and a warning
        raised afterwards reaches it;
      * `sys.getrecursionlimit()`, `warnings.filters`, `np.geterr()` are what they were immediately before that call;
        inside a `with increased_recursion_limit(n)` block around the solve the limit is n;
      * every foreign warning raised during the call was shown exactly once, by the hook current at call time, and by
        no hook the application had replaced;
      * a fired fault gives FAILED / the injected exception; an unfired one the solution of a fresh twin.
    -> (None | failure dict, number of solves, number of fired faults)"""
    shapes = data["shapes"]
    probs = [base.build_problem(STATE_SHAPES[s])[0] for s in shapes]
    edits = [[] for _ in probs]
    counter = [0]

    def uid():
        counter[0] += 1
        return f"<c20 foreign warning {counter[0]}>"

    solves = fired = 0
    _state_warmup()
    with warnings.catch_warnings(record=True) as log:
        warnings.simplefilter("always")
        amb = _Ambient(log)
        try:
            for i, step in enumerate(data["steps"]):
                amb.apply(step.get("ambient"))
                pi = step.get("prob", 0) % len(probs)
                P, shape = probs[pi], shapes[pi]
                before = _snap()
                nmods = len(sys.modules)
                cur = amb.rec_of(before["hook"])
                if cur is None:
                    return ({"what": f"step {i}: the hook current before the call is not one the application installed: "
                                     + amb.describe(before["hook"]), "step": i}, solves, fired)
                seen0 = {id(r): len(r.texts()) for _, r in amb.hooks}
                out = state_solve(P, step["method"], step.get("fault"), step.get("emit", False), step.get("helper"),
                                  FAR_POINT.get(shape), uid)
                after = _snap()
                solves += 1
                fired += bool(out["fired"])

                def fail(what, **more):
                    d = {"what": f"step {i} ({step['method']} on {shape}): " + what, "step": i,
                         "hook_before_call": amb.describe(before["hook"]), "fault_fired": out["fired"]}
                    d.update(more)
                    return d, solves, fired
                if after["hook"] is not before["hook"]:
                    return fail("warnings.showwarning after the call is not the hook that was current immediately before it",
                                hook_after_call=amb.describe(after["hook"]))
                if after["limit"] != before["limit"]:
                    return fail(f"sys.getrecursionlimit() is {after['limit']} after the call, it was {before['limit']} "
                                f"immediately before it")
                if after["filters"] != before["filters"] and len(sys.modules) == nmods:
                    # (a module imported during the call may register filters of its own: not a state the solve handles)
                    return fail("warnings.filters changed across the call",
                                added=[str(x) for x in after["filters"] if x not in before["filters"]][:4],
                                removed=[str(x) for x in before["filters"] if x not in after["filters"]][:4])
                if after["err"] != before["err"]:
                    return fail(f"np.geterr() changed across the call: {before['err']} -> {after['err']}")
                if out["limit_seen"] is not None:
                    want = 5000 if step["helper"] == "default" else step["helper"]
                    if out["limit_seen"] != want:
                        return fail(f"inside `with increased_recursion_limit({'' if want == 5000 else want})` the recursion "
                                    f"limit is {out['limit_seen']}, not the documented {want}")
                # behaviour, not only identity: a warning raised now reaches the application's hook
                tail = uid()
                warnings.warn(tail, HarnessMarker)
                allowed = amb.chain_closure(cur)
                for text in out["emitted"] + [tail]:
                    n = sum(text in t for t in cur.texts()[seen0[id(cur)]:])
                    if n != 1:
                        return fail(f"a foreign warning raised {'after' if text is tail else 'during'} the call was shown "
                                    f"{n} times by the hook current at call time (expected once)", warning=text)
                    for _, r in amb.hooks:
                        if r not in allowed and any(text in t for t in r.texts()[seen0.get(id(r), 0):]):
                            return fail("a foreign warning raised during the call was shown by a hook the application "
                                        "had replaced before the call", warning=text, shown_by=r.tag)
                cr = cache_report(P)
                if cr is not None:
                    return fail("problem caches invalid after the call: " + cr)
                sol, exc = out.get("solution"), out.get("exception")
                if out["fired"]:
                    cls = type(out["injected"])
                    if sol is not None:
                        if sol.status.name != "FAILED":
                            return fail(f"a solve in which {cls.__name__} was raised returned status {sol.status.name}")
                        if not out["inside"] or not issubclass(cls, Exception):
                            return fail(f"{cls.__name__} raised outside the solver call / not an Exception was swallowed")
                    elif not (exc is out["injected"] or (issubclass(cls, Exception) and exc.__cause__ is out["injected"])):
                        return fail(f"the injected {cls.__name__} surfaced as {type(exc).__name__}: {exc}"[:300])
                else:
                    ref = state_baseline(shape, edits[pi], step["method"])
                    if exc is not None:
                        if ref is not None and not (ref[0] == "exc" and ref[1] is type(exc)):
                            return fail(f"a solve without a fault raised {type(exc).__name__}: {exc}; a freshly built "
                                        f"twin does not"[:300])
                        ref = None
                    elif ref is not None and ref[0] == "exc":
                        return fail(f"the solve returned {sol.status.name}; a freshly built twin raises {ref[1].__name__}")
                    ref = ref[1] if ref is not None else None
                    if ref is not None and not same_solution(sol, ref):
                        return fail("the solve differs from the solve of a freshly built twin (same edits, no faults, "
                                    "plain process state)",
                                    got=[sol.status.name, dict(sol.values), sol.objective_value],
                                    twin=[ref.status.name, dict(ref.values), ref.objective_value])
                if step.get("edit") is not None:
                    apply_edit(P, step["edit"])
                    edits[pi].append(step["edit"])
        finally:
            amb.close()
    return None, solves, fired


def gen_state_history(rng, i, focus=None):
    """history number i: the display-hook kind of the change, the fault point and the exception class rotate with i
    (every combination is reached), the rest is drawn from rng.  focus = (shape, method) pins the faulted solve."""
    all_shapes = list(STATE_SHAPES)
    kind = HOOK_KINDS[i % len(HOOK_KINDS)]
    where = STATE_WHERES[(i // len(HOOK_KINDS)) % len(STATE_WHERES)]
    # a shape on which the fault point is reachable (LP route for the extractor, constraints for con / jac / post)
    suit = [s for s in all_shapes if (where not in ("extract", "pre:extract_bounds") or s in ("E", "IL"))
            and (where not in ("con", "jac", "post") or STATE_SHAPES[s]["cons"])
            and (where not in ("pre:is_linear",) or s in ("E", "IL", "I", "A", "B"))]
    s0 = focus[0] if focus else suit[(i // 3) % len(suit)]
    shapes = [s0] if rng.random() < 0.7 else [s0, rng.choice(all_shapes)]
    cls = rng.choice(REAL_CLASSES if rng.random() < 0.5 else [ValueError, KeyboardInterrupt, MemoryError, FloatingPointError,
                                                             SystemExit, InjectedAbort, InjectedError, GeneratorExit])
    with_fault = (i // len(HOOK_KINDS) + i) % 4 != 3

    def ambient(force_hook=None, p=0.5):
        a = {"hook": force_hook if force_hook else (rng.choice(HOOK_KINDS) if rng.random() < p else None)}
        if rng.random() < p:
            a["limit"] = rng.choice(LIMIT_STEPS)
        if rng.random() < p:
            a["filters"] = rng.choice(FILTER_STATES)
        if rng.random() < 0.3:
            a["errstate"] = rng.choice(ERR_STATES)
        return a

    def method_for(shape, where=None, around=False):
        ms = STATE_METHODS[shape]
        if around and rng.random() < 0.65:
            # the solves around the pivotal one: mostly the methods that take a millisecond
            ms = [m for m in ms if m not in ("trust-constr", "SLSQP>retry", "COBYLA", "auto")] or ms
        if where in ("hess", "pre:compile_hessian"):
            ms = [m for m in ms if m in ("trust-constr", "Newton-CG", "trust-ncg", "dogleg", "SLSQP>retry")] or ms
        elif where in ("extract", "pre:extract_bounds"):
            ms = [m for m in ms if m in ("auto", "linprog", "highs", "highs-ds", "highs-ipm")] or ms
        elif where in ("con", "jac", "post"):
            ms = [m for m in ms if m not in ("L-BFGS-B", "BFGS", "CG", "TNC", "Newton-CG", "Nelder-Mead", "Powell")] or ms
        return rng.choice(ms)

    def helper():
        return rng.choice([None, None, None, "default", 1000 + rng.choice(LIMIT_STEPS), 1500])

    steps = []
    # the first solve(s): mostly in the state the process started with
    for j in range(rng.choice([1, 1, 2])):
        pi = 0 if j == 0 else rng.randrange(len(shapes))
        steps.append({"prob": pi, "ambient": ambient(p=0.3) if rng.random() < 0.3 else None,
                      "method": method_for(shapes[pi], around=True), "emit": rng.random() < 0.5, "helper": helper(),
                      "edit": rng.choice(STATE_EDITS) if rng.random() < 0.25 else None})
    # the application changes the process; then a solve with (3 of 4) or without a fault on a problem solved before
    pi = 0
    k = rng.choice([0, 0, 1, 2, 3]) if where in ("obj", "grad", "con", "jac", "hess") else (rng.choice([0, 1]) if where == "entry" else 0)
    m = focus[1] if focus and shapes[pi] == focus[0] and isinstance(focus[1], str) else method_for(shapes[pi], where)
    steps.append({"prob": pi, "ambient": ambient(force_hook=kind), "method": m,
                  "fault": [where, k, cls.__name__] if with_fault else None, "emit": rng.random() < 0.7, "helper": helper(),
                  "edit": rng.choice(STATE_EDITS) if rng.random() < 0.3 else None})
    # afterwards: clean solves, possibly after yet another change
    for _ in range(rng.choice([1, 1, 2])):
        pi = rng.randrange(len(shapes))
        steps.append({"prob": pi, "ambient": ambient(p=0.4) if rng.random() < 0.5 else None,
                      "method": method_for(shapes[pi], around=True), "emit": rng.random() < 0.5, "helper": helper(),
                      "fault": None if rng.random() < 0.7 else [rng.choice(STATE_WHERES), 0, rng.choice(REAL_CLASSES).__name__]})
    return {"shapes": shapes, "steps": steps}


def shrink_state(data):
    """greedy: cut everything after the failing call, then drop steps / problems / pieces of the application's changes /
    helper blocks / foreign warnings / edits / faults as long as the history still fails -> (data, failure)"""
    import json

    def fails(d):
        try:
            return state_history(d)[0]
        except Exception:  # noqa: BLE001 - a candidate that cannot run is not a smaller failing input
            return None

    def cands(d, bad):
        steps = d["steps"]
        for j in range(len(steps) - 1):
            yield dict(d, steps=steps[:j] + steps[j + 1:])
        if len(d["shapes"]) > 1:
            for keep in range(len(d["shapes"])):
                if all(st.get("prob", 0) % len(d["shapes"]) == keep for st in steps):
                    yield {"shapes": [d["shapes"][keep]], "steps": [dict(st, prob=0) for st in steps]}
        for j, st in enumerate(steps):
            for key in ("helper", "edit", "fault", "emit"):
                if key == "fault" and j == len(steps) - 1 and bad.get("fault_fired"):
                    continue        # the property is about faulted calls: the failing call keeps a fault that fired
                if st.get(key):
                    yield dict(d, steps=steps[:j] + [dict(st, **{key: False if key == "emit" else None})] + steps[j + 1:])
            for key in list(st.get("ambient") or {}):
                a = {k: v for k, v in st["ambient"].items() if k != key}
                yield dict(d, steps=steps[:j] + [dict(st, ambient=a or None)] + steps[j + 1:])

    d = json.loads(json.dumps(data))
    bad = fails(d)
    if bad is None:
        return data, None
    progress = True
    while progress:
        progress = False
        d["steps"] = d["steps"][:bad["step"] + 1]
        for c in cands(d, bad):
            b = fails(json.loads(json.dumps(c)))
            if b is not None:
                d, bad, progress = c, b, True
                break
    return d, bad


def state_histories(rep, rng, n, focus=None, stop_at_first=False):
    for i in range(n):
        data = gen_state_history(rng, i, focus[i % len(focus)] if focus else None)
        bad, solves, fired = state_history(data)
        rep.evaluations += solves
        mid = next(s for s in data["steps"] if s.get("ambient") and s["ambient"].get("hook") == HOOK_KINDS[i % len(HOOK_KINDS)])
        k = f"state:{mid['ambient']['hook']}:{(mid.get('fault') or ['no-fault'])[0].split(':')[0]}"
        rep.histogram[k] = rep.histogram.get(k, 0) + 1
        rep.histogram["state:faults-fired"] = rep.histogram.get("state:faults-fired", 0) + fired
        rep.nontrivial.add(hash(("state", str(data))))
        if bad is not None:
            if not any(f.get("kind_of_case") == "state" for f in rep.oracle_failures):
                small, b2 = shrink_state(data)
                if b2 is not None:
                    b2["shrunk_from"] = data
                    data, bad = small, b2
            bad.update({"kind_of_case": "state", "data": data,
                        "legend": "data.steps run in order in one process on Problem(s) built from STATE_SHAPES[data.shapes]: "
                                  "`ambient` = what the application changes before the call (display hook kind, "
                                  "recursion limit = start + n, warnings filters, np.seterr), then P.solve(method) with "
                                  "`fault` = [seam, k, class] injected, `emit` = foreign warnings raised during the call, "
                                  "`helper` = wrapped in increased_recursion_limit(n), then `edit`; see state_history"})
            rep.oracle_failures.append(bad)
            if stop_at_first:
                return


# ----------------------------------------------------------------------------- per-call **kwargs of one solve
#
# `Problem.solve(method, **kwargs)` forwards `kwargs` to scipy.optimize.linprog / minimize (and x0 / tol / maxiter /
# use_hessian to solve_scipy).  They belong to THAT call.  A solve whose kwargs make it fail (callback=… on HiGHS,
# integrality of the wrong length, an unknown keyword, a duplicate of an argument optyx passes itself), stop early
# (options={'maxiter': 0}, maxiter=1, a loose tol, a callback raising StopIteration / ValueError / KeyboardInterrupt)
# or answer a different question (c= / bounds= / A_ub= overridden, integrality=[1,…], x0=far away) is a failed /
# interrupted / foreign attempt: the next plain solve() of the same Problem — and of any other Problem in the process —
# must be what it would have been without it.  Judged by: the hand-computed optimum of the fixed shapes, a direct
# scipy.optimize.linprog call on matrices written down from the recipe (never through optyx), a twin solved BEFORE the
# attempt and a twin built AFTER it, what optyx hands to linprog / minimize on the later call (no foreign key, the
# same arrays as for a fresh twin) and the cached LP data (bit-identical to a fresh extraction).

_CONT = "continuous"
# fixed LPs with the optimum computed by hand (vertex enumeration; every optimum is unique)
KW_LP_SHAPES = {
    # min 2x + 3y + 5,  x + y >= 1,  x, y >= 0                       -> (1, 0): 7
    "E": {"spec": base.SHAPES["E"]["spec"], "opt": 7.0, "at": {"x": 1.0, "y": 0.0}},
    # max k + 2y + 1,  k + y <= 3,  0 <= k <= 5 (integer, relaxed),  0 <= y <= 2   -> (1, 2): 6
    "IL": {"spec": INT_LP_SHAPE, "opt": 6.0, "at": {"k": 1.0, "y": 2.0}},
    # max 2u + v,  u + v <= 4,  u - v <= 2,  u, v >= 0:  (0,0)=0 (2,0)=4 (3,1)=7 (0,4)=4        -> (3, 1): 7
    "M": {"spec": {"vars": [["u", 0.0, None, _CONT], ["v", 0.0, None, _CONT]], "sense": "max",
                   "obj": [[2, [[0, 1]]], [1, [[1, 1]]]],
                   "cons": [[[[1, [[0, 1]]], [1, [[1, 1]]]], "<=", 4.0], [[[1, [[0, 1]]], [-1, [[1, 1]]]], "<=", 2.0]]},
          "opt": 7.0, "at": {"u": 3.0, "v": 1.0}},
    # min z9 + 2 z10 - z2 + 1,  z9 + z10 + z2 == 3,  z9 - z10 >= -1,  0 <= . <= 2:  z2 = 2, then z9 = 1, z10 = 0   -> 0
    # (spec order z9, z10, z2 is neither the lexicographic nor the natural order of the names)
    "Q3": {"spec": {"vars": [["z9", 0.0, 2.0, _CONT], ["z10", 0.0, 2.0, _CONT], ["z2", 0.0, 2.0, _CONT]], "sense": "min",
                    "obj": [[1, [[0, 1]]], [2, [[1, 1]]], [-1, [[2, 1]]], [1, []]],
                    "cons": [[[[1, [[0, 1]]], [1, [[1, 1]]], [1, [[2, 1]]]], "==", 3.0],
                             [[[1, [[0, 1]]], [-1, [[1, 1]]]], ">=", -1.0]]},
           "opt": 0.0, "at": {"z9": 1.0, "z10": 0.0, "z2": 2.0}},
}
KW_LP_ROUTE = ["auto", "linprog", "highs", "highs-ds", "highs-ipm"]
# kwargs of the attempt on the LP route: name -> what linprog makes of it (for the reader; never used by the oracle)
KW_LP_KINDS = [
    "callback-raises", "callback-noop", "callback-not-callable",           # HiGHS: NotImplementedError -> FAILED
    "integrality-long", "integrality-ones", "integrality-mixed",           # ValueError / a MILP instead of the LP
    "options-maxiter0", "options-time0", "options-unknown", "options-presolve-off", "options-disp",
    "x0", "unknown-keyword", "nlp-tol", "nlp-maxiter", "nlp-use_hessian",   # TypeError from linprog -> FAILED
    "override-c", "override-c-zero", "override-c-long", "override-bounds-tight", "override-bounds-pair",
    "override-bounds-crossed", "override-A_ub", "override-b_ub-long", "override-A_eq-infeasible", "strict-true",
    "several",                                                              # callback + options + integrality at once
]
# kwargs that do not change what is asked: the attempt itself must already give the optimum
KW_LP_BENIGN = {"options-presolve-off", "options-disp", "x0", "options-unknown"}
KW_NLP_SHAPES = dict(REAL_SHAPES, E=base.SHAPES["E"]["spec"], I=INT_SHAPE)
KW_NLP_METHODS = {"A": ["SLSQP", "trust-constr", "auto", "COBYLA"], "B": ["SLSQP", "trust-constr"],
                  "C": ["L-BFGS-B", "trust-constr", "Newton-CG", "Nelder-Mead", "TNC", "auto"],
                  "Q": ["SLSQP", "trust-constr", "auto"], "E": ["SLSQP", "trust-constr"], "I": ["SLSQP", "auto", "trust-constr"]}
KW_NLP_KINDS = [
    "tol-loose", "tol-tiny", "maxiter-1", "maxiter-0", "x0-far", "x0-long", "x0-nan", "callback-raises", "callback-stop",
    "callback-interrupt", "callback-noop", "unknown-keyword", "options-duplicate", "use_hessian-false", "jac-duplicate",
    "bounds-duplicate", "constraints-duplicate", "hess-user", "lp-integrality", "strict-true", "several",
]
_LINPROG_KEYS = {"c", "A_ub", "b_ub", "A_eq", "b_eq", "bounds", "method"}
_MINIMIZE_KEYS = {"fun", "x0", "method", "jac", "hess", "bounds", "constraints", "tol", "options"}


def _kw_raise_value(*a, **k):
    raise ValueError("the application's monitoring callback failed")


def _kw_raise_stop(*a, **k):
    raise StopIteration


def _kw_raise_interrupt(*a, **k):
    raise KeyboardInterrupt


def _kw_noop(*a, **k):
    return None


def kw_rand_lp(rng):
    """a small LP recipe that is feasible (the box midpoint satisfies every row) and bounded (every variable boxed);
    dyadic data, coefficients of moderate size: well conditioned"""
    n = rng.randint(2, 4)
    names = rng.choice([["v0", "v1", "v2", "v3"], ["x10", "x2", "x1", "x01"], ["a[10]", "a[9]", "a", "a[1]"],
                        ["hold", "ship", "waste", "audit"], ["y2z10", "y2z9", "y10z1", "y1"]])[:n]
    vars_, mid = [], []
    for i in range(n):
        lb = rng.choice([0.0, 0.0, -1.0, 1.0, -2.0])
        w = rng.choice([1.0, 2.0, 4.0])
        vars_.append([names[i], lb, lb + w, _CONT])
        mid.append(lb + w / 2)
    obj = [[rng.choice([1.0, 2.0, -1.0, 0.5, 3.0, -2.0]), [[i, 1]]] for i in range(n)]
    if rng.random() < 0.5:
        obj.insert(rng.randint(0, n), [rng.dy(-3, 3), []])
    cons = []
    for _ in range(rng.randint(0, 3)):
        row = [[rng.choice([1.0, -1.0, 2.0, 0.5]), [[i, 1]]] for i in range(n) if rng.random() < 0.75] or [[1.0, [[0, 1]]]]
        at = sum(c * mid[f[0][0]] for c, f in row)
        op = rng.choice(["<=", ">=", "<=", ">=", "=="])
        slack = rng.choice([0.0, 0.5, 1.0])
        cons.append([row, op, at + slack if op == "<=" else at - slack if op == ">=" else at])
    return {"vars": vars_, "sense": rng.choice(["min", "max"]), "obj": obj, "cons": cons}


def kw_lp_matrices(spec):
    """the recipe written down as linprog data by hand (spec order; nothing of optyx is used)"""
    n = len(spec["vars"])
    c, c0 = [0.0] * n, 0.0
    for coef, fac in spec["obj"]:
        if fac:
            c[fac[0][0]] += float(coef)
        else:
            c0 += float(coef)
    A_ub, b_ub, A_eq, b_eq = [], [], [], []
    for row, op, rhs in spec["cons"]:
        a = [0.0] * n
        for coef, fac in row:
            a[fac[0][0]] += float(coef)
        if op == "<=":
            A_ub.append(a), b_ub.append(float(rhs))
        elif op == ">=":
            A_ub.append([-t for t in a]), b_ub.append(-float(rhs))
        else:
            A_eq.append(a), b_eq.append(float(rhs))
    return c, c0, A_ub, b_ub, A_eq, b_eq, [(lb, ub) for _, lb, ub, _ in spec["vars"]]


def kw_lp_reference(spec, linprog):
    """-> the optimal objective value by a direct call of SciPy's own linprog on the hand-written matrices, or None"""
    c, c0, A_ub, b_ub, A_eq, b_eq, bounds = kw_lp_matrices(spec)
    sgn = -1.0 if spec["sense"] == "max" else 1.0
    r = linprog(c=[sgn * t for t in c], A_ub=A_ub or None, b_ub=b_ub or None, A_eq=A_eq or None, b_eq=b_eq or None,
                bounds=bounds, method="highs")
    return sgn * float(r.fun) + c0 if r.success else None


def kw_recipe_violation(spec, values):
    """largest violation of the recipe's rows and boxes at `values` (by name), judged outside optyx"""
    xs = [values[v[0]] for v in spec["vars"]]
    worst = 0.0
    for (_, lb, ub, _), x in zip(spec["vars"], xs):
        worst = max(worst, (lb - x) if lb is not None else 0.0, (x - ub) if ub is not None else 0.0)
    for row, op, rhs in spec["cons"]:
        d = base.poly_eval(row, xs) - rhs
        worst = max(worst, (d if op == "<=" else -d if op == ">=" else abs(d)) / (1.0 + abs(rhs)))
    return worst


def kw_make(name, spec, route, as_array=False):
    """the kwargs of one attempt, fresh objects on every call"""
    n = len(spec["vars"])
    arr = (lambda v: np.array(v, dtype=float)) if as_array else (lambda v: v)
    far = [ub if ub is not None else (lb + 3.0 if lb is not None else 3.0) for _, lb, ub, _ in spec["vars"]]
    if route == "lp":
        n_ub = len([1 for _, op, _ in spec["cons"] if op != "=="])
        table = {
            "callback-raises": lambda: {"callback": _kw_raise_value},
            "callback-noop": lambda: {"callback": _kw_noop},
            "callback-not-callable": lambda: {"callback": 0},
            "integrality-long": lambda: {"integrality": arr([1.0] * (n + 1) + [0.0])},
            "integrality-ones": lambda: {"integrality": arr([1.0] * n)},
            "integrality-mixed": lambda: {"integrality": arr([float(i % 2) for i in range(n)])},
            "options-maxiter0": lambda: {"options": {"maxiter": 0}},
            "options-time0": lambda: {"options": {"time_limit": 0.0}},
            "options-unknown": lambda: {"options": {"verbosity_of_the_app": 3}},
            "options-presolve-off": lambda: {"options": {"presolve": False}},
            "options-disp": lambda: {"options": {"disp": False}},
            "x0": lambda: {"x0": arr(far)},
            "unknown-keyword": lambda: {"warm_start_basis": [0] * n},
            "nlp-tol": lambda: {"tol": 1e-3},
            "nlp-maxiter": lambda: {"maxiter": 1},
            "nlp-use_hessian": lambda: {"use_hessian": False},
            "override-c": lambda: {"c": arr([float((-1) ** i * (i + 1)) for i in range(n)])},
            "override-c-zero": lambda: {"c": arr([0.0] * n)},
            "override-c-long": lambda: {"c": arr([1.0] * (n + 2))},
            "override-bounds-tight": lambda: {"bounds": [(0.25, 0.25)] * n},
            "override-bounds-pair": lambda: {"bounds": (0.0, 0.5)},
            "override-bounds-crossed": lambda: {"bounds": [(1.0, 0.0)] * n},
            "override-A_ub": lambda: {"A_ub": arr([[1.0] * n]), "b_ub": arr([-1000.0])},
            "override-b_ub-long": lambda: {"b_ub": arr([0.0] * (n_ub + 3))},
            "override-A_eq-infeasible": lambda: {"A_eq": arr([[1.0] * n]), "b_eq": arr([1000.0])},
            "strict-true": lambda: {"strict": True},
            "several": lambda: {"callback": _kw_raise_value, "options": {"maxiter": 0, "presolve": False},
                                "integrality": arr([1.0] * (n + 1)), "x0": arr(far)},
        }
    else:
        table = {
            "tol-loose": lambda: {"tol": 0.5},
            "tol-tiny": lambda: {"tol": 1e-300},
            "maxiter-1": lambda: {"maxiter": 1},
            "maxiter-0": lambda: {"maxiter": 0},
            "x0-far": lambda: {"x0": np.array(far, dtype=float)},
            "x0-long": lambda: {"x0": np.zeros(n + 2)},
            "x0-nan": lambda: {"x0": np.full(n, np.nan)},
            "callback-raises": lambda: {"callback": _kw_raise_value},
            "callback-stop": lambda: {"callback": _kw_raise_stop},
            "callback-interrupt": lambda: {"callback": _kw_raise_interrupt},
            "callback-noop": lambda: {"callback": _kw_noop},
            "unknown-keyword": lambda: {"warm_start_basis": [0] * n},
            "options-duplicate": lambda: {"options": {"maxiter": 1}},
            "use_hessian-false": lambda: {"use_hessian": False},
            "jac-duplicate": lambda: {"jac": None},
            "bounds-duplicate": lambda: {"bounds": [(0.25, 0.25)] * n},
            "constraints-duplicate": lambda: {"constraints": ()},
            "hess-user": lambda: {"hess": _kw_raise_value},
            "lp-integrality": lambda: {"integrality": [1.0] * n},
            "strict-true": lambda: {"strict": True},
            "several": lambda: {"tol": 0.5, "maxiter": 1, "x0": np.array(far, dtype=float), "callback": _kw_raise_stop},
        }
    return table[name]()


def _kw_scribble(kw):
    """the application reuses / overwrites the objects it passed, after the call returned"""
    for v in kw.values():
        if isinstance(v, dict):
            v.update(maxiter=0, time_limit=0.0)
        elif isinstance(v, np.ndarray):
            v[...] = 0.0 if v.dtype.kind == "f" else 0
        elif isinstance(v, list):
            for i, e in enumerate(v):
                if isinstance(e, list):
                    e[:] = [0.0] * len(e)
                else:
                    v[i] = (0.0, 0.0) if isinstance(e, tuple) else 0.0


def _kw_same_arg(a, b):
    if a is None or b is None:
        return a is None and b is None
    if isinstance(a, str) or isinstance(b, str) or isinstance(a, dict) or isinstance(b, dict):
        return a == b
    try:
        x, y = np.asarray(a, dtype=float), np.asarray(b, dtype=float)
    except (TypeError, ValueError):
        return a == b
    return x.shape == y.shape and bool(np.array_equal(x, y, equal_nan=True))


def kw_call(P, method, kw, record=None, direct=False):
    """one P.solve(method=method, **kw) — or, direct: solve_lp(P, …) / solve_scipy(P, …), the public solver entry
    points — with scipy's linprog / minimize observed (not altered).
    -> dict(solution | exception, globals_changed); record: list receiving the keyword dicts handed to linprog / minimize"""
    import scipy.optimize as SO

    import optyx.solvers.scipy_solver as SS
    from optyx.solvers.lp_solver import solve_lp

    o_lp, o_min = SO.linprog, SS.minimize

    def snap(v):
        return v.copy() if isinstance(v, np.ndarray) else (list(v) if isinstance(v, (list, tuple)) else
                                                           dict(v) if isinstance(v, dict) else v)

    def w_lp(*a, **k):
        if record is not None:
            record.append(("linprog", len(a), {key: snap(v) for key, v in k.items()}))
        return o_lp(*a, **k)

    def w_min(*a, **k):
        if record is not None:
            record.append(("minimize", len(a), {key: snap(v) for key, v in k.items()}))
        return o_min(*a, **k)

    out = {}
    rl0 = sys.getrecursionlimit()
    with warnings.catch_warnings(record=True), np.errstate(all="ignore"):
        warnings.simplefilter("always")
        hook0, err0, filt0 = warnings.showwarning, np.geterr(), list(warnings.filters)
        SO.linprog, SS.minimize = w_lp, w_min
        try:
            try:
                if not direct:
                    out["solution"] = P.solve(method=method, **kw)
                elif method in KW_LP_ROUTE:
                    out["solution"] = solve_lp(P, method=None if method in ("auto", "linprog") else method, **kw)
                else:
                    out["solution"] = SS.solve_scipy(P, method=method, **kw)
            except BaseException as e:  # noqa: BLE001
                out["exception"] = e
        finally:
            SO.linprog, SS.minimize = o_lp, o_min
        what = []
        if warnings.showwarning is not hook0:
            what.append("warnings.showwarning")
        if np.geterr() != err0:
            what.append("numpy error state")
        if list(warnings.filters) != filt0:
            what.append("warnings.filters")
    if sys.getrecursionlimit() != rl0:
        what.append("recursion limit")
        sys.setrecursionlimit(rl0)
    out["globals_changed"] = what
    return out


def _kw_show(out):
    if "solution" in out:
        s = out["solution"]
        return [s.status.name, s.objective_value, dict(s.values), str(s.message)[:120]]
    return ["raised", type(out["exception"]).__name__, str(out["exception"])[:120]]


def _kw_compare_records(rec, ref, allowed):
    """what optyx handed to the solver on the later plain call vs what it hands over for a fresh twin"""
    if len(rec) != len(ref):
        return f"{len(rec)} solver calls, a fresh twin makes {len(ref)}"
    for (name, npos, k), (rname, rnpos, rk) in zip(rec, ref):
        if name != rname or npos != rnpos:
            return f"calls {name}/{npos} positional, a fresh twin calls {rname}/{rnpos}"
        extra = sorted(set(k) - allowed)
        if extra:
            return f"{name} received the foreign keyword(s) {extra} on a plain solve()"
        if set(k) != set(rk):
            return f"{name} received the keywords {sorted(k)}, for a fresh twin {sorted(rk)}"
        for key in sorted(k):
            if key in ("fun", "jac", "hess", "callback"):
                if (k[key] is None) != (rk[key] is None):
                    return f"{name}({key}=…) is {'None' if k[key] is None else 'set'}, for a fresh twin the opposite"
            elif key == "constraints":
                if len(k[key]) != len(rk[key]) or [c["type"] for c in k[key]] != [c["type"] for c in rk[key]]:
                    return f"{name}(constraints=…) differs from a fresh twin's"
            elif not _kw_same_arg(k[key], rk[key]):
                return f"{name}({key}={k[key]!r}) on a plain solve(), for a fresh twin {key}={rk[key]!r}"[:300]
    return None


def kw_cache_report(P, spec):
    """cache_report + the cached LP data (c, A_ub, b_ub, A_eq, b_eq, sense, variables, c0 and bounds) are what a fresh
    extraction of an untouched twin gives"""
    from optyx.analysis import LinearProgramExtractor

    cr = cache_report(P) or lp_cache_report(P, spec)
    if cr is None and P._lp_cache is not None:
        ref = LinearProgramExtractor().extract(base.build_problem(spec)[0])
        if list(P._lp_cache.bounds) != list(ref.bounds):
            cr = f"_lp_cache.bounds {P._lp_cache.bounds!r} differ from a fresh extraction: {ref.bounds!r}"[:240]
    return cr


def kwargs_history(data):
    """data: {route: lp|nlp, shape | spec, warm: method|None, attempts: [{method, kw, array, scribble, direct}], final: method}
    -> (failure dict | None, number of solves, tags)"""
    import scipy.optimize as SO

    route = data["route"]
    fixed = KW_LP_SHAPES.get(data.get("shape")) if route == "lp" else None
    spec = data.get("spec") or (fixed["spec"] if fixed else KW_NLP_SHAPES[data["shape"]])
    final = data["final"]
    solves, tags = 0, []
    allowed = _LINPROG_KEYS if final in KW_LP_ROUTE and route == "lp" else _MINIMIZE_KEYS

    def fail(what, **more):
        d = {"what": what}
        d.update(more)
        return d, solves, tags

    # before anything else happens in this history: the untouched twin (for the fixed shapes: solved once per
    # (shape, method), before the first attempt of any history that uses it)
    bkey = ("kwargs", route, data.get("shape"), final) if data.get("spec") is None else None
    if bkey is not None and bkey in _BASELINES:
        pre_sol, pre_rec, ref_obj = _BASELINES[bkey]
        if pre_sol is None:
            return None, solves, tags
    else:
        pre_rec = []
        pre = kw_call(base.build_problem(spec)[0], final, {}, pre_rec)
        solves += 1
        pre_sol = pre.get("solution")      # None: the plain solve itself raises on this shape / method: not this family's business
        ref_obj = kw_lp_reference(spec, SO.linprog) if route == "lp" else None
        if pre_sol is not None and route == "lp" and final in KW_LP_ROUTE:
            # the baseline itself is judged against the recipe (hand value / SciPy on hand-written matrices) below
            if ref_obj is None:
                pre_sol = None
            elif fixed is not None and abs(ref_obj - fixed["opt"]) > 1e-9:
                raise RuntimeError(f"harness: hand-computed optimum {fixed['opt']} of {data['shape']} vs SciPy {ref_obj}")
        elif pre_sol is not None:
            again = kw_call(base.build_problem(spec)[0], final, {})
            solves += 1
            if "solution" not in again or not same_solution(pre_sol, again["solution"]):
                pre_sol = None             # this (shape, method) is not repeatable to 1e-9: no baseline to compare with
        if bkey is not None:
            _BASELINES[bkey] = (pre_sol, pre_rec, ref_obj)
        if pre_sol is None:
            return None, solves, tags

    def judge_plain(sol, who):
        """a plain solve(method=final): the optimum (independent reference), and the untouched twin's answer"""
        if route == "lp" and final in KW_LP_ROUTE:
            if sol.status.name != "OPTIMAL":
                return f"{who}: status {sol.status.name} ({str(sol.message)[:100]!r}); the LP has the optimum {ref_obj}"
            if sol.objective_value is None or abs(sol.objective_value - ref_obj) > 1e-7 * (1.0 + abs(ref_obj)):
                return f"{who}: objective {sol.objective_value}; scipy.optimize.linprog on the recipe's matrices gives {ref_obj}"
            if set(sol.values) != {v[0] for v in spec["vars"]}:
                return f"{who}: values for {sorted(sol.values)}"
            viol = kw_recipe_violation(spec, sol.values)
            if viol > 1e-7:
                return f"{who}: the reported optimum violates the recipe by {viol:.3g}"
            if fixed is not None and any(abs(sol.values[k] - v) > 1e-7 for k, v in fixed["at"].items()):
                return f"{who}: optimum at {dict(sol.values)}; by hand {fixed['at']}"
        if not same_solution(sol, pre_sol):
            return (f"{who}: {[sol.status.name, sol.objective_value, dict(sol.values)]} differs from the twin that never "
                    f"saw the attempt: {[pre_sol.status.name, pre_sol.objective_value, dict(pre_sol.values)]}")
        return None

    bad = judge_plain(pre_sol, "a fresh problem's plain solve")
    if bad is not None:
        return fail(bad)

    P = base.build_problem(spec)[0]
    if data.get("warm"):
        w = kw_call(P, data["warm"], {})
        solves += 1
        if w["globals_changed"]:
            return fail(f"{w['globals_changed']} changed by the warm-up solve")
    for att in data["attempts"]:
        kroute = "lp" if (att["method"] in KW_LP_ROUTE and route == "lp") else "nlp"
        kw = kw_make(att["kw"], spec, kroute, att.get("array", False))
        out = kw_call(P, att["method"], kw, direct=bool(att.get("direct")) and (kroute == "lp" or att["method"] != "auto"))
        solves += 1
        first = "raised:" + type(out["exception"]).__name__ if "exception" in out else out["solution"].status.name
        tags.append(f"kwargs:{kroute}:{att['kw']}:{first}")
        if out["globals_changed"]:
            return fail(f"{out['globals_changed']} changed by solve(method={att['method']!r}, **{att['kw']})",
                        attempt=_kw_show(out))
        if isinstance(out.get("exception"), BaseException) and not isinstance(out.get("exception"), Exception) \
                and att["kw"] != "callback-interrupt":
            return fail(f"solve(**{att['kw']}) raised {type(out['exception']).__name__}", attempt=_kw_show(out))
        if kroute == "lp" and att["kw"] in KW_LP_BENIGN and att["method"] == final:
            if "solution" not in out:
                return fail(f"solve(**{att['kw']}) raised", attempt=_kw_show(out))
            b2 = judge_plain(out["solution"], f"solve(method={att['method']!r}, **{att['kw']}) (kwargs that ask the same question)")
            if b2 is not None:
                return fail(b2, attempt=_kw_show(out))
        cr = kw_cache_report(P, spec)
        if cr is not None:
            return fail(f"problem caches invalid after solve(**{att['kw']}): " + cr, attempt=_kw_show(out))
        if att.get("scribble"):
            _kw_scribble(kw)
        del kw
    rec = []
    nxt = kw_call(P, final, {}, rec)
    solves += 1
    last = _kw_show(out) if data["attempts"] else None
    if nxt["globals_changed"]:
        return fail(f"{nxt['globals_changed']} changed by the plain solve after the attempt")
    if "solution" not in nxt:
        return fail(f"the plain solve(method={final!r}) after the attempt raised {type(nxt['exception']).__name__}: "
                    f"{nxt['exception']}"[:300], attempt=last)
    bad = judge_plain(nxt["solution"], f"plain solve(method={final!r}) of the SAME problem after the attempt(s)")
    if bad is not None:
        return fail(bad, attempt=last, message=str(nxt["solution"].message)[:160])
    bad = _kw_compare_records(rec, pre_rec, allowed)
    if bad is not None:
        return fail("after the attempt(s), on the plain solve of the same problem optyx " + bad, attempt=last)
    cr = kw_cache_report(P, spec)
    if cr is not None:
        return fail("problem caches invalid after the plain solve that followed the attempt: " + cr, attempt=last)
    # another problem of the same process, built after the attempt
    post_rec = []
    post = kw_call(base.build_problem(spec)[0], final, {}, post_rec)
    solves += 1
    if "solution" not in post:
        return fail(f"a fresh problem built after the attempt: solve raised {type(post['exception']).__name__}", attempt=last)
    bad = judge_plain(post["solution"], "plain solve of a FRESH problem built after the attempt(s)")
    if bad is None:
        bad = _kw_compare_records(post_rec, pre_rec, allowed)
        bad = bad and "for a fresh problem built after the attempt(s) optyx " + bad
    if bad is not None:
        return fail(bad, attempt=last)
    return None, solves, tags


def gen_kwargs_history(rng, i, thorough=False):
    """i-th history: the kinds are enumerated (every kind on every fixed shape), everything else is drawn"""
    n_lp = len(KW_LP_KINDS) * len(KW_LP_SHAPES)
    cyc = i % (n_lp + n_lp // 2 + len(KW_NLP_KINDS) * 2)
    if cyc < n_lp + n_lp // 2:
        kind = KW_LP_KINDS[cyc % len(KW_LP_KINDS)]
        if cyc < n_lp:
            d = {"route": "lp", "shape": list(KW_LP_SHAPES)[(cyc // len(KW_LP_KINDS)) % len(KW_LP_SHAPES)]}
        else:
            d = {"route": "lp", "spec": kw_rand_lp(rng)}
        m = KW_LP_ROUTE[(i + i // len(KW_LP_KINDS)) % len(KW_LP_ROUTE)]
        d["warm"] = rng.choice([None, None, m, "auto", "highs-ds", "SLSQP"])
        d["attempts"] = [{"method": m, "kw": kind, "array": rng.random() < 0.5, "scribble": rng.random() < 0.3,
                          "direct": rng.random() < 0.2}]
        if rng.random() < 0.25:
            d["attempts"].append({"method": rng.choice(KW_LP_ROUTE), "kw": rng.choice(KW_LP_KINDS),
                                  "array": rng.random() < 0.5, "scribble": rng.random() < 0.3})
        if rng.random() < 0.12:   # routes interleaved: an NLP-route attempt on the linear model in between
            d["attempts"].append({"method": "SLSQP", "kw": rng.choice(["maxiter-1", "callback-raises", "x0-long", "tol-loose"])})
        d["final"] = rng.choice([m, m, "auto", rng.choice(KW_LP_ROUTE)])
        return d
    j = cyc - (n_lp + n_lp // 2)
    kind = KW_NLP_KINDS[j % len(KW_NLP_KINDS)]
    shape = rng.choice(list(KW_NLP_SHAPES))
    ms = KW_NLP_METHODS[shape]
    if not thorough and rng.random() < 0.85:      # trust-constr costs ≈ 0.1 s a solve: rare in the quick tier
        ms = [t for t in ms if t != "trust-constr"]
    m = rng.choice(ms)
    d = {"route": "nlp", "shape": shape, "warm": rng.choice([None, None, m]),
         "attempts": [{"method": m, "kw": kind, "scribble": rng.random() < 0.3, "direct": rng.random() < 0.2}], "final": m}
    if rng.random() < 0.2:
        d["attempts"].append({"method": m, "kw": rng.choice(KW_NLP_KINDS), "scribble": rng.random() < 0.3})
    return d


def shrink_kwargs(data):
    """fewer attempts, no warm-up, no scribbling, the attempt's own method as the final one — while it still fails"""
    bad = kwargs_history(data)[0]
    if bad is None:
        return data, None
    changed = True
    while changed:
        changed = False
        cands = []
        if data.get("warm"):
            cands.append(dict(data, warm=None))
        if len(data["attempts"]) > 1:
            cands += [dict(data, attempts=data["attempts"][:k] + data["attempts"][k + 1:]) for k in reversed(range(len(data["attempts"])))]
        for k, a in enumerate(data["attempts"]):
            if a.get("scribble") or a.get("array") or a.get("direct"):
                cands.append(dict(data, attempts=data["attempts"][:k] + [dict(a, scribble=False, array=False, direct=False)] +
                                  data["attempts"][k + 1:]))
        for c in cands:
            try:
                b = kwargs_history(c)[0]
            except Exception:  # noqa: BLE001
                b = None
            if b is not None:
                data, bad, changed = c, b, True
                break
    return data, bad


def kwargs_histories(rep, rng, n, thorough=False, stop_at_first=False, offset=0):
    for i in range(offset, offset + n):
        data = gen_kwargs_history(rng, i, thorough)
        bad, solves, tags = kwargs_history(data)
        rep.evaluations += solves
        for t in tags:
            rep.histogram[t] = rep.histogram.get(t, 0) + 1
        if tags:
            rep.nontrivial.add(hash(("kwargs", str(data))))
        if bad is not None:
            if not any(f.get("kind_of_case") == "kwargs" for f in rep.oracle_failures):
                small, b2 = shrink_kwargs(data)
                if b2 is not None:
                    b2["shrunk_from"] = data
                    data, bad = small, b2
            bad.update({"kind_of_case": "kwargs", "data": data,
                        "legend": "P = the problem of KW_LP_SHAPES / KW_NLP_SHAPES[data.shape] (or data.spec, c06 recipe "
                                  "format); optional P.solve(method=warm); for each attempt P.solve(method=attempt.method, "
                                  "**kw_make(attempt.kw)) (direct: through solve_lp / solve_scipy; array: array-likes as ndarray; scribble: the application "
                                  "overwrites the objects it passed after the call); then the plain P.solve(method=final) "
                                  "is judged against the hand-computed / direct-linprog optimum and a twin that never saw "
                                  "the attempt; see kwargs_history"})
            rep.oracle_failures.append(bad)
            if stop_at_first:
                return


# ----------------------------------------------------------------------------- the start of every default-start solve
#
# HISTORY dimension: a bound is changed, a solve FAILS (any class, any seam), the bound is put back (or moved on to a
# third value), and the Problem is solved again WITHOUT an explicit x0.  Nothing a failed / interrupted / foreign solve
# computed for superseded bounds may be reused.  Models: non-convex objectives with several local minima inside the
# box, so that the answer depends on the start (a stale start is visible in the result) — and a direct oracle that does
# not need such luck: what optyx hands to scipy.optimize.minimize (observed at the seam `scipy_solver.minimize`):
#   * x0 of a solve without x0= is the DOCUMENTED default start for the bounds the variables have at that moment,
#     computed here by hand from the documentation (both bounds: lb + max(1e-4, 1 % of the range), never beyond the
#     midpoint; lower only: lb + 1e-4; upper only: ub - 1; free: 0) and equal to what a freshly built Problem with
#     those bounds hands over;
#   * x0 of a solve with x0= is that x0;
#   * `bounds=` (when handed over) are the bounds the variables have at that moment;
#   * an unfaulted solve equals the solve of a freshly built twin with those bounds (same method, same x0);
#   * a fired fault gives FAILED / the injected exception; hook and recursion limit as before the call.

def _w(vi, c1):
    """the double well t^4 - 2 t^2 + c1 t of variable vi: local minima near -1 and +1, a local maximum near 0"""
    return [[1, [[vi, 4]]], [-2, [[vi, 2]]], [c1, [[vi, 1]]]]


START_SHAPES = {
    "W1": {"vars": [["a", -2.0, 2.0, _CONT]], "sense": "min", "obj": _w(0, 0.3), "cons": []},
    "W2": {"vars": [["a", -2.0, 2.0, _CONT], ["b", -1.5, 2.5, _CONT]], "sense": "min",
           "obj": _w(0, 0.3) + _w(1, -0.2) + [[0.1, [[0, 1], [1, 1]]]], "cons": []},
    "W2c": {"vars": [["a", -2.0, 2.0, _CONT], ["b", -1.5, 2.5, _CONT]], "sense": "min",
            "obj": _w(0, 0.3) + _w(1, -0.2) + [[0.1, [[0, 1], [1, 1]]]],
            "cons": [[[[1, [[0, 1]]], [1, [[1, 1]]]], "<=", 2.75], [[[1, [[0, 1]]], [-1, [[1, 1]]]], ">=", -3.5]]},
    "H3": {"vars": [["a", -2.0, None, _CONT], ["b", None, 2.0, _CONT], ["c", None, None, _CONT]], "sense": "min",
           "obj": _w(0, 0.3) + _w(1, -0.2) + _w(2, 0.1), "cons": []},
    "M1": {"vars": [["a", -2.0, 2.0, _CONT]], "sense": "max",
           "obj": [[-1, [[0, 4]]], [2, [[0, 2]]], [-0.3, [[0, 1]]]], "cons": []},
    "M2c": {"vars": [["a", -2.0, 2.0, _CONT], ["b", None, 2.5, _CONT]], "sense": "max",
            "obj": [[-1, [[0, 4]]], [2, [[0, 2]]], [-0.3, [[0, 1]]], [-1, [[1, 4]]], [2, [[1, 2]]], [0.2, [[1, 1]]]],
            "cons": [[[[1, [[0, 1]]], [1, [[1, 1]]]], "<=", 3.5]]},
}
START_METHODS = {"W1": ["L-BFGS-B", "SLSQP", "TNC", "auto", "trust-constr", "Newton-CG"],
                 "W2": ["L-BFGS-B", "SLSQP", "TNC", "auto", "trust-constr"],
                 "W2c": ["SLSQP", "auto", "trust-constr"],
                 "H3": ["L-BFGS-B", "SLSQP", "TNC", "auto"],
                 "M1": ["L-BFGS-B", "SLSQP", "auto", "trust-constr"],
                 "M2c": ["SLSQP", "auto", "trust-constr"]}
START_WHERES = ["obj", "grad", "entry", "con", "jac", "hess", "exit", "pre:_compute_initial_point",
                "pre:_build_solver_cache"]
START_MIDS = ["fault", "fault", "fault", "fault-x0", "two-faults", "no-fault", "x0-only", "fault-other-method"]
# dyadic values: putting a bound back gives exactly the float it was
START_LBS = [None, -3.0, -2.0, -1.5, -0.5, 0.25, 0.5, 1.0]
START_UBS = [None, 3.0, 2.5, 2.0, 1.5, 0.5, -0.25, -0.5]


def documented_start(bounds):
    """the default initial point as DOCUMENTED, written down by hand (not through optyx)"""
    out = []
    for lb, ub in bounds:
        if lb is not None and ub is not None:
            out.append(min(lb + max(1e-4, 0.01 * (ub - lb)), (lb + ub) / 2))
        elif lb is not None:
            out.append(lb + 1e-4)
        elif ub is not None:
            out.append(ub - 1.0)
        else:
            out.append(0.0)
    return out


def _norm_bounds(b):
    """what minimize got as bounds= -> [(lb | None, ub | None)] | None"""
    if b is None:
        return None
    if hasattr(b, "lb") and hasattr(b, "ub"):
        b = list(zip(np.atleast_1d(b.lb).tolist(), np.atleast_1d(b.ub).tolist()))

    def one(x):
        return None if x is None or not np.isfinite(x) else float(x)
    return [(one(lo), one(hi)) for lo, hi in b]


def start_solve(P, method, x0=None, fault=None):
    """one P.solve(method[, x0=]) with the real SciPy; everything optyx hands to `scipy_solver.minimize` is recorded,
    the fault [where, k, class name] is injected at the seams only (k-th obj / grad / con / jac / hess evaluation,
    solver entry / exit, a helper before the solver)"""
    import optyx.solvers.scipy_solver as SS

    where, k, cls = (fault[0], fault[1], {c.__name__: c for c in CLASSES}[fault[2]]) if fault else (None, 0, None)
    st = {"n": {}, "fired": False, "inside": False, "depth": 0, "exc": None, "calls": []}

    def tick(kd):
        n = st["n"].get(kd, 0)
        st["n"][kd] = n + 1
        if where == kd and n == k and not st["fired"]:
            st["fired"], st["inside"] = True, st["depth"] > 0
            st["exc"] = cls("injected fault")
            raise st["exc"]

    def wrap(f, kd):
        def g(*a, **kw):
            tick(kd)
            return f(*a, **kw)
        return g

    o_min = SS.minimize

    def p_min(*a, **kw):
        got = kw.get("x0") if "x0" in kw else (a[1] if len(a) > 1 else None)
        st["calls"].append({"x0": None if got is None else np.array(got, dtype=float).ravel().tolist(),
                            "bounds": _norm_bounds(kw.get("bounds")), "method": kw.get("method")})
        st["depth"] += 1
        try:
            tick("entry")
            if callable(kw.get("fun")):
                kw["fun"] = wrap(kw["fun"], "obj")
            for name, kd in (("jac", "grad"), ("hess", "hess")):
                if callable(kw.get(name)):
                    kw[name] = wrap(kw[name], kd)
            cons = kw.get("constraints")
            if isinstance(cons, (list, tuple)) and cons and all(isinstance(c, dict) for c in cons):
                kw["constraints"] = [dict(c, **{key: wrap(c[key], kd) for key, kd in (("fun", "con"), ("jac", "jac"))
                                                if callable(c.get(key))}) for c in cons]
            res = o_min(*a, **kw)
            tick("exit")
            return res
        finally:
            st["depth"] -= 1

    saved = []
    out = {}
    try:
        saved.append((SS, "minimize", o_min))
        SS.minimize = p_min
        if where is not None and where.startswith("pre:"):
            owner = _pre_seam(where[4:])
            if owner is not None and not isinstance(owner, type) and callable(getattr(owner, where[4:])):
                orig = getattr(owner, where[4:])

                def p_pre(*a, _o=orig, **kw):
                    tick(where)
                    return _o(*a, **kw)
                saved.append((owner, where[4:], orig))
                setattr(owner, where[4:], p_pre)
        try:
            kw = {} if x0 is None else {"x0": np.array(x0, dtype=float)}
            out["solution"] = P.solve(method=method, **kw)
        except BaseException as e:  # noqa: BLE001 - the observation *is* the exception
            out["exception"] = e
    finally:
        for obj, name, old in reversed(saved):
            setattr(obj, name, old)
    out.update(fired=st["fired"], inside=st["inside"], injected=st["exc"], calls=st["calls"])
    return out


def _start_spec(shape, bounds):
    spec = dict(START_SHAPES[shape])
    spec["vars"] = [[v[0], lb, ub, v[3]] for v, (lb, ub) in zip(spec["vars"], bounds)]
    return spec


def start_twin(shape, bounds, method, x0, result=True):
    """a freshly built Problem with these bounds, solved through the same seam, nothing injected
    -> (first minimize call | None, ("sol", Solution) | ("exc", class) | None when the solver is not repeatable on it;
    the second run, which establishes repeatability, is made only when the result is asked for)"""
    key = ("start", shape, tuple(bounds), method, None if x0 is None else tuple(x0))
    runs = _BASELINES.setdefault(key, [])
    while len(runs) < (2 if result else 1):
        T = base.build_problem(_start_spec(shape, bounds))[0]
        runs.append(start_solve(T, method, x0))
    a = runs[0]
    res = None
    if result:
        b = runs[1]
        if "solution" in a and "solution" in b and same_solution(a["solution"], b["solution"]):
            res = ("sol", a["solution"])
        elif "exception" in a and "exception" in b and type(a["exception"]) is type(b["exception"]):
            res = ("exc", type(a["exception"]))
    return (a["calls"][0] if a["calls"] else None), res


def _close(xs, ys):
    return xs is not None and ys is not None and len(xs) == len(ys) and \
        all(abs(x - y) <= 1e-12 * (1 + abs(y)) for x, y in zip(xs, ys))


def start_history(data):
    """data = {shape, steps}; a step is {"op": "bound", "var": i, "lb": …, "ub": …} (the application assigns v.lb /
    v.ub) or {"op": "solve", "method": m, "x0": None | [..], "fault": None | [where, k, class]}.
    -> (None | failure dict, number of solves, number of fired faults)"""
    shape = data["shape"]
    spec = START_SHAPES[shape]
    P, vs = base.build_problem(spec)
    names = [v[0] for v in spec["vars"]]
    bounds = [(v[1], v[2]) for v in spec["vars"]]
    order = [names.index(v.name) for v in P.variables]          # the order in which optyx lays the variables out
    solves = fired = 0
    with warnings.catch_warnings(), np.errstate(all="ignore"):
        warnings.simplefilter("ignore")
        for i, step in enumerate(data["steps"]):
            if step["op"] == "bound":
                vs[step["var"]].lb, vs[step["var"]].ub = step["lb"], step["ub"]
                bounds[step["var"]] = (step["lb"], step["ub"])
                continue
            now = [bounds[j] for j in order]
            hook, limit = warnings.showwarning, sys.getrecursionlimit()
            out = start_solve(P, step["method"], step.get("x0"), step.get("fault"))
            solves += 1
            fired += bool(out["fired"])

            def fail(what, **more):
                d = {"what": f"step {i} (solve {step['method']} on {shape}, bounds now {dict(zip(names, bounds))}): " + what,
                     "step": i, "fault_fired": out["fired"]}
                d.update(more)
                return d, solves, fired
            if warnings.showwarning is not hook:
                return fail("warnings.showwarning after the call is not the hook that was current before it")
            if sys.getrecursionlimit() != limit:
                return fail(f"sys.getrecursionlimit() is {sys.getrecursionlimit()} after the call, it was {limit}")
            twin_call, twin = start_twin(shape, tuple(bounds), step["method"], step.get("x0"), result=not out["fired"])
            if out["calls"]:
                call = out["calls"][0]
                want = documented_start(now) if step.get("x0") is None else [float(t) for t in step["x0"]]
                if not _close(call["x0"], want):
                    return fail("the x0 handed to scipy.optimize.minimize is not "
                                + ("the documented default start for the bounds the variables have now"
                                   if step.get("x0") is None else "the x0 passed to solve()"),
                                x0_handed_to_minimize=call["x0"], expected=want,
                                fresh_problem_hands_over=twin_call and twin_call["x0"])
                if twin_call is not None and not _close(call["x0"], twin_call["x0"]):
                    return fail("the x0 handed to scipy.optimize.minimize differs from what a freshly built Problem with "
                                "the same bounds hands over", x0_handed_to_minimize=call["x0"],
                                fresh_problem_hands_over=twin_call["x0"])
                if call["bounds"] is not None and call["bounds"] != [(None if lo is None else float(lo),
                                                                      None if hi is None else float(hi)) for lo, hi in now]:
                    return fail("the bounds handed to scipy.optimize.minimize are not the bounds the variables have now",
                                bounds_handed_to_minimize=call["bounds"], bounds_now=now)
                if twin_call is not None and (call["bounds"] is None) != (twin_call["bounds"] is None):
                    return fail("bounds= handed over / withheld unlike for a freshly built Problem")
            cr = cache_report(P)
            if cr is not None:
                return fail("problem caches invalid after the call: " + cr)
            sol, exc = out.get("solution"), out.get("exception")
            if out["fired"]:
                cls = type(out["injected"])
                if sol is not None:
                    if sol.status.name != "FAILED":
                        return fail(f"a solve in which {cls.__name__} was raised returned status {sol.status.name}")
                    if not out["inside"] or not issubclass(cls, Exception):
                        return fail(f"{cls.__name__} raised outside the solver call / not an Exception was swallowed")
                elif not (exc is out["injected"] or (issubclass(cls, Exception) and exc.__cause__ is out["injected"])):
                    return fail(f"the injected {cls.__name__} surfaced as {type(exc).__name__}: {exc}"[:300])
            elif twin is not None:
                if exc is not None:
                    if not (twin[0] == "exc" and twin[1] is type(exc)):
                        return fail(f"a solve without a fault raised {type(exc).__name__}: {exc}; a freshly built twin "
                                    f"with the same bounds does not"[:300])
                elif twin[0] == "exc":
                    return fail(f"the solve returned {sol.status.name}; a freshly built twin raises {twin[1].__name__}")
                elif not same_solution(sol, twin[1]):
                    return fail("the solve differs from the solve of a freshly built twin with the same bounds (same "
                                "method, same x0, no faults)",
                                got=[sol.status.name, dict(sol.values), sol.objective_value],
                                twin=[twin[1].status.name, dict(twin[1].values), twin[1].objective_value])
    return None, solves, fired


def gen_start_history(rng, i):
    """history number i: shape, fault seam, kind of the middle part and exception class rotate with i; bounds, k,
    methods, explicit starts from rng.  Template: [default solves] → a bound is changed → the attempt (fails / is
    interrupted / gets an explicit x0 / succeeds) → the bound is put back exactly (3 of 4) or moved to a third value →
    default solve [→ another change → default solve]."""
    shapes = list(START_SHAPES)
    shape = shapes[i % len(shapes)]
    spec = START_SHAPES[shape]
    nv = len(spec["vars"])
    wheres = [w for w in START_WHERES if (w not in ("con", "jac") or spec["cons"])]
    where = wheres[(i // len(shapes)) % len(wheres)]
    mid = START_MIDS[(i // (len(shapes) * 2) + i) % len(START_MIDS)]
    pool = [ValueError, FloatingPointError, MemoryError, KeyboardInterrupt, InjectedError, SystemExit, InjectedAbort]
    cls = pool[(i // 3) % len(pool)] if rng.random() < 0.7 else rng.choice(REAL_CLASSES)

    def method_for(w=None):
        ms = START_METHODS[shape]
        if w == "hess":
            ms = [m for m in ms if m in ("trust-constr", "Newton-CG")] or ms
        elif w in ("con", "jac"):
            ms = [m for m in ms if m in ("SLSQP", "trust-constr")] or ms
        elif rng.random() < 0.85:
            ms = [m for m in ms if m != "trust-constr"]       # (slow: mostly where its Hessian / callbacks are the point)
        return rng.choice(ms)

    def new_bounds(old):
        for _ in range(50):
            lb, ub = rng.choice(START_LBS), rng.choice(START_UBS)
            if (lb, ub) != tuple(old) and (lb is None or ub is None or lb < ub):
                return lb, ub
        return None, None

    def point(bounds):
        return [min(max(rng.choice([-1.75, -0.75, 0.125, 0.75, 1.75]), -8.0 if lo is None else lo), 8.0 if hi is None else hi)
                for lo, hi in bounds]

    def fault(w):
        k = rng.choice([0, 0, 1, 2, 4]) if w in ("obj", "grad", "con", "jac", "hess") else 0
        return [w, k, cls.__name__]

    bounds = [(v[1], v[2]) for v in spec["vars"]]
    steps = []
    for _ in range(rng.choice([0, 1, 1, 2])):
        steps.append({"op": "solve", "method": method_for(), "x0": point(bounds) if rng.random() < 0.2 else None,
                      "fault": None})
    vi = rng.randrange(nv)
    old = bounds[vi]
    new = new_bounds(old)
    steps.append({"op": "bound", "var": vi, "lb": new[0], "ub": new[1]})
    bounds[vi] = new
    m = method_for(where)
    if mid in ("fault", "two-faults", "fault-other-method"):
        steps.append({"op": "solve", "method": m, "x0": None, "fault": fault(where)})
        if mid == "two-faults":
            steps.append({"op": "solve", "method": method_for(), "x0": None, "fault": fault(rng.choice(["obj", "entry", "grad"]))})
    elif mid == "fault-x0":
        steps.append({"op": "solve", "method": m, "x0": point(bounds), "fault": fault(where)})
    elif mid == "x0-only":
        steps.append({"op": "solve", "method": m, "x0": point(bounds), "fault": None})
    else:
        steps.append({"op": "solve", "method": m, "x0": None, "fault": None})
    back = old if rng.random() < 0.75 else new_bounds(new)
    steps.append({"op": "bound", "var": vi, "lb": back[0], "ub": back[1]})
    bounds[vi] = back
    steps.append({"op": "solve", "method": method_for() if mid == "fault-other-method" or rng.random() < 0.3 else m,
                  "x0": None, "fault": None})
    if rng.random() < 0.35:
        vj = rng.randrange(nv)
        nb = new_bounds(bounds[vj])
        steps.append({"op": "bound", "var": vj, "lb": nb[0], "ub": nb[1]})
        bounds[vj] = nb
        steps.append({"op": "solve", "method": method_for(), "x0": None,
                      "fault": fault(rng.choice(wheres)) if rng.random() < 0.3 else None})
        if rng.random() < 0.5:
            steps.append({"op": "solve", "method": method_for(), "x0": None, "fault": None})
    return {"shape": shape, "steps": steps}


def shrink_start(data):
    """greedy: cut everything after the failing solve, then drop steps / explicit starts as long as it still fails"""
    import json

    def fails(d):
        try:
            return start_history(d)[0]
        except Exception:  # noqa: BLE001 - a candidate that cannot run is not a smaller failing input
            return None

    d = json.loads(json.dumps(data))
    bad = fails(d)
    if bad is None:
        return data, None
    progress = True
    while progress:
        progress = False
        d["steps"] = d["steps"][:bad["step"] + 1]
        cands = [dict(d, steps=d["steps"][:j] + d["steps"][j + 1:]) for j in range(len(d["steps"]) - 1)]
        cands += [dict(d, steps=d["steps"][:j] + [dict(s, x0=None)] + d["steps"][j + 1:])
                  for j, s in enumerate(d["steps"]) if s.get("x0") is not None]
        for c in cands:
            b = fails(json.loads(json.dumps(c)))
            if b is not None:
                d, bad, progress = c, b, True
                break
    return d, bad


def start_histories(rep, rng, n, stop_at_first=False, offset=0):
    for i in range(offset, offset + n):
        data = gen_start_history(rng, i)
        bad, solves, fired = start_history(data)
        rep.evaluations += solves
        flt = next((s["fault"][0].split(":")[0] for s in data["steps"] if s.get("fault")), "no-fault")
        k = f"start:{data['shape']}:{flt}"
        rep.histogram[k] = rep.histogram.get(k, 0) + 1
        rep.histogram["start:faults-fired"] = rep.histogram.get("start:faults-fired", 0) + fired
        if fired:
            rep.nontrivial.add(hash(("start", str(data))))
        if bad is not None:
            if not any(f.get("kind_of_case") == "start" for f in rep.oracle_failures):
                small, b2 = shrink_start(data)
                if b2 is not None:
                    b2["shrunk_from"] = data
                    data, bad = small, b2
            bad.update({"kind_of_case": "start", "data": data,
                        "legend": "data.steps run in order on ONE Problem built from START_SHAPES[data.shape] (double-well "
                                  "objectives): op=bound assigns v.lb / v.ub of variable `var`; op=solve is "
                                  "P.solve(method[, x0=x0]) with `fault` = [seam, k, class] injected; judged: the x0 / "
                                  "bounds optyx hands to scipy.optimize.minimize vs the documented default start for "
                                  "the CURRENT bounds (hand formula, fresh Problem) and the result vs a fresh twin; "
                                  "see start_history"})
            rep.oracle_failures.append(bad)
            if stop_at_first:
                return


def run(ctx) -> core.Report:
    rng = ctx["rng"]
    thorough = ctx["tier"] == "thorough" or ctx["escalate"]
    rep = core.Report(rule="(shape × warm-up × call/method × stub variant × pass × step × exception class) with stubbed "
                           "solvers vs the model, each followed by the next-solve-vs-twin comparison; real SciPy with the "
                           "fault at the k-th objective / gradient / constraint / Jacobian / Hessian evaluation or the "
                           "solver entry (k ≤ 5 quick, ≤ 12 thorough); real linprog / extractor faults; histories in "
                           "which the application changes the display hook (8 kinds) / recursion limit / warnings filters "
                           "/ NumPy error state between real solves of the same problem(s), with faults at every seam; "
                           "histories in which an earlier solve of the same problem got per-call **kwargs (27 LP kinds, 21 "
                           "NLP kinds: failing / interrupting / overriding) followed by a plain solve judged against the "
                           "hand-computed / direct-linprog optimum, an untouched twin and what linprog / minimize receive; "
                           "histories on double-well models in which a bound is changed, a solve fails / is interrupted / "
                           "gets an explicit x0, the bound is put back, and the default-start solve is judged by the x0 / "
                           "bounds handed to minimize (documented default start for the current bounds) and a fresh twin; "
                           "non-trivial = "
                           "distinct runs in which the fault fired")
    # cheap and independent of the model: first.  A broken build / translation escalates the run to the thorough tier
    # (≈ 10 min): a concrete failing input found here ends it at once
    start_histories(rep, core.Rng(ctx["seed"] + 20209), 900 if thorough else 64, stop_at_first=ctx["escalate"])
    if ctx["escalate"] and rep.oracle_failures:
        rep.notes.append("escalated run stopped at the first failing input (default-start histories)")
        return rep
    kwargs_histories(rep, core.Rng(ctx["seed"] + 20208), 1200 if thorough else 200, thorough=thorough,
                     stop_at_first=ctx["escalate"])
    if ctx["escalate"] and rep.oracle_failures:
        rep.notes.append("escalated run stopped at the first failing input (per-call kwargs histories)")
        return rep
    state_histories(rep, core.Rng(ctx["seed"] + 20200), 1600 if thorough else 160, stop_at_first=ctx["escalate"])
    if ctx["escalate"] and rep.oracle_failures:
        rep.notes.append("escalated run stopped at the first failing input (state histories)")
        return rep
    fault_table(rep, rng, thorough)
    fault_histories(rep, rng, thorough)
    helper_fault_cases(rep, rng, thorough)
    errstate_fault_cases(rep, rng, thorough)
    real_fault_cases(rep, rng, thorough)
    real_lp_faults(rep)
    rep.exhaustive = thorough
    return rep


def search(ctx, rep):
    r2 = core.Report()
    rng = core.Rng(ctx["seed"] + 49979687)
    # first: the cases on which model and implementation disagreed, with the REAL solvers: the same shape and
    # method, the fault at the k-th evaluation of every kind, every exception class
    # the mismatching cases along the history dimension: their shape and method, solved again after the application
    # changed the process-global state (cheap: a few seconds)
    # per-call kwargs of an earlier solve (cheap: every kind on every fixed shape, then generated LPs, both routes)
    # bound changed → failed solve → bound put back → default-start solve (cheap: a few seconds)
    start_histories(r2, rng, 600, stop_at_first=True, offset=64)
    if r2.oracle_failures:
        return r2.oracle_failures[0]
    kwargs_histories(r2, rng, 600, thorough=True, stop_at_first=True, offset=200)
    if r2.oracle_failures:
        return r2.oracle_failures[0]
    focus = []
    for m in rep.corr_mismatches:
        c = m.get("case", {})
        key = (c.get("shape"), c.get("method") or c.get("final"))
        if key[0] in STATE_SHAPES and key not in focus:
            focus.append(key)
    for fc in (focus[:24] or None, None):
        state_histories(r2, rng, 360, focus=fc, stop_at_first=True)
        if r2.oracle_failures:
            return r2.oracle_failures[0]
    seen = set()
    for m in rep.corr_mismatches:
        c = m.get("case", {})
        key = (c.get("shape"), c.get("method") or c.get("final"))
        if key in seen or key[0] not in TABLE_SHAPES or key[1] in (None, "linprog", "highs", "highs-ds", "highs-ipm"):
            continue
        seen.add(key)
        for kind in EVAL_KINDS:
            for k in ([0] if kind == "entry" else [0, 1, 3]):
                for cls in REAL_CLASSES:
                    case = {"shape": key[0], "spec": TABLE_SHAPES[key[0]], "method": key[1], "eval": kind, "k": k,
                            "cls": cls.__name__}
                    out = real_fault_run(case["spec"], key[1], kind, k, cls)
                    bad = judge_real(case, out, cls)
                    if bad is not None:
                        bad.update({"kind_of_case": "real", "case": case})
                        return bad
        if len(seen) >= 4:
            break
    real_lp_faults(r2)
    if r2.oracle_failures:
        return r2.oracle_failures[0]
    helper_fault_cases(r2, rng, True)
    r2.corr_mismatches.clear()
    if not r2.oracle_failures:
        errstate_fault_cases(r2, rng, False)
    if r2.oracle_failures:
        return r2.oracle_failures[0]
    # bounded (≈2 min): the quick fault table with another seed (its oracle half does not use the model),
    # then the real-solver faults with a wider k range
    fault_table(r2, rng, False, with_model=False)
    if r2.oracle_failures:
        return r2.oracle_failures[0]
    real_fault_cases(r2, rng, False, kmax=9)
    return r2.oracle_failures[0] if r2.oracle_failures else None


def replay(payload) -> bool:
    f = payload["failure"]
    kind = f.get("kind_of_case")
    clsmap = {c.__name__: c for c in CLASSES}
    if kind == "real":
        c = f["case"]
        out = real_fault_run(c["spec"], c["method"], c["eval"], c["k"], clsmap[c["cls"]], far=FAR_POINT.get(c["shape"]))
        print({k: v for k, v in out.items() if k != "problem"})
        bad = judge_real(c, out, clsmap[c["cls"]])
        print(bad)
        return bad is None
    if kind == "table":
        c = f["case"]
        P = make_problem(c["shape"], c["warm"], c["variant"])
        r1, r2, lr = stub_results(c["shape"], c["variant"])
        step = c["fault"][1]
        flt = base.Fault(c["fault"][0], step if isinstance(step, str) else tuple(step), clsmap[c["fault"][2]])
        text, info = base.observe(P, c["call"], c["method"], False, True, None, r1, r2, lr, fault=flt)
        print(text)
        bad = judge(c, info, P, flt)
        if bad is None:
            nxt, _ = base.observe(P, c["call"], c["method"], False, True, None, r1, r2, lr)
            ref, _ = base.observe(make_problem(c["shape"], c["warm"], c["variant"]), c["call"], c["method"], False, True,
                                  None, r1, r2, lr)
            if nxt != ref:
                bad = {"what": "next solve differs from twin", "after_fault": nxt, "twin": ref}
        print(bad)
        return bad is None
    if kind == "kwargs":
        bad, _, tags = kwargs_history(f["data"])
        print(tags, bad)
        return bad is None
    if kind == "start":
        bad, _, _ = start_history(f["data"])
        print(bad)
        return bad is None
    if kind == "state":
        bad, _, _ = state_history(f["data"])
        print(bad)
        return bad is None
    if kind == "errstate":
        d = dict(f["data"]); d["mode"] = tuple(d["mode"])
        bad, first = errstate_case(d)
        print(first, bad)
        return bad is None
    if kind == "helper":
        bad = helper_case(f["data"])
        print(bad)
        return bad is None
    if kind == "history":
        c = f["case"]
        shape, variant = c["shape"], c["variant"]
        r1, r2, lr = stub_results(shape, variant)
        twin = make_problem(shape, None, variant)
        apply_edit(twin, c["edit"])
        ref, _ = base.observe(twin, "solve", c["final"], False, True, None, r1, r2, lr)
        P = make_problem(shape, c.get("warm"), variant)
        bad = None
        for h in c["history"]:
            step = h["fault"][1]
            flt = base.Fault(h["fault"][0], step if isinstance(step, str) else tuple(step), clsmap[h["fault"][2]])
            text, info = base.observe(P, "solve", h["method"], False, True, None, r1, r2, lr, fault=flt)
            print(text[:300])
            bad = bad or judge({"shape": shape}, info, P, flt)
        apply_edit(P, c["edit"])
        nxt, _ = base.observe(P, "solve", c["final"], False, True, None, r1, r2, lr)
        if bad is None and nxt.split(" | ")[:2] != ref.split(" | ")[:2]:
            bad = {"what": "differs from twin", "after_faults": nxt, "twin": ref}
        print(bad)
        return bad is None
    if kind == "real-lp":
        rep = core.Report()
        real_lp_faults(rep)
        print(rep.oracle_failures)
        return not rep.oracle_failures
    return True
