"""C16 — a problem's variables are exactly those it mentions, in deterministic natural order.

Tie:    generated problems (JSON specs) mixing vectors, slices (stepped, reversed), matrix rows / columns /
        diagonals / transposes / symmetric matrices, scalars with digit-laden names, parameters; each spec is built
        in several construction orders in-process and under several PYTHONHASHSEEDs (fresh subprocess);
        `Problem.variables` (names, exact), `_try_get_single_vector_source` of every expression, `get_bounds`,
        `Variable._sort_key` and the key comparison are compared with the Lean model
        (`pvars` under three set-iteration permutations, `svs`, `bounds`, `sortkey`, `keylt`).
Oracle: brute force in the harness — names collected by an own traversal of the object graph, sorted with an
        own natural-sort key, bounds from the declarations; must equal Problem.variables / get_bounds for every
        construction order and hash seed, one entry per name.
        Edit histories: on one Problem the objective is replaced (fewer / other / the same / more / no variables), constraints
        over known and new variables are added, in every order, with every reader (variables, n_variables, get_bounds,
        repr, summary, solve, the private predicates) — or none — between the edits; at every read the list must be the
        natural-sorted set of variables of the CURRENT objective and constraints as the harness records them, and
        equal that of a fresh Problem; Solution.values has exactly those keys.  Bounds re-declared after they were reported:
        between the reads `.lb` / `.ub` of scalars, vector elements and matrix entries (mentioned by the problem or not yet)
        are assigned (None, +-inf, pinned, crossed, one-sided), with and without structural edits around them; get_bounds
        must report, position by position, the harness's own record of what the variables carry NOW, and equal a fresh
        Problem's.  The editing methods themselves are tied
        by StateTie (translation of minimize / maximize / subject_to / _invalidate_caches).
Repaired earlier: F17 (reversed slice through the shortcut), F18 (x1 / x01 tie).
"""
from __future__ import annotations

import json
import os
import subprocess
import sys
import tempfile
import warnings

import numpy as np

if __name__ == "__main__":
    sys.path.insert(0, os.path.dirname(os.path.dirname(os.path.abspath(__file__))))

import core
from ser import Ser, Ids, Unsupported, rat

LEAN_MODULE = "Optyx.Props.C16"
EXTRA_MODULES = ["Optyx.Props.PinsC16", "Optyx.Props.StateTie", "Optyx.Props.VarsTie", "Optyx.Props.VarsStepTie", "Optyx.Props.SpineTie", "Optyx.Props.VarsIterTie"]   # transcription anchors (harness/source_pins.py)
THEOREMS = [
    "Optyx.Props.C16.problemVariables_spec",
    "Optyx.Props.C16.generalVariables_spec",
    "Optyx.Props.C16.sortKey_total_order",
    "Optyx.Props.C16.sortKey_alternating",
    "Optyx.Props.C16.varLe_total_preorder",
    "Optyx.Props.C16.singleVectorSource_sound",
    "Optyx.Props.C16.singleVectorSource_fuel",
    "Optyx.Props.C16.shortcut_eq_general",
    "Optyx.Props.C16.sort_perm_invariant",
    "Optyx.Props.C16.problemVariables_perm_invariant",
    "Optyx.Props.C16.get_bounds_spec",
    "Optyx.Props.SortText.sortKey_text",
    "Optyx.Props.VarsTie.svsVisit_eq",
    "Optyx.Props.VarsTie.svsFrame_text",
    "Optyx.Props.VarsTie.shortcutSource_eq",
    "Optyx.Props.VarsTie.generalPath_text",
    "Optyx.Props.VarsTie.svsRun_eq",
    "Optyx.Props.VarsStepTie.exprVars_step",
    "Optyx.Props.VarsStepTie.step_unique",
    "Optyx.Props.VarsStepTie.matrixVariableGetVariables_text",
    "Optyx.Props.SpineTie.depthC_step",
    "Optyx.Props.SpineTie.depthE_step",
    "Optyx.Props.SpineTie.spineBU_step",
    "Optyx.Props.SpineTie.depthG_eq",
    "Optyx.Props.SpineTie.compileSwitch_eq",
    "Optyx.Props.SpineTie.getAllVariables_eq",
    "Optyx.Props.VarsIterTie.atomVars_eq",
    "Optyx.Props.VarsIterTie.vstep_seen",
    "Optyx.Props.VarsIterTie.vstep_fresh",
    "Optyx.Props.VarsIterTie.varsIter_frame",
    "Optyx.Props.StateTie.edits_are_source",
    "Optyx.Props.StateTie.edit_clears_caches_of_source_equations",
    "Optyx.Props.StateTie.accessors_text",
    "Optyx.Props.PinsC16.anchors",
]
ASSUMPTIONS = [
    "ASCII digits only in names (Python's \\d also matches other Unicode decimal digits)",
    "Python's sorted() is a stable sort by the key's `<` (CPython list.sort contract)",
    "object identity is an explicit id; equal ids denote the same object (the serialiser guarantees it)",
    "bounds theorem: two Variable objects with the same name carry the same bounds (otherwise Python's set keeps whichever was inserted first)",
]


def run_lean_unit(lines):
    return core.run_lean(lines)


# ------------------------------------------------------------------ specs -> objects


SCALAR_NAMES = ["x1", "x01", "x001", "x10", "x2", "y", "a1b2", "a1b10", "a01b2", "z", "Z", "_t3", "10", "9", "0x", "k[2]",
                "k[10]", "v[1", "b", "xx", "x1y", "x1_", "é2", "é10", "t9", "t09", "t10", "q7.5", "q7.10", "x[", "x[0"]


def deep_tuple(x):
    return tuple(deep_tuple(i) for i in x) if isinstance(x, (list, tuple)) else x


class Built:
    def __init__(self, spec, order_seed=0):
        import optyx

        self.spec = spec
        self.cache = {}
        self.decl_bounds = {}
        rnd = core.Rng(order_seed)
        decls = list(spec["decls"])
        if order_seed:
            rnd.shuffle(decls)
        self.objs = {}
        for d in decls:
            k = d[0]
            if k in ("vec", "vec2"):
                _, name, n, lb, ub = d[:5]
                dom = d[5] if len(d) > 5 else "continuous"
                self.objs[("v:" if k == "vec" else "v2:") + name] = optyx.VectorVariable(name, n, lb=lb, ub=ub, domain=dom)
                for i in range(n):
                    self.decl_bounds[f"{name}[{i}]"] = (0.0, 1.0) if dom == "binary" else (lb, ub)
            elif k == "mat":
                _, name, r, c, sym, lb, ub = d[:7]
                dom = d[7] if len(d) > 7 else "continuous"
                self.objs["m:" + name] = optyx.MatrixVariable(name, r, c, lb=lb, ub=ub, symmetric=sym, domain=dom)
                for i in range(r):
                    for j in range(c):
                        if not sym or j >= i:
                            self.decl_bounds[f"{name}[{i},{j}]"] = (0.0, 1.0) if dom == "binary" else (lb, ub)
            elif k in ("scalar", "scalar2"):
                _, name, lb, ub = d[:4]
                dom = d[4] if len(d) > 4 else "continuous"
                # "scalar2" / "vec2": a second OBJECT with the same name and the same declaration (a clone)
                self.objs[("s:" if k == "scalar" else "s2:") + name] = optyx.Variable(name, lb=lb, ub=ub, domain=dom)
                self.decl_bounds[name] = (0.0, 1.0) if dom == "binary" else (lb, ub)
            elif k == "param":
                self.objs["p:" + d[1]] = optyx.Parameter(d[1], d[2])
        terms_o = list(spec["objective"]) if spec["objective"] is not None else None
        cons = list(spec["constraints"])
        if order_seed:
            if terms_o:
                rnd.shuffle(terms_o)
            rnd.shuffle(cons)
        self.problem = optyx.Problem()
        self.objective = None
        if terms_o is not None:
            e = self.term(terms_o[0])
            for t in terms_o[1:]:
                e = e + self.term(t)
            self.objective = e
            if spec.get("maximize"):
                self.problem.maximize(e)
            else:
                self.problem.minimize(e)
        self.con_objs = []
        for t, sense, rhs in cons:
            if t[0] == "matcons":
                # element-wise constraint on a matrix(-like) object: a list of constraints
                m = self.mref(t[1]) if t[2] == "var" else self.mref(t[1]) * 2 - 1
                cs = (m <= rhs) if sense == "<=" else (m >= rhs) if sense == ">=" else m.eq(rhs)
                self.con_objs.extend(cs)
                continue
            e = self.term(t)
            c = (e <= rhs) if sense == "<=" else (e >= rhs) if sense == ">=" else e.eq(rhs)
            self.con_objs.append(c)
        # half of the orders add the constraints as one list
        if order_seed % 2 == 0:
            for c in self.con_objs:
                self.problem.subject_to(c)
        elif self.con_objs:
            self.problem.subject_to(list(self.con_objs))

    def vref(self, r):
        r = deep_tuple(r)
        if r in self.cache:
            return self.cache[r]
        k = r[0]
        if k == "vec":
            o = self.objs["v:" + r[1]]
        elif k == "vec2":
            o = self.objs["v2:" + r[1]]
        elif k == "slice2":
            o = self.objs["v:" + r[1]][slice(r[2], r[3], r[4])][slice(r[5], r[6], r[7])]
        elif k == "slice":
            o = self.objs["v:" + r[1]][slice(r[2], r[3], r[4])]
        elif k == "row":
            o = self.mref(r[1])[r[2], :]
        elif k == "col":
            o = self.mref(r[1])[:, r[2]]
        elif k == "diag":
            o = self.mref(r[1]).diagonal()
        elif k == "rowslice":
            o = self.mref(r[1])[r[2], slice(r[3], r[4], r[5])]
        elif k == "colslice":
            o = self.mref(r[1])[slice(r[2], r[3], r[4]), r[5]]
        else:
            raise ValueError(k)
        self.cache[r] = o
        return o

    def mref(self, r):
        r = deep_tuple(r) if not isinstance(r, str) else ("mat", r)
        if r in self.cache:
            return self.cache[r]
        k = r[0]
        if k == "mat":
            o = self.objs["m:" + r[1]]
        elif k == "T":
            o = self.mref(r[1]).T
        elif k == "sub":
            o = self.mref(r[1])[slice(r[2], r[3]), slice(r[4], r[5])]
        elif k == "sub2":
            o = self.mref(r[1])[slice(r[2], r[3], r[4]), slice(r[5], r[6], r[7])]
        else:
            raise ValueError(k)
        self.cache[r] = o
        return o

    def vexpr(self, s):
        k = s[0]
        if k == "vadd":
            return self.vref(s[1]) + s[2]
        if k == "vmul":
            return s[1] * self.vref(s[2])
        if k == "vsub":
            return self.vref(s[1]) - self.vref(s[2])
        if k == "vneg":
            return -self.vref(s[1])
        raise ValueError(k)

    def term(self, t):
        if self.spec.get("share"):
            # equal sub-term specs become ONE expression object used at several places (a DAG)
            key = json.dumps(t)
            if key not in self.cache:
                self.cache[key] = self._term(t)
            return self.cache[key]
        return self._term(t)

    def _term(self, t):
        from optyx.core import vectors as V
        from optyx.core import matrices as M
        from optyx.core.expressions import Constant
        from optyx.core.functions import abs_, sin

        k = t[0]
        if k == "vsum":
            return self.vref(t[1]).sum()
        if k == "lc":
            v = self.vref(t[1])
            return np.array([float((i * 3) % 5 - 2) for i in range(len(v))]) @ v
        if k == "dotself":
            v = self.vref(t[1])
            return v.dot(v)
        if k == "dot":
            return self.vref(t[1]).dot(self.vref(t[2]))
        if k == "dotve":
            return self.vref(t[1]).dot(self.vexpr(t[2]))
        if k == "ps":
            return (self.vref(t[1]) ** t[2]).sum()
        if k == "us":
            return {"abs": abs_, "sin": sin}[t[2]](self.vref(t[1])).sum()
        if k == "esum":
            return self.vexpr(t[1]).sum()
        if k == "l2":
            return self.vref(t[1]).norm()
        if k == "l1":
            return self.vref(t[1]).norm(1)
        if k == "qf":
            v = self.vref(t[1])
            n = len(v)
            return M.QuadraticForm(v, np.eye(n) + np.ones((n, n)) / 2)
        if k == "qfrw":
            v = self.vref(t[1])
            n = len(v)
            return v.dot((np.eye(n) * 2) @ v)
        if k == "msum":
            return self.mref(t[1]).sum()
        if k == "mesum":
            m = self.mref(t[1])
            return (m * 2 + 1).sum()
        if k == "frob":
            return M.FrobeniusNorm(self.mref(t[1]))
        if k == "mprod":
            m = self.mref(t[1])
            return (m * m).sum()
        if k == "mtracefn":
            return M.trace(self.mref(t[1]))
        if k == "mdiagfn":
            return M.diag(self.mref(t[1])).sum()
        if k == "trace":
            return self.mref(t[1]).trace()
        if k == "scalar":
            return self.objs["s:" + t[1]]
        if k == "scalar2":
            return self.objs["s2:" + t[1]]
        if k == "div":
            return self.term(t[1]) / t[2]
        if k == "rsub":
            return t[1] - self.term(t[2])
        if k == "radd":
            return t[1] + self.term(t[2])
        if k == "cc":
            return Constant(2) * Constant(3) - sin(Constant(1.0))
        if k == "zmul":
            return 0 * self.objs["s:" + t[1]]
        if k == "pow0":
            return self.objs["s:" + t[1]] ** 0
        if k == "mvpsum":
            v = self.vref(t[1])
            n = len(v)
            q = np.array([[float((2 * i + j) % 5 - 2) for j in range(n)] for i in range(max(1, n - 1))])
            return (q @ v).sum() if t[2] == "lin" else M.MatrixVectorProduct(q, v * v).sum()
        if k == "rdeep":
            e = self.term(t[1])
            for i in range(t[2]):
                e = 1.0 + e
            return e
        if k == "elem":
            return self.vref(t[1])[t[2]]
        if k == "melem":
            return self.mref(t[1])[t[2], t[3]]
        if k == "const":
            return Constant(t[1])
        if k == "param":
            return self.objs["p:" + t[1]]
        if k == "neg":
            return -self.term(t[1])
        if k == "mul":
            return t[1] * self.term(t[2])
        if k == "rmul":
            return self.term(t[2]) * t[1]
        if k == "add":
            return self.term(t[1]) + self.term(t[2])
        if k == "sub":
            return self.term(t[1]) - self.term(t[2])
        if k == "sq":
            return self.term(t[1]) ** 2
        if k == "sin":
            return sin(self.term(t[1]))
        if k == "deep":
            e = self.term(t[1])
            for i in range(t[2]):
                e = e + 1.0
            return e
        if k == "chain":
            # a loop-built left spine of t[2] operators over the base t[1]; t[3] = [[position, piece, op], ...] puts a piece
            # as the RIGHT operand of `op` at that depth (position 0 = next to the deepest leaf); elsewhere `+ 1.0`
            e = self.term(t[1])
            ins = {i: (piece, op) for i, piece, op in t[3]}
            for i in range(t[2]):
                if i in ins:
                    piece, op = ins[i]
                    r = self.term(piece)
                    e = e + r if op == "+" else e - r if op == "-" else e * r if op == "*" else e / r if op == "/" else e ** r
                else:
                    e = e + 1.0
            return e
        if k == "rpow":
            return t[1] ** self.term(t[2])
        if k == "pow":
            return self.term(t[1]) ** self.term(t[2])
        if k == "rdivc":
            return t[1] / self.term(t[2])
        if k == "fn":
            from optyx.core import functions as F
            return getattr(F, t[1])(self.term(t[2]))
        raise ValueError(k)


# ------------------------------------------------------------------ brute force (independent of get_variables)


def brute_vars(e, acc):
    """own traversal of the object graph: every Variable object reachable from an expression"""
    from optyx.core.expressions import BinaryOp, Constant, UnaryOp, Variable
    from optyx.core.parameters import Parameter
    from optyx.core import vectors as V
    from optyx.core import matrices as M

    stack = [e]
    while stack:
        n = stack.pop()
        if isinstance(n, Variable):
            acc.append(n)
        elif isinstance(n, (Constant, Parameter)):
            pass
        elif isinstance(n, BinaryOp):
            stack += [n.right, n.left]
        elif isinstance(n, UnaryOp):
            stack.append(n.operand)
        elif isinstance(n, V.VectorVariable):
            acc.extend(n._variables)
        elif isinstance(n, V.VectorExpression):
            stack += list(n._expressions)
        elif isinstance(n, M.MatrixVariable):
            acc.extend(v for row in n._variables for v in row)
        elif isinstance(n, M.MatrixExpression):
            stack += [x for row in n._expressions for x in row]
        elif isinstance(n, V.DotProduct):
            stack += [n.left, n.right]
        elif isinstance(n, V.VectorExpressionSum):
            stack.append(n.expression)
        elif hasattr(n, "vector"):
            stack.append(n.vector)
        elif hasattr(n, "matrix"):
            stack.append(n.matrix)
        else:
            raise Unsupported(type(n).__name__)
    return acc


def natural_key(name):
    """own natural sort key: (alternating text / integer parts, name) — ASCII digits"""
    parts, cur, dig = [], "", False
    for ch in name:
        d = "0" <= ch <= "9"
        if d != dig:
            parts.append(int(cur) if dig else cur)
            cur, dig = "", d
        cur += ch
    parts.append(int(cur) if dig else cur)
    if dig:
        parts.append("")
    # compare position-wise without ever comparing str with int: tag the type
    return ([(1, p) if isinstance(p, int) else (0, p) for p in parts], name)


def expected_names(built):
    vs = []
    if built.objective is not None:
        brute_vars(built.objective, vs)
    for c in built.con_objs:
        brute_vars(c.expr, vs)
    names = sorted({v.name for v in vs}, key=natural_key)
    return names, vs


def observe(built):
    """what the real code reports"""
    with warnings.catch_warnings():
        warnings.simplefilter("ignore")
        vs = built.problem.variables
        names = [v.name for v in vs]
        bounds = built.problem.get_bounds()
        again = [v.name for v in built.problem.variables]
        nv = built.problem.n_variables
    return {"names": names, "bounds": [[None if b is None else float(b) for b in p] for p in bounds], "again": again, "n": nv}


def collector_checks(b, spec, rep):
    """get_all_variables / Constraint.get_variables on every expression, and Problem.variables of a rebuilt problem with
    the recursion threshold of the variable walker lowered to 0 from outside (module attribute): same answer"""
    import optyx.core.expressions as E

    out = []
    exprs = ([("objective", b.objective)] if b.objective is not None else []) + [(f"constraint {i}", c.expr) for i, c in enumerate(b.con_objs[:6])]
    for label, e in exprs:
        wantset = sorted({v.name for v in brute_vars(e, [])})
        for thr in (None, 0):
            old = E._RECURSION_THRESHOLD
            try:
                if thr is not None:
                    E._RECURSION_THRESHOLD = thr
                got = sorted(v.name for v in E.get_all_variables(e))
            except RecursionError:
                rep.skipped["get_all_variables-recursion (C15)"] = rep.skipped.get("get_all_variables-recursion (C15)", 0) + 1
                continue
            finally:
                E._RECURSION_THRESHOLD = old
            if got != wantset:
                out.append({"what": "get_all_variables misses / invents variables", "where": label, "threshold": thr,
                            "got": got[:40], "want": wantset[:40]})
                break
    for i, c in enumerate(b.con_objs[:6]):
        try:
            got = sorted(v.name for v in c.get_variables())
        except RecursionError:
            continue
        wantset = sorted({v.name for v in brute_vars(c.expr, [])})
        if got != wantset:
            out.append({"what": "Constraint.get_variables misses / invents variables", "where": f"constraint {i}", "got": got[:40], "want": wantset[:40]})
    if spec["kind"] != "deeppos":
        old = E._RECURSION_THRESHOLD
        try:
            E._RECURSION_THRESHOLD = 0
            b2 = Built(spec, 0)
            want2, _ = expected_names(b2)
            got2 = observe(b2)["names"]
        finally:
            E._RECURSION_THRESHOLD = old
        if got2 != want2:
            out.append({"what": "Problem.variables differs when the explicit-stack variable walker is used (threshold lowered to 0)",
                        "threshold": 0, "got": got2[:40], "want": want2[:40]})
    rep.histogram["collector-checks"] = rep.histogram.get("collector-checks", 0) + 1
    return out[:2]


def history_check(b, want):
    """read the variables, THEN edit the problem, read again: the list must follow the edits (no stale answer)"""
    import optyx

    out = []
    with warnings.catch_warnings():
        warnings.simplefilter("ignore")
        _ = b.problem.variables, b.problem.get_bounds(), b.problem.n_variables
        extra = optyx.Variable("zz_hist9", lb=1.0, ub=2.0)
        b.problem.subject_to(2 * extra >= 0)
        got = [v.name for v in b.problem.variables]
        w2 = sorted(set(want) | {"zz_hist9"}, key=natural_key)
        if got != w2 or b.problem.n_variables != len(w2):
            out.append({"what": "variables not updated after subject_to on a problem whose variables had been read", "got": got[:40], "want": w2[:40]})
        gb = b.problem.get_bounds()
        if len(gb) != len(w2) or gb[w2.index("zz_hist9")] != (1.0, 2.0):
            out.append({"what": "get_bounds not updated after subject_to", "got": str(gb)[:200]})
        extra2 = optyx.Variable("zz_hist10", lb=None, ub=0)
        (b.problem.maximize if b.spec.get("maximize") else b.problem.minimize)(extra2 - 1)
        cvars = []
        for c in b.con_objs:
            brute_vars(c.expr, cvars)
        w3 = sorted({v.name for v in cvars} | {"zz_hist9", "zz_hist10"}, key=natural_key)
        got3 = [v.name for v in b.problem.variables]
        if got3 != w3:
            out.append({"what": "variables not updated after the objective was replaced", "got": got3[:40], "want": w3[:40]})
    return out


MUTATORS = {"minimize", "maximize", "subject_to", "solve", "_invalidate_caches"}


def readonly_helpers(problem):
    """every attribute / zero-argument method of Problem that only reports, enumerated from the class itself
    (public ones and the private predicates solve() consults); returns [(label, thunk)]"""
    import inspect

    out = [("repr", lambda: repr(problem)), ("str", lambda: str(problem))]
    cls = type(problem)
    for name in sorted(dir(cls)):
        if name in MUTATORS or (name.startswith("__")):
            continue
        attr = inspect.getattr_static(cls, name)
        if isinstance(attr, property):
            out.append((name, lambda name=name: getattr(problem, name)))
        elif inspect.isfunction(attr):
            params = [p for p in list(inspect.signature(attr).parameters.values())[1:]
                      if p.default is inspect.Parameter.empty and p.kind in (p.POSITIONAL_ONLY, p.POSITIONAL_OR_KEYWORD)]
            if not params:
                out.append((name + "()", lambda name=name: getattr(problem, name)()))
    return out


def readonly_history_check(b, want, wb, rng, with_edit=True):
    """reporting helpers interleaved between the operations of a history change nothing that is observed later, and
    the lists handed out earlier stay what they were"""
    import optyx
    from optyx.core.expressions import get_all_variables

    prob = b.problem
    fails = []
    kept = []                      # (label, the returned list object, a snapshot of it)

    def observe_now(stage, want_names, want_bounds):
        with warnings.catch_warnings():
            warnings.simplefilter("ignore")
            vs = prob.variables
            names = [v.name for v in vs]
            bs = prob.get_bounds()
        kept.append((stage + ":variables", vs, list(vs)))
        kept.append((stage + ":bounds", bs, list(bs)))
        if names != want_names:
            fails.append({"what": "variables changed after read-only helper calls", "stage": stage, "got": names[:40], "want": want_names[:40]})
        elif want_bounds is not None and [[None if x is None else float(x) for x in p] for p in bs] != want_bounds:
            fails.append({"what": "get_bounds changed after read-only helper calls", "stage": stage, "got": str(bs)[:200]})
        if prob.n_variables != len(want_names):
            fails.append({"what": "n_variables changed after read-only helper calls", "stage": stage})

    def call_helpers(stage):
        helpers = readonly_helpers(prob)
        rng.shuffle(helpers)
        for label, thunk in helpers + helpers[:3]:
            try:
                with warnings.catch_warnings(), np.errstate(all="ignore"):
                    warnings.simplefilter("ignore")
                    thunk()
            except Exception as ex:  # noqa: BLE001
                fails.append({"what": "a read-only helper raised", "helper": label, "stage": stage, "error": f"{type(ex).__name__}: {ex}"[:160]})
            with warnings.catch_warnings():
                warnings.simplefilter("ignore")
                now = [v.name for v in prob.variables]
            if now != stage_want[0]:
                fails.append({"what": "a read-only helper changed Problem.variables", "helper": label, "stage": stage,
                              "got": now[:40], "want": stage_want[0][:40]})
                return
        # expression-level reporting on the objective and the constraints
        with warnings.catch_warnings(), np.errstate(all="ignore"):
            warnings.simplefilter("ignore")
            for e in ([prob.objective] if prob.objective is not None else []) + [c.expr for c in prob.constraints[:4]]:
                _ = e.degree, e.is_linear(), get_all_variables(e)
                try:
                    _ = repr(e)
                except RecursionError:
                    # repr() of a chain a few hundred operators deep exceeds the interpreter's recursion limit
                    # (clean-tree behaviour, outside this property; reported)
                    pass
            for c in prob.constraints[:4]:
                try:
                    _ = repr(c), c.get_variables()
                except RecursionError:
                    pass

    stage_want = [want]
    observe_now("fresh", want, wb)
    call_helpers("after-build")
    observe_now("after-helpers", want, wb)
    # a solve result (stubbed backend) and its accessors, then the helpers again
    if prob.objective is not None and want:
        try:
            keys = solution_keys(b, accessors=True)
            if keys != want:
                fails.append({"what": "keys of Solution.values differ after read-only helper calls", "got": (keys or [])[:40], "want": want[:40]})
        except RecursionError:
            pass        # compiling a chain several hundred operators deep: the depth property (C15), not this one
        except Exception as ex:  # noqa: BLE001
            fails.append({"what": "solve raised after read-only helper calls", "error": f"{type(ex).__name__}: {ex}"[:160]})
        call_helpers("after-solve")
        observe_now("after-solve", want, wb)
    if with_edit:
        extra = optyx.Variable("zz_ro7", lb=0, ub=3, domain=rng.choice(["continuous", "integer", "binary"]))
        prob.subject_to(extra + 1 >= 0)
        w2 = sorted(set(want) | {"zz_ro7"}, key=natural_key)
        stage_want[0] = w2
        call_helpers("after-edit")
        observe_now("after-edit", w2, None)
        call_helpers("after-edit-2")
        observe_now("after-edit-2", w2, None)
    # results of earlier calls stay valid: every list handed out is still what it was when it was returned
    for label, obj, snap in kept:
        if len(obj) != len(snap) or any(a is not b_ and a != b_ for a, b_ in zip(obj, snap)):
            fails.append({"what": "a list returned by an earlier call was changed by later calls", "which": label})
            break
    return fails[:3]


def solution_keys(b, accessors=False):
    """the names under which a solve reports values (scipy.optimize.minimize replaced by a stub that returns x0)"""
    import optyx.solvers.scipy_solver as SS
    from scipy.optimize import OptimizeResult

    def stub(fun=None, x0=None, **kw):
        return OptimizeResult(x=np.asarray(x0, dtype=float), success=True, fun=float(fun(np.asarray(x0, dtype=float))), message="stub", nit=0)

    old = SS.minimize
    SS.minimize = stub
    try:
        with warnings.catch_warnings(), np.errstate(all="ignore"):
            warnings.simplefilter("ignore")
            sol = b.problem.solve(method="SLSQP")
    finally:
        SS.minimize = old
    if accessors:
        # the Solution's own reporting accessors
        _ = repr(sol), str(sol), sol.status, sol.objective_value, sol.message, dict(sol.values)
        for attr in ("is_optimal", "is_feasible", "summary"):
            if hasattr(sol, attr):
                a = getattr(sol, attr)
                _ = a() if callable(a) else a
    return None if not sol.values else list(sol.values.keys())


# ------------------------------------------------------------------ generation of specs


def rand_bounds(rng):
    return rng.choice([(None, None), (0.0, None), (None, 2.5), (-1.0, 1.0), (0.0, 0.0), (None, None), (0, 10), (1e-300, 1e16), (-1e8, None),
                       (None, 1e-9), (-3, -3), (-1e17, 1e300)])


def rand_domain(rng):
    return rng.choice(["continuous", "continuous", "continuous", "integer", "binary"])


# ---- the name grammar: base names of scalars, vectors AND matrices with digit runs of different lengths, leading
# zeros, digits in the middle, names that are prefixes of one another, bracket / comma characters; the natural order
# is a property of the *name* only, whoever created the Variable.

STEMS = ["w", "x", "a", "ab", "Z", "_", "q.", "k[", "m,", "v]", "é", ""]
DIGITS = ["1", "2", "10", "02", "007", "9", "12", "100", "0", "3", "20", "010"]


def name_family(rng):
    """related base names: one stem with digit runs of several lengths, mid-name digits, prefixes"""
    st = rng.choice(STEMS)
    pool = {st, st + "b"} if st else set()
    for d in rng.sample(DIGITS, 6):
        pool.add(st + d)
        if rng.random() < 0.4:
            pool.add(st + d + rng.choice(["b", "_", "b" + rng.choice(DIGITS), "[", ","]))
    if rng.random() < 0.5:
        st2 = rng.choice(STEMS)
        pool |= {st2 + d for d in rng.sample(DIGITS, 3)}
    pool.discard("")
    return sorted(p for p in pool if '"' not in p)


def element_names(decl):
    k = decl[0]
    if k in ("vec2", "scalar2"):
        return []
    if k == "vec":
        return [f"{decl[1]}[{i}]" for i in range(decl[2])]
    if k == "mat":
        return [f"{decl[1]}[{i},{j}]" for i in range(decl[2]) for j in range(decl[3]) if not decl[4] or j >= i]
    if k == "scalar":
        return [decl[1]]
    return []


def names_unique(decls):
    seen = set()
    for d in decls:
        for n in element_names(d):
            if n in seen:
                return False
            seen.add(n)
    return True


def pick_container_names(rng):
    """names for the two vectors and two matrices of gen_spec: the historical ones or a grammar family"""
    if rng.random() < 0.45:
        return "x", "y2", "A", "S", []
    fam = name_family(rng)
    vx, vy = rng.sample(fam, 2)
    ma, ms = rng.choice(fam), rng.choice(fam)
    while ms == ma:
        ms = rng.choice(fam + ["S"])
    return vx, vy, ma, ms, fam


def gen_names_spec(rng):
    """every declared scalar, vector and matrix is mentioned; their base names come from one family, so the natural
    order interleaves scalars, vector elements and matrix entries and depends on numbers inside the base names"""
    for _ in range(50):
        fam = name_family(rng)
        decls = []
        for nm in rng.sample(fam, min(len(fam), rng.randint(2, 4))):
            decls.append(["vec", nm, rng.choice([1, 2, 3, 11, 12]), *rand_bounds(rng), rand_domain(rng)])
        for nm in rng.sample(fam, min(len(fam), rng.randint(1, 2))):
            r_ = rng.randint(1, 3)
            sym = rng.random() < 0.3
            decls.append(["mat", nm, r_, r_ if sym else rng.choice([1, 2, 11]), sym, *rand_bounds(rng), rand_domain(rng)])
        for nm in rng.sample(fam, min(len(fam), rng.randint(2, 5))):
            decls.append(["scalar", nm, *rand_bounds(rng), rand_domain(rng)])
        if names_unique(decls):
            break
    else:
        decls = [["vec", "w2", 3, None, None], ["vec", "w10", 2, None, None], ["scalar", "w3", None, None]]
    terms = []
    for d in decls:
        if d[0] == "vec":
            terms.append(rng.choice([["vsum", ["vec", d[1]]], ["lc", ["vec", d[1]]], ["dotself", ["vec", d[1]]],
                                     ["esum", ["vmul", 2.0, ["vec", d[1]]]], ["vsum", ["slice", d[1], None, None, -1]]]))
        elif d[0] == "mat":
            terms.append(rng.choice([["msum", ["mat", d[1]]], ["frob", ["mat", d[1]]], ["msum", ["T", ["mat", d[1]]]],
                                     ["mesum", ["mat", d[1]]]]))
        else:
            terms.append(rng.choice([["scalar", d[1]], ["mul", 2.0, ["scalar", d[1]]], ["sq", ["scalar", d[1]]]]))
    rng.shuffle(terms)
    k = rng.randint(1, len(terms))
    obj = terms[:k]
    cons = [[t, rng.choice(["<=", ">=", "=="]), rng.choice([1.0, 0, 2.5])] for t in terms[k:]]
    for _ in range(rng.randint(0, 2)):
        cons.append([rng.choice(terms), rng.choice(["<=", ">="]), 1.0])
    return {"kind": "names", "decls": decls, "objective": obj, "constraints": cons, "maximize": rng.random() < 0.3}


def names_cover():
    """fixed name families: digit runs of different lengths in the base name of vectors / matrices / scalars"""
    out = []

    def all_of(decls):
        terms = []
        for d in decls:
            terms.append(["vsum", ["vec", d[1]]] if d[0] == "vec" else ["msum", ["mat", d[1]]] if d[0] == "mat" else ["scalar", d[1]])
        out.append({"kind": "names", "decls": decls, "objective": terms, "constraints": []})
        out.append({"kind": "names", "decls": decls, "objective": terms[-1:], "constraints": [[t, "<=", 1.0] for t in terms[:-1]]})
    for st in ("w", "x", "a2b", "", "k[", "m,"):
        all_of([["vec", st + "2", 2, 0.0, None], ["vec", st + "10", 2, None, 1.0], ["scalar", st + "3", -1.0, 1.0]])
        all_of([["vec", st + "02", 1, None, None], ["vec", st + "2", 1, 0.0, 0.0], ["vec", st + "1", 11, None, None],
                ["scalar", st + "1", None, 2.5], ["scalar", st + "010", 0.0, None]])
        all_of([["mat", st + "2", 2, 2, False, None, None], ["mat", st + "10", 1, 11, False, 0.0, None], ["vec", st + "9", 2, None, None],
                ["scalar", st + "9", None, None], ["scalar", st + "10b", None, None]])
        all_of([["mat", st + "3", 2, 2, True, None, None], ["vec", st + "3", 2, None, None], ["scalar", st + "3", None, None],
                ["vec", st + "3b1", 2, None, None], ["vec", st + "3b10", 1, None, None], ["vec", st + "3b2", 1, None, None]])
    all_of([["vec", "x", 2, None, None], ["vec", "x1", 2, None, None], ["vec", "x10", 1, None, None], ["vec", "x[", 2, None, None],
            ["scalar", "x", None, None], ["scalar", "x1", None, None], ["scalar", "x[1", None, None]])
    return out


# ---- matrix view kinds x the symmetric flag: every 2-D slice form of general and symmetric matrices (and of their
# transposes, and transposes of the slices) used through every matrix-level node; what a view mentions is exactly the
# Variable objects in its grid, whatever flags the view carries.


def view_shape(shape, chain):
    r, c = shape
    for st in chain:
        if st[0] == "T":
            r, c = c, r
        else:
            r, c = len(range(r)[slice(*st[1:4])]), len(range(c)[slice(*st[4:7])])
    return r, c


def build_view(base, chain):
    m = ["mat", base]
    for st in chain:
        m = ["T", m] if st[0] == "T" else ["sub2", m, *st[1:7]]
    return m


SLICE_FORMS = [  # (row slice, col slice) on an n x n grid with n >= 4: principal / off-diagonal blocks, steps, directions
    ((0, 2, None), (0, 2, None)), ((1, 3, None), (1, 3, None)), ((0, 2, None), (2, 4, None)), ((2, 4, None), (0, 2, None)),
    ((None, None, 2), (None, None, 2)), ((0, 4, 2), (0, 4, 3)), ((0, 4, 3), (0, 4, 2)), ((None, None, -1), (None, None, None)),
    ((None, None, None), (None, None, -1)), ((None, None, -1), (None, None, -1)), ((None, None, None), (None, None, 2)),
    ((None, None, 2), (None, None, None)), ((1, 2, None), (None, None, None)), ((None, None, None), (2, 3, None)),
    ((None, None, None), (None, None, None)), ((0, 3, None), (1, 4, None)), ((3, None, -2), (3, None, -2)), ((0, 4, 2), (1, 4, 2)),
]


def matrix_terms(view, shape, which):
    """objective terms / constraints that mention a matrix view through one matrix-level node"""
    r, c = shape
    if which == "msum":
        return [["msum", view]], []
    if which == "frob":
        return [["frob", view]], []
    if which == "mesum":
        return [["mesum", view]], []
    if which == "mprod":
        return [["mprod", view]], []
    if which == "matcons":
        return [["const", 1.0]], [[["matcons", view, "var"], "<=", 2.5]]
    if which == "matcons-expr":
        return [["const", 1.0]], [[["matcons", view, "expr"], ">=", 0]]
    if which == "cons-msum":
        return [["const", 0.0]], [[["msum", view], "<=", 1.0], [["frob", view], "<=", 4.0]]
    if which == "trace" and r == c:
        return [["trace", view], ["mtracefn", view]], []
    if which == "diag" and r == c:
        return [["vsum", ["diag", view]], ["mdiagfn", view]], []
    if which == "rowcol":
        return [["vsum", ["row", view, r - 1]]], [[["lc", ["col", view, 0]], "<=", 1.0]]
    return [["msum", view]], []


MATRIX_NODES = ["msum", "frob", "mesum", "mprod", "matcons", "matcons-expr", "cons-msum", "trace", "diag", "rowcol"]


def matview_cover():
    out = []
    for sym in (True, False):
        for (rs, cs) in SLICE_FORMS:
            for pre, post in ((False, False), (True, False), (False, True)):
                chain = ([("T",)] if pre else []) + [("sub",) + rs + cs] + ([("T",)] if post else [])
                shape = view_shape((4, 4), chain)
                if 0 in shape:
                    continue
                view = build_view("S" if sym else "G", chain)
                for which in MATRIX_NODES:
                    obj, cons = matrix_terms(view, shape, which)
                    out.append({"kind": "matview", "decls": [["mat", "S" if sym else "G", 4, 4, sym, 0.0 if sym else None, None]],
                                "objective": obj, "constraints": cons})
    for (rs, cs) in SLICE_FORMS[:12]:
        chain = [("sub",) + rs + cs]
        shape = view_shape((4, 5), chain)
        if 0 in shape:
            continue
        view = build_view("R", chain)
        for which in ("msum", "frob", "matcons", "rowcol"):
            obj, cons = matrix_terms(view, shape, which)
            out.append({"kind": "matview", "decls": [["mat", "R", 4, 5, False, None, 1.0]], "objective": obj, "constraints": cons})
    return out


def gen_matview_spec(rng):
    sym = rng.random() < 0.55
    n = rng.randint(2, 5)
    shape0 = (n, n) if sym else (rng.randint(1, 5), rng.randint(1, 5))
    name = rng.choice(["S", "M", "w2", "w10", "a1b", "k["])
    decls = [["mat", name, shape0[0], shape0[1], sym, *rand_bounds(rng)]]
    views = []
    for _ in range(rng.randint(1, 3)):
        for _try in range(30):
            chain = []
            for _k in range(rng.randint(1, 3)):
                if rng.random() < 0.35:
                    chain.append(("T",))
                else:
                    r_, c_ = view_shape(shape0, chain)

                    def sl(m):
                        if rng.random() < 0.25:
                            return (None, None, rng.choice([None, -1, 2, -2]))
                        a = rng.choice([None] + list(range(-m, m)))
                        b = rng.choice([None] + list(range(-m, m + 1)))
                        return (a, b, rng.choice([None, None, 1, 2, 3, -1, -2]))
                    rs = sl(r_)
                    cs = rs if rng.random() < 0.3 else sl(c_)
                    if rng.random() < 0.2 and r_ == c_:
                        cs = (rs[0], rs[1], rng.choice([None, 1, 2, 3, -1]))      # same span, other step
                    chain.append(("sub",) + rs + cs)
            shape = view_shape(shape0, chain)
            if 0 not in shape:
                views.append((build_view(name, chain), shape))
                break
    if not views:
        views = [(["mat", name], shape0)]
    obj, cons = [], []
    for view, shape in views:
        o, c = matrix_terms(view, shape, rng.choice(MATRIX_NODES))
        if rng.random() < 0.5 or not obj:
            obj += o
            cons += c
        else:
            cons += [[t, rng.choice(["<=", ">="]), 1.0] for t in o if t[0] != "const"] + c
    return {"kind": "matview", "decls": decls, "objective": obj, "constraints": cons, "maximize": rng.random() < 0.3}


# ---- depth x operand position: loop-built chains whose left spine is about as deep as the recursion threshold (and far
# beyond), in which one variable occurs ONLY at one specific place: exponent of **, right operand of / - *, under a
# unary function, inside a vector / matrix node, a right child at depth, the deepest leaf.  Every one must be listed.

POSITION_KINDS = ["pow-exp-const-base", "pow-exp", "spine-pow", "div-right", "spine-div", "sub-right", "spine-mul", "rdiv", "fn-sin", "fn-abs",
                  "fn-exp", "fn-neg", "dot", "l2", "l1", "qf", "lc-expr", "esum", "vsum", "msum", "frob", "mvp", "right-leaf", "deepest-leaf",
                  "nested-sub"]


def position_piece(kind, lone, other, vec, mat):
    """(base term, piece term, spine operator): `lone` (a scalar / vector / matrix name) occurs only inside the piece"""
    L = ["scalar", lone]
    O = ["scalar", other]
    V = ["vec", vec]
    Mx = ["mat", mat]
    base = O
    if kind == "pow-exp-const-base":
        return base, ["rpow", 2.0, L], "+"
    if kind == "pow-exp":
        return base, ["pow", O, L], "+"
    if kind == "spine-pow":
        return base, L, "**"
    if kind == "div-right":
        return base, ["rdivc", 1.0, L], "+"
    if kind == "spine-div":
        return base, L, "/"
    if kind == "sub-right":
        return base, L, "-"
    if kind == "spine-mul":
        return base, L, "*"
    if kind == "rdiv":
        return base, ["div", O, 2.0], "/"          # `other` only: the lone variable is the deepest leaf here
    if kind.startswith("fn-"):
        f = kind[3:]
        return base, (["neg", L] if f == "neg" else ["fn", {"abs": "abs_"}.get(f, f), L]), "+"
    if kind == "dot":
        return base, ["dot", V, ["slice", vec, None, None, -1]], "+"
    if kind == "l2":
        return base, ["l2", V], "-"
    if kind == "l1":
        return base, ["l1", V], "+"
    if kind == "qf":
        return base, ["qf", V], "*"
    if kind == "lc-expr":
        return base, ["mvpsum", V, "sq"], "+"
    if kind == "esum":
        return base, ["esum", ["vmul", 2.0, V]], "+"
    if kind == "vsum":
        return base, ["vsum", V], "-"
    if kind == "msum":
        return base, ["msum", Mx], "+"
    if kind == "frob":
        return base, ["frob", ["T", Mx]], "+"
    if kind == "mvp":
        return base, ["mvpsum", V, "lin"], "/"
    if kind == "right-leaf":
        return base, L, "+"
    if kind == "nested-sub":
        return base, ["rsub", 1.0, ["rsub", 2.0, L]], "-"
    return L, O, "+"                                 # deepest-leaf: the lone variable is the base of the chain


def deeppos_spec(kind, n, k, place, names=("t7", "t10", "v2", "M3")):
    lone, other, vec, mat = names
    base, piece, op = position_piece(kind, lone, other, vec, mat)
    if kind == "rdiv":
        base = ["scalar", lone]
    chain = ["chain", base, n, [[k, piece, op]]]
    decls = [["scalar", lone, 0.0, 5.0], ["scalar", other, None, None], ["vec", vec, 3, None, 1.0], ["mat", mat, 2, 2, False, 0.0, None]]
    if place == "objective":
        return {"kind": "deeppos", "decls": decls, "objective": [chain], "constraints": [[["scalar", other], ">=", 0]], "tag": kind}
    return {"kind": "deeppos", "decls": decls, "objective": [["scalar", other]], "constraints": [[chain, "<=", 1.0]], "tag": kind}


def deeppos_cover(thorough):
    out = []
    depths = [400, 401, 450, 700, 399] if thorough else [400, 450, 399]
    for ki, kind in enumerate(POSITION_KINDS):
        for di, n in enumerate(depths):
            for pi, k in enumerate((0, n // 2, n - 1)):
                places = ("objective", "constraint") if thorough else (("objective", "constraint")[(ki + di + pi) % 2],)
                for place in places:
                    out.append(deeppos_spec(kind, n, k, place))
    return out


def gen_deeppos_spec(rng):
    fam = name_family(rng)
    names = (rng.sample(fam, 4) if len(fam) >= 4 else ["t7", "t10", "v2", "M3"])
    n = rng.choice([399, 400, 401, 402, 450, 512, 700])
    spec = deeppos_spec(rng.choice(POSITION_KINDS), n, rng.choice([0, 1, n // 3, n // 2, n - 2, n - 1]), rng.choice(["objective", "constraint"]),
                        tuple(names))
    if not names_unique(spec["decls"]):
        return deeppos_spec(rng.choice(POSITION_KINDS), n, n // 2, "objective")
    return spec


# ---- label collisions: distinct views that carry the same name and length but hold different elements.
# A slice view is named "{name}[{start or 0}:{stop or size}]" (step and direction are not part of the name), a
# partial row "A[i,:]", a partial column "A[:,j]".  Identity, not the label, must decide "same source".


def slice_collision_groups(n):
    """groups of slices (a, b, s) of range(n) with equal label and equal length but pairwise different elements"""
    groups = {}
    bounds = [None] + list(range(-n, n + 1))
    for a in bounds:
        for b in bounds:
            for st in (None, 1, 2, 3, -1, -2):
                idx = tuple(range(n)[slice(a, b, st)])
                if not idx:
                    continue
                key = (a or 0, b or n, len(idx))
                groups.setdefault(key, {}).setdefault(idx, (a, b, st))
    return [list(g.values()) for g in groups.values() if len(g) >= 2]


def collision_views(rng, n, rows, cols):
    """2..3 views with the same label and length and different elements, over x (size n) or A (rows x cols)"""
    c = rng.random()
    if c < 0.6 or cols < 2:
        gs = slice_collision_groups(n)
        if gs:
            g = rng.choice(gs)
            return [["slice", "x", *t] for t in rng.sample(g, min(len(g), rng.choice([2, 2, 3])))]
    if c < 0.8 and cols >= 2:
        i = rng.randint(0, rows - 1)
        gs = slice_collision_groups(cols)
        g = rng.choice(gs)
        # every partial row is labelled "A[i,:]": any two slices of equal length collide
        k = rng.randint(1, cols - 1)
        cands = [(a, a + k, None) for a in range(0, cols - k + 1)] + [(cols - 1, cols - 1 - k if cols - 1 - k >= 0 else None, -1)]
        cands = [t for t in cands if len(range(cols)[slice(*t)]) == k]
        if len(cands) >= 2:
            return [["rowslice", ["mat", "A"], i, *t] for t in rng.sample(cands, 2)]
        return [["rowslice", ["mat", "A"], i, *t] for t in rng.sample(g, 2)]
    if rows >= 2:
        j = rng.randint(0, cols - 1)
        k = rng.randint(1, rows - 1)
        cands = [(a, a + k, None) for a in range(0, rows - k + 1)]
        if len(cands) >= 2:
            return [["colslice", ["mat", "A"], *t, j] for t in rng.sample(cands, 2)]
    g = rng.choice(slice_collision_groups(n))
    return [["slice", "x", *t] for t in rng.sample(g, 2)]


def vector_only_term(rng, v, views):
    """a term the single-vector shortcut understands (no scalar element variables)"""
    c = rng.random()
    if c < 0.2:
        return ["vsum", v]
    if c < 0.35:
        return ["lc", v]
    if c < 0.5:
        return ["dotself", v]
    if c < 0.6:
        return ["ps", v, rng.choice([2, 3])]
    if c < 0.7:
        return ["us", v, rng.choice(["abs", "sin"])]
    if c < 0.85:
        w = rng.choice([u for u in views if u != v] or views)
        return ["dot", v, w]
    if c < 0.93:
        return ["mul", 2.0, ["vsum", v]]
    return ["sub", ["lc", v], ["const", 3.0]]


def gen_collision_spec(rng):
    n = rng.randint(3, 9)
    rows, cols = rng.randint(1, 4), rng.randint(2, 5)
    decls = [["vec", "x", n, *rand_bounds(rng)], ["mat", "A", rows, cols, False, *rand_bounds(rng)], ["param", "p", 1.5]]
    views = collision_views(rng, n, rows, cols)
    order = list(views)
    rng.shuffle(order)
    obj = [vector_only_term(rng, order[0], views) for _ in range(rng.randint(1, 2))]
    cons = []
    for v in order[1:] + ([rng.choice(views)] if rng.random() < 0.4 else []):
        cons.append([vector_only_term(rng, v, views), rng.choice(["<=", ">=", "=="]), rng.choice([1.0, 0, 2.5])])
    if rng.random() < 0.3:
        obj.append(["param", "p"])
    return {"kind": "collision", "decls": decls, "objective": obj, "constraints": cons, "maximize": rng.random() < 0.3}


def collision_cover():
    """one spec per collision shape × where the second view is mentioned (objective term / constraint / dot)"""
    out = []

    def mk(decls, u, v):
        out.append({"kind": "collision", "decls": decls, "objective": [["vsum", u]], "constraints": [[["vsum", v], "<=", 1.0]]})
        out.append({"kind": "collision", "decls": decls, "objective": [["vsum", u], ["lc", v]], "constraints": []})
        out.append({"kind": "collision", "decls": decls, "objective": [["dot", u, v]], "constraints": []})
        out.append({"kind": "collision", "decls": decls, "objective": [["dotself", v]],
                    "constraints": [[["dot", v, u], ">=", 0], [["ps", u, 2], "<=", 4.0], [["us", v, "abs"], "<=", 4.0]]})
        out.append({"kind": "collision", "decls": decls, "objective": [["lc", u]],
                    "constraints": [[["lc", u], "<=", 1.0], [["mul", 2.0, ["vsum", v]], "==", 1.0]]})
    for sidx in (1, 2, 3):                                   # x[s::-1] vs x[s:n], n = 2s + 1: both "x[s:n]", size s + 1
        n = 2 * sidx + 1
        mk([["vec", "x", n, 0.0, None]], ["slice", "x", sidx, None, -1], ["slice", "x", sidx, n, None])
        mk([["vec", "x", n, None, None]], ["slice", "x", sidx, None, None], ["slice", "x", sidx, None, -1])
    mk([["vec", "y", 4, None, 2.5]], ["slice", "y", 0, 4, 2], ["slice", "y", 0, 4, 3])          # (y0,y2) vs (y0,y3)
    mk([["vec", "y", 7, None, None]], ["slice", "y", 0, 6, 3], ["slice", "y", 0, 6, 5])
    mk([["vec", "y", 6, None, None]], ["slice", "y", -1, 0, -3], ["slice", "y", -1, 0, -4])
    mk([["mat", "A", 2, 4, False, 0.0, 1.0]], ["rowslice", ["mat", "A"], 0, 0, 2, None], ["rowslice", ["mat", "A"], 0, 2, 4, None])
    mk([["mat", "A", 2, 4, False, None, None]], ["rowslice", ["mat", "A"], 1, 0, 3, None], ["rowslice", ["mat", "A"], 1, 3, 0, -1])
    mk([["mat", "A", 4, 2, False, None, None]], ["colslice", ["mat", "A"], 0, 2, None, 1], ["colslice", ["mat", "A"], 2, 4, None, 1])
    mk([["mat", "A", 3, 3, False, None, None]], ["rowslice", ["T", ["mat", "A"]], 0, 0, 2, None], ["rowslice", ["T", ["mat", "A"]], 0, 1, 3, None])
    return out


def gen_spec(rng, force=None):
    kind = force or rng.choice(["shortcut", "shortcut", "nearmiss", "general", "general", "general", "collision", "names", "names",
                                "matview", "matview", "deeppos"])
    if kind == "collision":
        return gen_collision_spec(rng)
    if kind == "matview":
        return gen_matview_spec(rng)
    if kind == "deeppos":
        return gen_deeppos_spec(rng)
    if kind == "names":
        return gen_names_spec(rng)
    n = rng.randint(1, 12)
    lbx, ubx = rand_bounds(rng)
    for _try in range(50):
        X, Y, A, S, fam = pick_container_names(rng)
        decls = [["vec", X, n, lbx, ubx, rand_domain(rng)], ["vec", Y, rng.randint(1, 4), *rand_bounds(rng), rand_domain(rng)],
                 ["mat", A, rng.randint(1, 3), rng.randint(1, 3), False, *rand_bounds(rng), rand_domain(rng)],
                 ["mat", S, rng.randint(1, 3), 0, True, *rand_bounds(rng), rand_domain(rng)], ["param", "p", 1.5]]
        decls[3][3] = decls[3][2]
        # scalar names: the fixed list, the name family, and "foreign" names that sort INSIDE / next to the vector's span
        foreign = [f"{X}[{n + rng.randint(0, 3)}]", f"{X}[{rng.randint(0, n)}", f"{X}[{rng.randint(0, n)}]b", f"{X}[{rng.randint(0, 2)},0]",
                   f"{A}[0,{decls[2][3] + 1}]", f"{X}[0{rng.randint(0, n)}]"]
        pool = SCALAR_NAMES + fam + fam + foreign + foreign
        scal = rng.sample(sorted(set(pool)), rng.randint(2, 6))
        for s in scal:
            decls.append(["scalar", s, *rand_bounds(rng), rand_domain(rng)])
        if rng.random() < 0.15:
            decls.append(["scalar2", scal[0], *decls[-len(scal)][2:]])        # a clone of the first scalar: same name, same declaration
        if rng.random() < 0.15:
            decls.append(["vec2", X, n, lbx, ubx, decls[0][5]])
        if names_unique(decls):
            break
    nA_r, nA_c, nS = decls[2][2], decls[2][3], decls[3][2]

    has_s2 = any(d[0] == "scalar2" for d in decls)
    has_v2 = any(d[0] == "vec2" for d in decls)

    def a_vref():
        c = rng.random()
        if has_v2 and c < 0.1:
            return ["vec2", X]
        if c < 0.08 and n >= 2:
            # a slice of a slice
            for _ in range(20):
                a_, s_ = rng.choice([None, 0, 1, -2]), rng.choice([None, 1, 2, -1])
                inner = range(n)[slice(a_, None, s_)]
                a2, s2 = rng.choice([None, 0, 1]), rng.choice([None, 1, -1, 2])
                if len(inner) and len(inner[slice(a2, None, s2)]):
                    return ["slice2", X, a_, None, s_, a2, None, s2]
        if c < 0.14 and nA_c >= 1:
            t_ = (rng.choice([None, 0]), None, rng.choice([None, -1, 2]))
            return ["rowslice", ["mat", A], rng.randint(0, nA_r - 1), *t_]
        if c < 0.18:
            t_ = (rng.choice([None, 0]), None, rng.choice([None, -1, 2]))
            return ["colslice", ["mat", S], *t_, rng.randint(0, nS - 1)]
        if c < 0.25:
            return ["vec", X]
        if c < 0.5:
            b = lambda: rng.choice([None, None] + list(range(-n, n + 1)))  # noqa: E731
            for _ in range(20):
                a_, b_, s_ = b(), b(), rng.choice([None, 1, 2, -1, -2, 3])
                if len(range(n)[slice(a_, b_, s_)]) > 0:
                    return ["slice", X, a_, b_, s_]
            return ["slice", X, None, None, -1]
        if c < 0.6:
            return ["vec", Y]
        m = rng.choice([["mat", A], ["T", ["mat", A]], ["mat", S], ["T", ["mat", S]]])
        r_, c_ = (nA_r, nA_c) if m in (["mat", A],) else (nA_c, nA_r) if m[0] == "T" and m[1] == ["mat", A] else (nS, nS)
        cc = rng.random()
        if cc < 0.4:
            return ["row", m, rng.randint(0, r_ - 1)]
        if cc < 0.8:
            return ["col", m, rng.randint(0, c_ - 1)]
        if r_ == c_:
            return ["diag", m]
        return ["row", m, 0]

    def vector_term(v):
        c = rng.random()
        if c < 0.2:
            return ["vsum", v]
        if c < 0.35:
            return ["lc", v]
        if c < 0.5:
            return ["dotself", v]
        if c < 0.62:
            return ["ps", v, rng.choice([2, 3, 1])]
        if c < 0.72:
            return ["us", v, rng.choice(["abs", "sin"])]
        if c < 0.8:
            return ["mul", 2.0, ["vsum", v]]
        if c < 0.86:
            return ["add", ["vsum", v], ["param", "p"]]
        if c < 0.93:
            return ["neg", ["dotself", v]]
        return ["sub", ["lc", v], ["const", 3.0]]

    def wrap(t, depth=2):
        """nested wrappers (±const, k·, /k, neg, const − ·, square, deep chains) around a node"""
        for _ in range(rng.randint(0, depth)):
            c = rng.random()
            t = (["mul", 2.0, t] if c < 0.15 else ["rmul", -0.5, t] if c < 0.3 else ["div", t, 4.0] if c < 0.42 else ["rsub", 3.0, t] if c < 0.54
                 else ["radd", 1.0, t] if c < 0.64 else ["neg", t] if c < 0.76 else ["sq", t] if c < 0.84 else ["add", t, ["cc"]] if c < 0.9
                 else ["deep", t, rng.choice([3, 399, 400, 401])] if c < 0.96 else ["rdeep", t, rng.choice([3, 300])])
        return t

    _vector_term = vector_term

    def vector_term(v):                                                    # noqa: F811
        c = rng.random()
        if c < 0.08:
            return ["mvpsum", v, "lin"]
        return wrap(_vector_term(v)) if c < 0.45 else _vector_term(v)

    def general_term():
        c = rng.random()
        if has_s2 and c < 0.06:
            return ["scalar2", scal[0]]
        if c < 0.03:
            return ["zmul", rng.choice(scal)]
        if c < 0.06:
            return ["pow0", rng.choice(scal)]
        if c < 0.08:
            return ["mvpsum", a_vref(), "sq"]
        if c < 0.3:
            return vector_term(a_vref())
        if c < 0.4:
            return ["scalar", rng.choice(scal)]
        if c < 0.5:
            return ["mul", rng.choice([2.0, -1.0, 0.5]), ["scalar", rng.choice(scal)]]
        if c < 0.56:
            return ["dot", ["vec", X], ["slice", X, None, None, -1]]
        if c < 0.62:
            return ["esum", rng.choice([["vadd", a_vref(), 1.0], ["vmul", 2.0, a_vref()], ["vneg", a_vref()]])]
        if c < 0.68:
            return rng.choice([["l2", a_vref()], ["l1", a_vref()], ["qf", a_vref()], ["qfrw", a_vref()]])
        if c < 0.76:
            return rng.choice([["msum", ["mat", A]], ["msum", ["mat", S]], ["msum", ["T", ["mat", A]]], ["mesum", ["mat", S]],
                               ["frob", ["mat", A]], ["frob", ["mat", S]], ["trace", ["mat", S]]])
        if c < 0.82:
            return ["elem", ["vec", X], rng.randint(-n, n - 1)]
        if c < 0.88:
            return ["melem", ["mat", S], rng.randint(0, nS - 1), rng.randint(0, nS - 1)]
        if c < 0.92:
            return ["sq", ["scalar", rng.choice(scal)]]
        if c < 0.96:
            return ["sin", ["add", ["scalar", rng.choice(scal)], ["const", 1.0]]]
        return ["dotve", ["vec", X], ["vmul", 2.0, ["vec", X]]]

    cons = []
    if kind in ("shortcut", "nearmiss"):
        v = a_vref()
        obj = [vector_term(v) for _ in range(rng.randint(1, 3))]
        if rng.random() < 0.3:
            obj.append(["const", 1.0])
        if rng.random() < 0.3:
            obj.append(["esum", ["vadd", v, 1.0]])       # VectorExpressionSum: elements are pushed, scalar Variables end the shortcut
        for _ in range(rng.randint(0, 3)):
            cons.append([vector_term(v), rng.choice(["<=", ">=", "=="]), rng.choice([1.0, 0, 2.5])])
        if kind == "nearmiss":
            c = rng.random()
            if c < 0.25:
                # the same elements through a second view object: equal lists, different identity
                v2 = ["slice", v[1], None, None, None] if v[0] == "vec" else list(v) + ["again"]
                cons.append([["vsum", v2], "<=", 1.0])
            elif c < 0.5:
                cons.append([["scalar", rng.choice(scal)], ">=", 0])
            elif c < 0.7:
                obj.append(["l2", v])
            elif c < 0.85:
                obj.append(["elem", ["vec", X], 0])
            else:
                cons.append([["vsum", ["vec", Y]], "<=", 4.0])
    else:
        obj = [general_term() for _ in range(rng.randint(1, 4))]
        for _ in range(rng.randint(0, 4)):
            cons.append([general_term(), rng.choice(["<=", ">=", "=="]), rng.choice([1.0, 0, 2.5, -1])])
        if rng.random() < 0.1:
            obj = None if cons else obj
        if rng.random() < 0.06:
            obj = [["deep", ["scalar", scal[0]], 450], ["scalar", scal[-1]]]
    return {"kind": kind, "decls": decls, "objective": obj, "constraints": cons, "maximize": rng.random() < 0.3,
            "share": rng.random() < 0.3}


FIXED_SPECS = [
    # F17: reversed slice through the shortcut
    {"kind": "F17", "decls": [["vec", "x", 3, None, None]], "objective": [["vsum", ["slice", "x", None, None, -1]]], "constraints": []},
    # F18: x1 / x01
    {"kind": "F18", "decls": [["scalar", "x1", None, None], ["scalar", "x01", 0.0, None], ["scalar", "x001", None, 1.0]],
     "objective": [["scalar", "x01"], ["scalar", "x1"], ["scalar", "x001"]], "constraints": []},
    {"kind": "x10", "decls": [["vec", "x", 12, 0.0, 1.0]], "objective": [["dotself", ["vec", "x"]]],
     "constraints": [[["vsum", ["vec", "x"]], "==", 1.0]]},
    {"kind": "stepped", "decls": [["vec", "x", 11, None, None]], "objective": [["dotself", ["slice", "x", 10, None, -3]]],
     "constraints": [[["lc", ["slice", "x", 10, None, -3]], "<=", 1.0]]},
    {"kind": "const-only", "decls": [["param", "p", 2.0]], "objective": [["const", 1.0], ["param", "p"]], "constraints": []},
    {"kind": "no-objective", "decls": [["vec", "x", 2, None, None]], "objective": None, "constraints": [[["vsum", ["vec", "x"]], "<=", 1.0]]},
    {"kind": "sym", "decls": [["mat", "S", 3, 3, True, 0.0, None]], "objective": [["msum", ["mat", "S"]], ["frob", ["mat", "S"]]],
     "constraints": [[["trace", ["mat", "S"]], "==", 1.0], [["vsum", ["col", ["T", ["mat", "S"]], 1]], "<=", 2.0]]},
    {"kind": "matrix-digits", "decls": [["mat", "A", 2, 11, False, None, None]], "objective": [["msum", ["T", ["mat", "A"]]]], "constraints": []},
]


# ---- edit histories: the model is edited AFTER Problem.variables was read.  The objective is replaced (minimize / maximize
# again) by one that mentions FEWER variables, other ones (same count), the same ones, more, or none; constraints over known
# and over new variables are added singly and as lists; in every order; `variables` / `n_variables` / `get_bounds` / repr /
# summary / a solve / the private predicates solve() consults are read between the edits — or nothing is read, so that an
# edit meets a populated cache as often as an empty one.  The harness keeps its own record of the CURRENT objective and
# constraints; at every read the problem must list exactly the naturally sorted set of variables of that record (a variable
# that no longer occurs disappears), with their declared bounds, as keys of Solution.values, and agree with a fresh Problem
# built on the record.


EDIT_READS = ["variables", "n_variables", "get_bounds", "repr", "summary", "solve", "simple_bounds", "none"]


def edit_pieces(spec):
    """term specs over the objects a spec declares: its own objective / constraint terms, and narrow ones (one element, a
    sub-slice, one row / column / entry, one scalar) so that a later objective or constraint can mention fewer, other or
    more variables than the earlier ones.  -> (pieces that mention a variable, variable-free pieces)"""
    ps, seen = [], set()

    def add(t):
        k = json.dumps(t)
        if k not in seen:
            seen.add(k)
            ps.append(t)
    for t in (spec["objective"] or []):
        add(t)
    for t, _s, _r in spec["constraints"]:
        if t[0] != "matcons":
            add(t)
    free = [["const", 1.0], ["cc"]]
    for d in spec["decls"]:
        k, nm = d[0], d[1]
        if k == "vec":
            n = d[2]
            V = ["vec", nm]
            add(["vsum", V])
            add(["lc", V])
            add(["elem", V, 0])
            add(["elem", V, n - 1])
            if n >= 2:
                add(["vsum", ["slice", nm, 0, (n + 1) // 2, None]])
                add(["lc", ["slice", nm, n // 2, None, None]])
                add(["dotself", ["slice", nm, None, None, -1]])
                add(["vsum", ["slice", nm, None, None, 2]])
                add(["elem", V, n // 2])
        elif k == "mat":
            r, c = d[2], d[3]
            Mx = ["mat", nm]
            add(["msum", Mx])
            add(["melem", Mx, 0, 0])
            add(["melem", Mx, r - 1, c - 1])
            add(["vsum", ["row", Mx, r - 1]])
            add(["lc", ["col", Mx, 0]])
            if r == c:
                add(["trace", Mx])
        elif k == "scalar":
            add(["scalar", nm])
            add(["mul", 2.0, ["scalar", nm]])
            add(["sq", ["scalar", nm]])
        elif k == "param":
            free.append(["param", nm])
    return ps, free


# ---- bounds re-declared after they were reported.  `lb` / `ub` are plain attributes of the Variable objects (scalars, the
# elements of a VectorVariable, the entries of a MatrixVariable); assigning them is not a structural edit of the Problem (no
# minimize / maximize / subject_to is involved), so whatever the problem remembered from an earlier read must not survive it.
# A step ["bnd", target, "lb" | "ub" | "both", value(s)] assigns on the object(s) `target` denotes; values are JSON-safe
# (None, numbers, "inf", "-inf").  The harness updates its OWN table name -> (lb, ub) (Built.decl_bounds) from the step,
# never from the objects; every later read must report that table, position by position.


BOUND_VALUES_LB = [None, "-inf", 0, 0.5, -5.0, 3.0, -1e8, 1e-9, 7, 1e6]
BOUND_VALUES_UB = [None, "inf", 0, 0.5, 5.0, 3.0, 1e8, -1e-9, -7, -1e6]
BOUND_BOTH = [[None, None], ["-inf", "inf"], [2.0, 2.0], [0, 0], [-3, -3], [5.0, 1.0], [1e6, -1e6], ["inf", "-inf"], [0.25, 0.75], [None, "inf"],
              ["-inf", None], [-1.5, None], [None, 1.5], [0.0, 1.0]]      # free, infinite, pinned, crossed, ordinary, one-sided


def dec_bound(v):
    return float(v) if isinstance(v, str) else v


def bound_targets(spec):
    """term specs that denote ONE Variable object of a declared scalar / vector / matrix (first, last, middle positions)"""
    out = []
    for d in spec["decls"]:
        k, nm = d[0], d[1]
        if k == "scalar":
            out.append(["scalar", nm])
        elif k == "vec":
            n = d[2]
            for i in sorted({0, n // 2, n - 1}):
                out.append(["elem", ["vec", nm], i])
        elif k == "mat":
            r, c = d[2], d[3]
            for i, j in sorted({(0, 0), (r - 1, c - 1), (r - 1, 0), (0, c - 1), (r // 2, c // 2)}):
                out.append(["melem", ["mat", nm], i, j])
    return out


def gen_bound_step(rng, targets):
    t = rng.choice(targets)
    k = rng.random()
    if k < 0.35:
        return ["bnd", t, "lb", rng.choice(BOUND_VALUES_LB)]
    if k < 0.7:
        return ["bnd", t, "ub", rng.choice(BOUND_VALUES_UB)]
    return ["bnd", t, "both"] + list(rng.choice(BOUND_BOTH))


def apply_bound_step(b, st):
    """assign on the real object(s) and update the harness's own record; -> name of the variable"""
    v = b.term(st[1])
    objs = [v]
    # a same-name clone (a second object declared identically) is re-declared identically: the property speaks of names
    clone = None
    if st[1][0] == "scalar" and ("s2:" + st[1][1]) in b.objs:
        clone = b.objs["s2:" + st[1][1]]
    elif st[1][0] == "elem" and ("v2:" + st[1][1][1]) in b.objs:
        clone = b.objs["v2:" + st[1][1][1]][st[1][2]]
    if clone is not None:
        objs.append(clone)
    lo, hi = b.decl_bounds[v.name]
    if st[2] in ("lb", "both"):
        lo = dec_bound(st[3])
    if st[2] == "ub":
        hi = dec_bound(st[3])
    elif st[2] == "both":
        hi = dec_bound(st[4])
    for o in objs:
        if st[2] in ("lb", "both"):
            o.lb = lo
        if st[2] in ("ub", "both"):
            o.ub = hi
    b.decl_bounds[v.name] = (lo, hi)
    return v.name


def bound_history_cover():
    """(model: general path / single-vector shortcut) x (which reader reported first, or none) x (pattern: re-declare between two
    reads with no structural edit; several re-declarations and back; a structural edit that does not mention the variable before
    the next read; one that mentions it, then re-declare; re-declare before anything was read; a variable that enters the problem
    only later) with targets (scalar, first / last / middle vector element, matrix entry, mirrored entry of a symmetric matrix,
    element of an integer vector, a variable the problem does not mention) and new values (None, +-inf, pinned, crossed,
    one-sided, ordinary) cycling through all of them: [(spec, steps)]"""
    decls = [["vec", "x", 5, 0.0, 10.0], ["scalar", "y", -1.0, 1.0], ["scalar", "t", None, None], ["mat", "A", 2, 3, False, 0.0, 1.0],
             ["mat", "S", 3, 3, True, None, 4.0], ["vec", "k10", 3, 0, 5, "integer"], ["scalar", "u2", 0.0, None], ["scalar", "bz", None, None, "binary"],
             ["param", "p", 1.5]]
    X, A, S_, K = ["vec", "x"], ["mat", "A"], ["mat", "S"], ["vec", "k10"]
    y, t_, u = ["scalar", "y"], ["scalar", "t"], ["scalar", "u2"]
    models = [
        {"kind": "bound-history", "decls": decls, "objective": [["lc", X], ["mul", 2.0, y], ["msum", A], ["trace", S_], ["elem", K, 1], ["scalar", "bz"]],
         "constraints": [[["add", ["vsum", X], y], ">=", 1.0], [["melem", S_, 2, 0], "<=", 3.0]]},
        {"kind": "bound-history", "decls": decls, "objective": [["vsum", X]], "constraints": [[["lc", X], "<=", 1.0]], "maximize": True},   # shortcut path
        {"kind": "bound-history", "decls": decls, "objective": [t_, ["sq", y]], "constraints": []},
    ]
    targets = [
        [y, ["elem", X, 0], ["elem", X, 4], ["elem", X, 2], ["melem", A, 1, 2], ["melem", S_, 2, 0], ["melem", S_, 1, 1], ["elem", K, 1], ["scalar", "bz"], u],
        [["elem", X, 0], ["elem", X, 4], ["elem", X, 2], ["elem", X, 1], y],
        [t_, y, u, ["elem", X, 3]],
    ]
    changes = ([["lb", v] for v in BOUND_VALUES_LB] + [["ub", v] for v in BOUND_VALUES_UB] + [["both"] + p for p in BOUND_BOTH])
    con_other = ["con", "single", [[["add", t_, ["param", "p"]], "<=", 9.0]]]
    con_u = ["con", "list", [[u, ">=", 0], [["melem", A, 0, 0], "<=", 1.0]]]
    lasts = ["get_bounds", "variables", "solve", "n_variables", "summary", "repr"]
    out, n = [], 0

    def bnd(mi, j):
        tg = targets[mi][j % len(targets[mi])]
        return ["bnd", tg] + changes[(3 * j + mi) % len(changes)]

    for mi, spec in enumerate(models):
        for ri, rd in enumerate(EDIT_READS):
            first = [] if rd == "none" else [["read", rd]]
            for pat in range(6):
                n += 1
                last = ["read", lasts[n % len(lasts)]]
                gb = ["read", "get_bounds"]
                if pat == 0:
                    steps = first + [bnd(mi, n), last]
                elif pat == 1:
                    steps = first + [bnd(mi, n), bnd(mi, n + 3), last, bnd(mi, n)[:2] + ["both", None, None], gb]
                elif pat == 2:
                    steps = first + [bnd(mi, n), con_other, last, bnd(mi, n + 1), gb]
                elif pat == 3:
                    steps = first + [con_u, last, ["bnd", u] + changes[(n * 5) % len(changes)], gb, bnd(mi, n), last]
                elif pat == 4:
                    steps = [bnd(mi, n)] + first + [bnd(mi, n + 2), last, ["obj", "min", spec["objective"]], bnd(mi, n + 2)[:2] + ["ub", 12.5], gb]
                else:
                    steps = first + [["bnd", u, "lb", -2.0], last, con_u, gb, ["bnd", u, "both", "-inf", 8.0], ["bnd", ["melem", A, 0, 0], "ub", None], last]
                out.append((spec, steps))
    return out


def gen_edit_history(rng, spec):
    """a history of edits and reads on the problem of `spec` (built with its own objective and constraints):
    ["obj", "min" | "max", [terms]] replaces the objective, ["con", "single" | "list", [[term, sense, rhs], ...]] adds
    constraints, ["bnd", target, which, value(s)] re-declares bounds of one variable (not a structural edit),
    ["read", kind] observes (kind = which reader touches the problem first; "none" = nothing is read)"""
    pieces, free = edit_pieces(spec)
    if not pieces:
        return []
    btargets = bound_targets(spec)
    cur = list(spec["objective"] or [])
    steps = []
    if rng.random() < 0.85:
        steps.append(["read", rng.choice(EDIT_READS[:-1])])
    for _ in range(rng.randint(2, 6)):
        if btargets and rng.random() < 0.35:
            for _k in range(rng.choice([1, 1, 2, 3])):
                steps.append(gen_bound_step(rng, btargets))
            if rng.random() < 0.8:
                steps.append(["read", rng.choice(EDIT_READS)])
            continue
        if rng.random() < 0.55:
            k = rng.random()
            if k < 0.3 and len(cur) >= 2:
                terms = rng.sample(cur, rng.randint(1, len(cur) - 1))                       # fewer terms of the same objective
            elif k < 0.4 and cur:
                terms = list(cur)                                                           # the same objective again (sense flip)
            elif k < 0.48:
                terms = [rng.choice(free)]                                                  # no variable at all
            elif k < 0.62 and cur:
                terms = cur + [rng.choice(pieces)]                                          # a superset
            else:
                terms = rng.sample(pieces, min(len(pieces), rng.choice([1, 1, 2, 3])))      # other ones / narrower ones
                if rng.random() < 0.2:
                    terms.append(rng.choice(free))
            steps.append(["obj", rng.choice(["min", "max"]), terms])
            cur = terms
        else:
            cons = [[rng.choice(pieces), rng.choice(["<=", ">=", "=="]), rng.choice([1.0, 0, 2.5])] for _ in range(rng.choice([1, 1, 2, 3]))]
            steps.append(["con", "list" if len(cons) > 1 or rng.random() < 0.3 else "single", cons])
        if rng.random() < 0.7:
            steps.append(["read", rng.choice(EDIT_READS)])
    steps.append(["read", rng.choice(["variables", "n_variables", "get_bounds", "solve"])])
    return steps


def edit_history_cover():
    """fixed models x (how the replaced objective relates to the old one) x (what is added afterwards / before) x (which
    reader materialised the list) x (whether something is read between the edits): [(spec, steps)]"""
    decls = [["vec", "x", 6, 0.0, 2.0], ["vec", "w10", 3, None, 1.0], ["scalar", "t", 0.0, 7.0], ["scalar", "x1", -3.0, 4.0],
             ["scalar", "x01", None, None], ["scalar", "w2", 0.0, None], ["mat", "A", 2, 2, False, 0.0, 1.0], ["param", "p", 1.5]]
    X, W, A = ["vec", "x"], ["vec", "w10"], ["mat", "A"]
    t_, x1, x01, w2 = ["scalar", "t"], ["scalar", "x1"], ["scalar", "x01"], ["scalar", "w2"]
    # (first objective, first constraints, replacing objective)
    models = [
        ([["lc", X], ["mul", 100.0, t_]], [[["vsum", X], "==", 1.0]], [["lc", X]]),                          # a penalty variable leaves
        ([["vsum", X]], [[["add", ["elem", X, 0], ["elem", X, 1]], "<=", 1.0]], [["vsum", ["slice", "x", 0, 2, None]]]),   # sweep to a sub-vector
        ([["vsum", X]], [], [["vsum", W]]),                                                                       # another vector
        ([t_, x1], [], [x01, t_]),                                                                                # same count, other set
        ([["vsum", X], t_], [[w2, ">=", 0]], [["const", 1.0]]),                                                   # no variable left in it
        ([t_], [[["msum", A], "<=", 2.5]], [t_, ["msum", A], x1]),                                                # a superset
        ([["dotself", X], ["sq", x1]], [[["vsum", W], "<=", 1.0]], [["dotself", ["slice", "x", None, None, -2]]]),
        ([["msum", A], ["vsum", W]], [], [["melem", A, 1, 0], ["elem", W, 2], ["param", "p"]]),                  # single entries of containers
        ([x1, x01, w2, t_], [[["elem", X, 3], ">=", 0]], [w2]),
        ([["vsum", X]], [], [["vsum", X]]),                                                                       # the same again
    ]
    known_con = ["con", "single", [[["sub", ["elem", X, 0], ["elem", X, 1]], "<=", 0.5]]]
    new_con = ["con", "list", [[["scalar", "w2"], "<=", 1.0], [["melem", A, 0, 1], ">=", 0]]]
    out = []
    for mi, (obj0, cons0, obj1) in enumerate(models):
        spec = {"kind": "edit-history", "decls": decls, "objective": obj0, "constraints": cons0, "maximize": mi % 3 == 1}
        for ri, rd in enumerate(EDIT_READS[:-1]):
            sense = ("min", "max")[(mi + ri) % 2]
            mid = EDIT_READS[(mi + 2 * ri) % len(EDIT_READS)]
            last = ["variables", "solve", "get_bounds", "n_variables"][(mi + ri) % 4]
            out.append((spec, [["read", rd], ["obj", sense, obj1], ["read", last]]))
            out.append((spec, [["read", rd], ["obj", sense, obj1], ["read", mid], known_con, ["read", last]]))
            out.append((spec, [["read", rd], known_con, ["read", mid], ["obj", sense, obj1], ["read", last], new_con, ["read", "variables"]]))
            out.append((spec, [["read", rd], new_con, ["obj", sense, obj1], ["read", mid], ["obj", sense, obj0], ["read", last]]))
            out.append((spec, [["obj", sense, obj1], ["read", rd], ["obj", "max", obj0], known_con, ["obj", "min", obj1], ["read", last]]))
    return out


def run_edit_history(b, steps, rep=None):
    """apply the steps to b.problem, keeping an own record of the current objective / constraints; judge every read"""
    import optyx

    prob = b.problem
    cur = {"obj": b.objective, "sense": "max" if b.spec.get("maximize") else "min", "cons": list(b.con_objs)}
    fails, kept = [], []
    redeclared = set()          # names whose bounds were re-assigned during the history

    def count(k):
        if rep is not None:
            rep.histogram[k] = rep.histogram.get(k, 0) + 1

    def judge(i, kind):
        vs = []
        if cur["obj"] is not None:
            brute_vars(cur["obj"], vs)
        for c in cur["cons"]:
            brute_vars(c.expr, vs)
        want = sorted({v.name for v in vs}, key=natural_key)
        info = {"step": i, "first_read": kind, "edit_history": steps}
        keys = None
        with warnings.catch_warnings(), np.errstate(all="ignore"):
            warnings.simplefilter("ignore")
            # the reader that touches the edited problem first
            if kind == "n_variables":
                _ = prob.n_variables
            elif kind == "get_bounds":
                _ = prob.get_bounds()
            elif kind == "repr":
                _ = repr(prob)
            elif kind == "summary":
                _ = prob.summary()
            elif kind == "simple_bounds":
                _ = prob._only_simple_bounds()
            elif kind == "solve" and cur["obj"] is not None and want:
                try:
                    keys = solution_keys(b) or []
                    count("edit-history:solves")
                except RecursionError:
                    keys = None          # compiling a chain several hundred operators deep: C15's subject
                except Exception as ex:  # noqa: BLE001
                    keys = None          # what the (stubbed) solve makes of the model is not this property
                    if rep is not None:
                        k = "edit-history-solve-raised:" + type(ex).__name__
                        rep.skipped[k] = rep.skipped.get(k, 0) + 1
            got_vs = prob.variables
            names = [v.name for v in got_vs]
            nv = prob.n_variables
            bs = prob.get_bounds()
            again = [v.name for v in prob.variables]
            # a fresh Problem on the harness's record of the current model
            fp = optyx.Problem()
            if cur["obj"] is not None:
                (fp.maximize if cur["sense"] == "max" else fp.minimize)(cur["obj"])
            if cur["cons"]:
                fp.subject_to(list(cur["cons"]))
            fresh = [v.name for v in fp.variables]
            fresh_bounds = fp.get_bounds()
        kept.append((got_vs, list(got_vs)))
        kept.append((bs, list(bs)))
        if names != want:
            stale = [n for n in names if n not in set(want)]
            missing = [n for n in want if n not in set(names)]
            fails.append(dict(info, what="after edits, Problem.variables is not the natural-sorted set of variables of the CURRENT objective and "
                                         "constraints" + (" (lists variables that no longer occur)" if stale else "")
                                         + (" (misses variables)" if missing else ""),
                              got=names[:40], want=want[:40], stale=stale[:10], missing=missing[:10]))
        if nv != len(want):
            fails.append(dict(info, what="after edits, n_variables is not the number of variables of the current model", got=nv, want=len(want)))
        if again != names:
            fails.append(dict(info, what="after edits, two consecutive reads of Problem.variables differ", got=again[:40], want=names[:40]))
        wb = [[None if x is None else float(x) for x in b.decl_bounds.get(nm, ("?", "?"))] for nm in want]
        gb = [[None if x is None else float(x) for x in p] for p in bs]
        if gb != wb:
            pos = [[j, want[j] if j < len(want) else None, gb[j] if j < len(gb) else None, wb[j] if j < len(wb) else None]
                   for j in range(max(len(gb), len(wb))) if j >= len(gb) or j >= len(wb) or gb[j] != wb[j]]
            fails.append(dict(info, what="get_bounds does not report the bounds the variables of the current model have NOW (the harness's own record "
                                         "of the declarations and of every later .lb / .ub assignment)" if redeclared else
                                         "after edits, get_bounds is not the declared bounds of the current model's variables",
                              got=str(gb)[:200], want=str(wb)[:200], positions=pos[:8], redeclared=sorted(redeclared)[:8]))
        fb = [[None if x is None else float(x) for x in p] for p in fresh_bounds]
        if fresh == names and fb != gb:
            fails.append(dict(info, what="get_bounds differs from that of a fresh Problem with the same objective and constraints",
                              got=str(gb)[:200], want=str(fb)[:200], record=str(wb)[:200], redeclared=sorted(redeclared)[:8]))
        if keys is not None and keys != want:
            fails.append(dict(info, what="after edits, the keys of Solution.values are not the current model's variables", got=keys[:40], want=want[:40]))
        if fresh != names:
            fails.append(dict(info, what="after edits, Problem.variables differs from a fresh Problem with the same objective and constraints",
                              got=names[:40], want=fresh[:40]))

    for i, st in enumerate(steps):
        if st[0] == "obj":
            e = b.term(st[2][0])
            for t in st[2][1:]:
                e = e + b.term(t)
            (prob.maximize if st[1] == "max" else prob.minimize)(e)
            cur["obj"], cur["sense"] = e, st[1]
            count("edit-history:objective-replaced")
        elif st[0] == "con":
            cs = []
            for t, sense, rhs in st[2]:
                e = b.term(t)
                cs.append((e <= rhs) if sense == "<=" else (e >= rhs) if sense == ">=" else e.eq(rhs))
            if st[1] == "single":
                for c in cs:
                    prob.subject_to(c)
            else:
                prob.subject_to(list(cs))
            cur["cons"].extend(cs)
            count("edit-history:constraints-added")
        elif st[0] == "bnd":
            redeclared.add(apply_bound_step(b, st))
            count("edit-history:bounds-redeclared")
            count("edit-history:bounds-redeclared-" + ("after-read" if kept else "before-any-read"))
        elif st[1] != "none":
            count("edit-history:read-" + st[1])
            judge(i, st[1])
            if fails:
                break
    for obj, snap in kept:
        if len(obj) != len(snap) or any(a is not b_ and a != b_ for a, b_ in zip(obj, snap)):
            fails.append({"what": "a variables / bounds list returned before an edit was changed by later edits", "edit_history": steps})
            break
    return fails[:3]


def edit_history_cases(rng, n_random):
    """[(spec, construction order, steps)]: the fixed cover and `n_random` generated specs with a generated history each"""
    out = [(spec, 0, steps) for spec, steps in edit_history_cover()] + [(spec, 0, steps) for spec, steps in bound_history_cover()]
    kinds = ["shortcut", "shortcut", "nearmiss", "general", "general", "general", "collision", "names", "names", "matview"]
    for _ in range(n_random):
        spec = gen_spec(rng, force=rng.choice(kinds))
        if spec["objective"] is None and rng.random() < 0.5:
            continue
        out.append((spec, rng.choice([0, 1, 2, 3]), gen_edit_history(rng, spec)))
    return out


def edit_history_family(rng, n_random, rep=None, first_only=False):
    fails = []
    for spec, o, steps in edit_history_cases(rng, n_random):
        if not steps:
            continue
        try:
            b = Built(spec, o)
        except Exception:  # noqa: BLE001
            if rep is not None:
                rep.skipped["spec-build-error"] = rep.skipped.get("spec-build-error", 0) + 1
            continue
        if rep is not None:
            rep.histogram["history:edit-sequences"] = rep.histogram.get("history:edit-sequences", 0) + 1
        try:
            fs = run_edit_history(b, steps, rep)
        except (RecursionError, Unsupported) as ex:
            # repr / traversal of a chain several hundred operators deep (C15's subject), or a node the harness does not know
            if rep is not None:
                k = "edit-history:" + type(ex).__name__
                rep.skipped[k] = rep.skipped.get(k, 0) + 1
            continue
        except Exception as ex:  # noqa: BLE001
            fs = [{"what": "an edit / read of the history raised", "error": f"{type(ex).__name__}: {ex}"[:200], "edit_history": steps}]
        for f in fs[:1]:
            f.update({"spec": spec, "order": o})
            fails.append(f)
        if fails and first_only:
            break
    return fails


# ------------------------------------------------------------------ worker (fresh interpreter, given PYTHONHASHSEED)


def worker(path):
    core.use_repo()
    data = json.load(open(path))
    out = []
    for spec, orders in data:
        res = []
        for o in orders:
            try:
                res.append(observe(Built(spec, o)))
            except Exception as ex:  # noqa: BLE001
                res.append({"error": f"{type(ex).__name__}: {ex}"[:200]})
        out.append(res)
    print("RESULT " + json.dumps(out))


def run_workers(batch, seeds):
    """batch: [(spec, orders)] -> {hashseed: results}"""
    with tempfile.NamedTemporaryFile("w", suffix=".json", delete=False) as f:
        json.dump(batch, f)
        path = f.name
    procs = {}
    try:
        for s in seeds:
            env = dict(os.environ, PYTHONHASHSEED=str(s), PYTHONDONTWRITEBYTECODE="1")
            procs[s] = subprocess.Popen([sys.executable, os.path.abspath(__file__), path], env=env, stdout=subprocess.PIPE,
                                        stderr=subprocess.PIPE, text=True)
        res = {}
        for s, p in procs.items():
            out, err = p.communicate(timeout=1800)
            line = [l for l in out.splitlines() if l.startswith("RESULT ")]
            if p.returncode != 0 or not line:
                raise RuntimeError(f"hash-seed worker {s} failed: {err[-600:]}")
            res[s] = json.loads(line[-1][7:])
        return res
    finally:
        os.remove(path)


# ------------------------------------------------------------------ the check


def obj_text(e, S):
    return "none" if e is None else S.expr(e)


def run(ctx) -> core.Report:
    rng = ctx["rng"]
    thorough = ctx["tier"] == "thorough" or ctx["escalate"]
    rep = core.Report(rule="fixed specs (F17, F18, digit runs, stepped / reversed slices, symmetric and transposed matrices, no objective, "
                           "constants only) + label-collision family (distinct views with equal name and length, different elements, "
                           "inside the single-vector shortcut) + name-grammar family (digit runs of different lengths, leading zeros, "
                           "mid-name digits, prefixes, brackets in the BASE names of scalars, vectors and matrices that all occur in one "
                           "problem) + matrix-view family (every 2-D slice form of symmetric and general matrices, of their transposes and "
                           "transposed afterwards, through sum / Frobenius norm / element-wise ops / trace / diag / rows / columns / matrix "
                           "constraints) + edit histories (objective replaced by one over fewer / other / the same / more / no variables, constraints over known and new "
                           "variables added singly and as lists, in every order, with variables / n_variables / get_bounds / repr / summary / solve / private predicates "
                           "or nothing read between the edits; bounds of scalars / vector elements / matrix entries re-assigned (.lb / .ub: None, +-inf, pinned, crossed) between "
                           "the reads with and without structural edits; judged at every read against the harness's own record of the current model and bounds and a fresh Problem) "
                           "+ histories (edit after read; every read-only helper of Problem, enumerated from the class, and the Solution "
                           "accessors interleaved between build / solve / edit, lists returned earlier re-checked) + depth x operand position (chains "
                           "399 .. 700 deep with one variable only in an exponent / right operand / under a function / inside a vector or "
                           "matrix node / as right child / deepest leaf; both variable walkers on every tree) + seeded random problem specs; each built in several construction orders in-process and "
                           "under several PYTHONHASHSEEDs; non-trivial = distinct specs with at least two variables")
    n_rand = 6000 if thorough else 700
    specs = [dict(s) for s in FIXED_SPECS] + collision_cover() + names_cover() + matview_cover() + deeppos_cover(thorough) + [gen_spec(rng) for _ in range(n_rand)]
    orders = [0, 1, 2, 3] if not thorough else [0, 1, 2, 3, 4, 5]
    hashseeds = [0, 1, 2] if not thorough else [0, 1, 2, 3, 4, 5, 6, 7]

    from optyx.problem import _try_get_single_vector_source, _natural_sort_key
    import optyx

    lines, metas = [], []
    rep.mismatch_specs = []
    for si, spec in enumerate(specs):
        want0 = None
        for o in (orders[:2] if spec["kind"] == "deeppos" else orders):
            try:
                b = Built(spec, o)
                want, occ = expected_names(b)
            except Exception as ex:  # noqa: BLE001
                rep.skipped["spec-build-error"] = rep.skipped.get("spec-build-error", 0) + 1
                rep.notes.append(f"spec build error: {type(ex).__name__}: {ex}"[:200])
                break
            try:
                got = observe(b)
            except Exception as ex:  # noqa: BLE001
                rep.oracle_failures.append({"what": "Problem.variables raised", "error": f"{type(ex).__name__}: {ex}"[:200],
                                            "spec": spec, "order": o})
                continue
            key = spec["kind"]
            rep.histogram[key] = rep.histogram.get(key, 0) + 1
            # --- the property oracle
            if want0 is None:
                want0 = want
            problems = []
            if got["names"] != want:
                problems.append("variables differ from the natural-sorted set of mentioned variables")
            if want != want0:
                problems.append("harness bug: expected set depends on construction order")
            if len(set(got["names"])) != len(got["names"]):
                problems.append("a name is listed twice")
            if got["again"] != got["names"] or got["n"] != len(got["names"]):
                problems.append("second read / n_variables disagree")
            wb = [[None if x is None else float(x) for x in b.decl_bounds.get(nm, ("?", "?"))] for nm in got["names"]]
            if got["bounds"] != wb:
                problems.append("get_bounds differs from the declared bounds")
            for p in problems:
                rep.oracle_failures.append({"what": p, "spec": spec, "order": o, "got": got["names"][:40], "want": want[:40],
                                            "bounds": got["bounds"][:10]})
            if len(want) >= 2:
                rep.nontrivial.add(json.dumps(spec, sort_keys=True))
            # the variable collectors themselves, and Problem.variables with the explicit-stack walker forced on every tree
            if o == 0:
                for f in collector_checks(b, spec, rep):
                    f.update({"spec": spec, "order": o})
                    rep.oracle_failures.append(f)
            # further outcome channels / histories on a sample of the specs
            if o == 2 and si % 4 == 0 and b.objective is not None and want:
                try:
                    keys = solution_keys(b)
                except RecursionError:
                    keys = want     # deep chains through compile / gradient: C15's subject
                    rep.skipped["solve-recursion-depth (C15)"] = rep.skipped.get("solve-recursion-depth (C15)", 0) + 1
                except Exception as ex:  # noqa: BLE001
                    keys = f"{type(ex).__name__}: {ex}"[:160]
                rep.histogram["channel:solution-keys"] = rep.histogram.get("channel:solution-keys", 0) + 1
                if keys != want:
                    rep.oracle_failures.append({"what": "keys of Solution.values differ from the problem's variables", "spec": spec, "order": o,
                                                "got": keys if isinstance(keys, str) else (keys or [])[:40], "want": want[:40]})
            if o == 1 and si % 3 == 1:
                rep.histogram["history:read-only-helpers"] = rep.histogram.get("history:read-only-helpers", 0) + 1
                for f in readonly_history_check(b, want, wb, rng):
                    f.update({"spec": spec, "order": o, "readonly": True})
                    rep.oracle_failures.append(f)
            if o == 3 and si % 3 == 0:
                rep.histogram["history:edit-after-read"] = rep.histogram.get("history:edit-after-read", 0) + 1
                for f in history_check(b, want):
                    f.update({"spec": spec, "order": o, "history": True})
                    rep.oracle_failures.append(f)
            # --- model lines (first two orders only: the structure is the same up to ids)
            if o in (0, 1):
                ids = Ids()
                S = Ser(ids)
                try:
                    ot = obj_text(b.objective, S)
                    cts = [S.expr(c.expr) for c in b.con_objs]
                except Unsupported as ex:
                    rep.skipped["unsupported:" + str(ex)] = rep.skipped.get("unsupported:" + str(ex), 0) + 1
                    continue
                table = {}
                for v in occ:
                    table[ids.of(v)] = v
                tb = "(" + " ".join(f"({k} {'None' if v.lb is None else rat(v.lb)} {'None' if v.ub is None else rat(v.ub)})"
                                    for k, v in table.items()) + ")"
                for perm in ("id", "rev", "rot"):
                    lines.append(f"pvars {perm} {ot} ({' '.join(cts)})")
                    metas.append(("pvars", b, got, None))
                lines.append(f"bounds rev {ot} ({' '.join(cts)}) {tb}")
                metas.append(("bounds", b, got, None))
                exprs = ([b.objective] if b.objective is not None else []) + [c.expr for c in b.con_objs]
                for e in exprs[:4]:
                    src = _try_get_single_vector_source(e)
                    lines.append(f"svs {S.expr(e)}")
                    metas.append(("svs", b, None if src is None else (src.name, ids.of(src)), e))

    # --- edit histories (objective replaced by one over fewer / other variables, constraints over known / new variables, reads between)
    eh = edit_history_family(rng, 4000 if thorough else 450, rep)
    if eh:
        rep.histogram["history:edit-sequences-failed"] = len(eh)
        rep.oracle_failures.extend(sorted(eh, key=lambda f: len(json.dumps(f["edit_history"])) + len(json.dumps(f["spec"])))[:12])   # smallest first
    n_edit = rep.histogram.get("history:edit-sequences", 0)

    # sort keys
    names = sorted(set(SCALAR_NAMES + ["x[0]", "x[10]", "x[2]", "A[1,10]", "A[1,9]", "A[10,0]", "", "7", "07", "a", "a0", "a00", "a0b",
                                       "a0b0", "ab", "a1", "a1a", "a10", "a9", "_diag_x[0:2][1,0]", "S.T[0,1]", "diag(A)[1]"]))
    for nm in names:
        if '"' in nm:
            continue
        lines.append(f'sortkey "{nm}"')
        metas.append(("sortkey", nm, None, None))
    pairs = [(a, b) for a in names for b in names] if thorough else [(rng.choice(names), rng.choice(names)) for _ in range(600)]
    for a, b in pairs:
        lines.append(f'keylt "{a}" "{b}"')
        metas.append(("keylt", a, b, None))

    outs = run_lean_unit(lines)
    rep.evaluations = len(lines) + n_edit
    paths = {}
    for (what, a, b, c), model in zip(metas, outs):
        rep.histogram["model:" + what] = rep.histogram.get("model:" + what, 0) + 1
        if what == "pvars":
            path, _, rest = model.partition(" ")
            impl = "(" + " ".join('"' + n + '"' for n in b["names"]) + ")"
            paths[path] = paths.get(path, 0) + 1
            # which path did the real code take?
            real_path = real_route(a)
            if rest != impl or path != real_path:
                rep.mismatch_specs.append(a.spec)
                rep.corr_mismatches.append({"what": "pvars", "impl": real_path + " " + impl[:300], "model": model[:300], "spec": a.spec})
        elif what == "bounds":
            impl = "(" + " ".join("(" + " ".join("None" if x is None else rat(x) for x in p) + ")" for p in b["bounds"]) + ")"
            if model != impl:
                rep.corr_mismatches.append({"what": "bounds", "impl": impl[:300], "model": model[:300], "spec": a.spec})
        elif what == "svs":
            impl = "none" if b is None else f'(src "{b[0]}" {b[1]})'
            if model != impl:
                rep.corr_mismatches.append({"what": "svs", "impl": impl, "model": model, "expr": Ser(with_ids=False).expr(c)[:300]})
        elif what == "sortkey":
            k = optyx.Variable(a)._sort_key
            impl = "(" + " ".join(str(p) if isinstance(p, int) else '"' + p + '"' for p in k) + ")"
            if model != impl:
                rep.corr_mismatches.append({"what": "sortkey", "name": a, "impl": impl, "model": model})
        elif what == "keylt":
            try:
                impl = str(_natural_sort_key(optyx.Variable(a)) < _natural_sort_key(optyx.Variable(b))).lower()
            except TypeError:
                impl = "raise:TypeError"
                rep.oracle_failures.append({"what": "comparing two sort keys raised TypeError", "a": a, "b": b})
            if model != impl:
                rep.corr_mismatches.append({"what": "keylt", "a": a, "b": b, "impl": impl, "model": model})
    rep.histogram.update({"path:" + k: v for k, v in paths.items()})

    # --- hash seeds (fresh interpreters)
    batch = [(spec, orders[:2]) for spec in specs[: (len(specs) if thorough else 260)]]
    res = run_workers(batch, hashseeds)
    rep.evaluations += len(batch) * len(hashseeds) * 2
    for bi, (spec, ords) in enumerate(batch):
        ref = None
        for s in hashseeds:
            for oi, o in enumerate(ords):
                r = res[s][bi][oi]
                if "error" in r:
                    rep.oracle_failures.append({"what": "Problem.variables raised in a fresh interpreter", "error": r["error"], "spec": spec,
                                                "hashseed": s, "order": o})
                    continue
                if ref is None:
                    b = Built(spec, o)
                    ref = expected_names(b)[0]
                if r["names"] != ref:
                    rep.oracle_failures.append({"what": "variable order / set depends on the hash seed or differs from the natural order",
                                                "spec": spec, "hashseed": s, "order": o, "got": r["names"][:40], "want": ref[:40]})
        rep.histogram["hashseed-runs"] = rep.histogram.get("hashseed-runs", 0) + len(hashseeds) * len(ords)
    if len(rep.samples) < 4:
        for spec in specs[:3]:
            b = Built(spec, 0)
            rep.samples.append({"kind": spec["kind"], "variables": observe(b)["names"][:12]})
    return rep


def real_route(b):
    """shortcut or general, recomputed from the real `_try_get_single_vector_source` exactly as Problem.variables does"""
    from optyx.problem import _try_get_single_vector_source

    if b.objective is None:
        return "general"
    src = _try_get_single_vector_source(b.objective)
    if src is None:
        return "general"
    for c in b.con_objs:
        s = _try_get_single_vector_source(c.expr)
        if s is None or s is not src:
            return "general"
    return "shortcut"


def search(ctx, rep):
    rng = core.Rng(ctx["seed"] + 32452843)
    # edit histories first: a changed editing method (minimize / maximize / subject_to / _invalidate_caches) shows only there
    fs = edit_history_family(rng, 3000, None, first_only=True)
    if fs:
        return fs[0]
    # first the specs on which model and implementation disagreed (more construction orders), then fresh ones
    first, seen = [], set()
    for sp in getattr(rep, "mismatch_specs", []):
        k = json.dumps(sp, sort_keys=True)
        if k not in seen:
            seen.add(k)
            first.append(sp)
    for i in range(len(first[:400]) + 4000):
        spec = first[i] if i < len(first[:400]) else gen_spec(rng)
        for o in ((0, 1, 2, 3, 4, 5, 6, 7) if i < len(first[:400]) else (0, 1, 2, 3, 4)):
            try:
                b = Built(spec, o)
                want, _ = expected_names(b)
                got = observe(b)
            except Exception as ex:  # noqa: BLE001
                return {"what": "Problem.variables raised", "error": f"{type(ex).__name__}: {ex}"[:200], "spec": spec, "order": o}
            wb = [[None if x is None else float(x) for x in b.decl_bounds.get(nm, ("?", "?"))] for nm in got["names"]]
            if got["names"] != want or got["bounds"] != wb:
                return {"what": "variables / bounds differ from the natural-sorted set of mentioned variables", "spec": spec, "order": o,
                        "got": got["names"][:40], "want": want[:40]}
    return None


def replay(payload) -> bool:
    f = payload["failure"]
    if "spec" not in f:
        import optyx
        from optyx.problem import _natural_sort_key
        try:
            print(_natural_sort_key(optyx.Variable(f["a"])) < _natural_sort_key(optyx.Variable(f["b"])))
            return True
        except TypeError as ex:
            print("TypeError", ex)
            return False
    spec, o = f["spec"], f.get("order", 0)
    if "hashseed" in f:
        res = run_workers([(spec, [o])], [f["hashseed"]])
        r = res[f["hashseed"]][0][0]
        want = expected_names(Built(spec, o))[0]
        print("got ", r.get("names"), "\nwant", want)
        return r.get("names") == want
    b = Built(spec, o)
    want, _ = expected_names(b)
    if "threshold" in f or "get_variables" in f.get("what", ""):
        fs = collector_checks(b, spec, core.Report())
        print(fs)
        return not fs
    if f.get("readonly"):
        wb_ = [[None if x is None else float(x) for x in b.decl_bounds.get(nm, ("?", "?"))] for nm in want]
        fs = []
        for sd in range(6):
            fs += readonly_history_check(Built(spec, o), want, wb_, core.Rng(sd))
        print(fs[:3])
        return not fs
    if "edit_history" in f:
        fs = run_edit_history(b, f["edit_history"])
        for x in fs:
            print({k: v for k, v in x.items() if k != "edit_history"})
        return not fs
    if f.get("history"):
        fs = history_check(b, want)
        print(fs)
        return not fs
    if "Solution.values" in f.get("what", ""):
        keys = solution_keys(b)
        print("keys", keys, "\nwant", want)
        return keys == want
    got = observe(b)
    wb = [[None if x is None else float(x) for x in b.decl_bounds.get(nm, ("?", "?"))] for nm in got["names"]]
    print("got ", got["names"], "\nwant", want, "\nbounds", got["bounds"], "\nwant", wb)
    return got["names"] == want and got["bounds"] == wb and len(set(got["names"])) == len(got["names"])


if __name__ == "__main__":
    worker(sys.argv[1])
