"""C17 — symbolic and compiled Hessians are the true symmetric second derivatives; the diagonal
shortcuts for vectorised sums agree with the general path.

Tie:    (i)   compute_hessian(e, V) vs Py.computeHessian — structural, exact;
        (ii)  the closure compile_hessian returns (`__name__`) vs Py.compileHessian's path (incl. KeyError);
        (iii) numeric compile_hessian(e, V)(x) vs the model run over doubles (tolerance + guard).
Oracle: nested dual numbers (oracle.ref_hess) on the real compile_hessian output and on
        compute_hessian(e, V)[i][j].evaluate(point) at regular points, for V permuted / superset;
        exact symmetry H == H.T; fast path == general path (the node wrapped as `e + 0`);
        Parameters in every position × histories (differentiate / compile at v0 ∈ {0, 1, 2, -1, 0.5}, Parameter.set, the OLD
        callable / symbolic matrix and NEW compile_hessian / compute_hessian) against the dual numbers at the CURRENT values.
"""
from __future__ import annotations

import math
import zlib

import numpy as np

import core
import gen
import oracle
from ser import Ser, Unsupported
from props import c03 as J

LEAN_MODULE = "Optyx.Props.C17"
EXTRA_MODULES = ["Optyx.Props.PinsC17", "Optyx.Props.BuildTie", "Optyx.Props.ClosurePathTie", "Optyx.Props.SymbolicJacTie", "Optyx.Props.CompileEntryTie"]   # transcription anchors (harness/source_pins.py)
THEOREMS = [
    "Optyx.Props.Closures.closureTables_agree",
    "Optyx.Props.Closures.sanitizeShape_agrees",
    "Optyx.Props.C17.hess_entries",
    "Optyx.Props.C17.compileHessian_general_entries",
    "Optyx.Props.C17.compileHessian_symm",
    "Optyx.Props.C17.hessFast_eq_general",
    "Optyx.Props.C17.hess_second_partial",
    "Optyx.Props.C17.hess_second_partial_partial",
    "Optyx.Props.C17.hess_symmetric",
    "Optyx.Props.C17.compileHessian_entries",
    "Optyx.Props.C17.compileHessian_true_second_partial",
    "Optyx.Props.BuildTie.compile_step",
    "Optyx.Props.BuildTie.compileVec_step",
    "Optyx.Props.ClosurePathTie.powerGradient_path",
    "Optyx.Props.ClosurePathTie.unaryGradient_path",
    "Optyx.Props.ClosurePathTie.compileGradient_path",
    "Optyx.Props.ClosurePathTie.compileHessian_path",
    "Optyx.Props.SymbolicJacTie.computeJacobian_eq",
    "Optyx.Props.SymbolicJacTie.computeHessian_eq",
    "Optyx.Props.CompileEntryTie.compileExpression_eq",
    "Optyx.Props.CompileEntryTie.dictFn_eq",
    "Optyx.Props.CompileEntryTie.param_run",
    "Optyx.Props.CompileEntryTie.compiledExpression_value",
    "Optyx.Props.PinsC17.anchors",
]
ASSUMPTIONS = [
    "second derivatives are stated relative to Py.grad (∂/∂V_j of the expression Py.grad V_i e); turning them into the "
    "true mixed partials needs C02 twice (hess_second_partial, stated, see the Lean file for what is proved)",
    "V has pairwise distinct names and contains every variable; vector elements are distinct; x has len(V) entries",
    "equality of the mirrored lower triangle with the derivative in the other order is proved (hess_symmetric: C² on two-variable slices + Mathlib's Schwarz theorem)",
    "float rounding is not modelled",
]

run_lean_unit = J.run_lean_unit


def hess_nodes(rng, U):
    from optyx.core import vectors as Vc
    from optyx.core import matrices as Mx
    from optyx.core.functions import sin, exp, log, sqrt

    x, y, w, M, S = U.x, U.y, U.w, U.M, U.S
    a, b = U.scalars[0], U.scalars[1]
    views = [("x", x), ("x[0:2]", x[0:2]), ("w[1:4]", w[1:4]), ("w[0:5:2]", w[0:5:2]), ("x[::-1]", x[::-1]), ("Srow", S[1, :])]
    nodes = []
    for vn, v in views:
        for k in (1, 2, 3, 0.5, -1, 2.5, 0, 4, -2):
            nodes.append((f"ps{k}:{vn}", Vc.VectorPowerSum(v, k)))
        for op in gen.VOPS:
            nodes.append((f"us{op}:{vn}", Vc.VectorUnarySum(v, op)))
    Q = np.array([[1.0, 2.0, 0.0], [0.5, 1.0, -1.0], [0.0, 3.0, 2.0]])
    nodes += [
        ("dot:x.x", Vc.DotProduct(x, x)), ("dot:x.y", Vc.DotProduct(x, y)), ("dot:w[0:3].w[1:4]", Vc.DotProduct(w[0:3], w[1:4])),
        ("qf:x", Mx.QuadraticForm(x, Q)), ("qf:ve", Mx.QuadraticForm(x * y, Q)), ("l2:x", Vc.L2Norm(x)),
        ("l2:ve", Vc.L2Norm(x + 1.0)), ("l1:x", Vc.L1Norm(x)), ("lc:x", Vc.LinearCombination(np.array([1.0, -2.0, 0.5]), x)),
        ("lc:ve", Vc.LinearCombination(np.array([1.0, -2.0, 0.5]), x * x)), ("vs:x", x.sum()), ("es:x*y", (x * y).sum()),
        ("msv:S", S.sum()), ("mse:S*S", (S * S).sum()), ("fro:M", Mx.FrobeniusNorm(M)), ("fro:S", Mx.FrobeniusNorm(S)),
        ("sc:ab", a * b), ("sc:a2b", a * a * b + sin(a) * b), ("sc:exp", exp(a * b)), ("sc:log", log(a * a + 1.0) * b),
        ("sc:sqrt", sqrt(a * a + b * b + 1.0)), ("sc:pow", (a * a + 1.0) ** 2.5), ("sc:div", a / (b * b + 1.0)),
        ("sc:powvar", (a * a + 1.0) ** b), ("sc:lin", 2.0 * a - b), ("sc:param", U.params[0] * a * a),
        ("sc:x0", x[0] ** 3 + x[0] * x[1]),
    ]
    return nodes


def cases_for(rng, thorough):
    cases = []
    U = gen.Universe(rng)
    for tag, node in hess_nodes(rng, U):
        own = J.own_vars(node)
        orders = J.v_orders(rng, own, U, tag)
        if not tag.startswith(("ps", "us")):
            keep = {"own", "perm", "super-before", "interleaved", "clones"}
            orders = [(t, V) for t, V in orders if t.split("|")[1] in keep]
        for vt, V in orders:
            cases.append((vt, node, V, U))
        # the solver compiles the Hessian of the *negated* objective for maximisation (scipy_solver.py)
        cases.append((tag + "|negated", -node, list(own), U))
    # audit families shared with c03 (dimension checklist): root wrappers in every operator form around every node —
    # compile_hessian dispatches on the ROOT node, so `c − f`, `k·(c − f)`, `−(c − k·f)`, `f / k`, … must all reach the same
    # second derivatives —, every operand kind (views of views, symmetric blocks, matrix–vector products), magnitudes and
    # numeric types of stored numbers, names, depth
    base_nodes = hess_nodes(rng, U)
    anodes, askip = J.audit_nodes(rng, U)
    J.AUDIT_SKIPPED.update(askip)
    anodes = [(t, nd) for t, nd in anodes if len(J.own_vars(nd)) <= 6]
    for tag, node in anodes:
        own = J.own_vars(node)
        cases.append((f"{tag}|own", node, list(own), U))
        if zlib.crc32(tag.encode()) % 2 == 0:
            cases.append((f"{tag}|rev+extra", node, [U.scalars[2]] + list(reversed(own)), U))
    wr = J.wrappers(U)[1:] + J.extended_wrappers(U)
    for ni, (tag, node) in enumerate(base_nodes + anodes):
        own = J.own_vars(node)
        vector_sum = tag.startswith(("ps", "us"))
        for wi, (wn, wf) in enumerate(wr):
            if (ni + wi) % ((2 if vector_sum else 6) if thorough else (6 if vector_sum else 24)) != 0:
                continue
            try:
                cases.append((f"{tag}|wrap:{wn}", wf(node), list(own), U))
            except Exception as ex:  # noqa: BLE001
                J.AUDIT_SKIPPED[f"wrapper:{type(ex).__name__}"] = J.AUDIT_SKIPPED.get(f"wrapper:{type(ex).__name__}", 0) + 1
    for tag, es, V in J.names_universe():
        if len(V) <= 8 or thorough:
            cases.append(("|".join(tag.split("|")[:2]), es[0], V, U))
    for tag, es, V in J.deep_cases(U, (399, 400, 401)):
        if "const-left" in tag or thorough:
            cases.append(("|".join(tag.split("|")[:2]), es[0], V, U))
    for tag, e in J.composition_exprs(U):
        own = sorted({v.name: v for v in gen.expr_vars(e)}.values(), key=lambda v: v.name)
        cases.append((f"{tag}|own", e, own, U))
        if "powpow" in tag and zlib.crc32(tag.encode()) % 2 == 0:
            cases.append((f"{tag}|super-rev", e, [U.scalars[2]] + list(reversed(own)), U))
    # a Parameter in every position (exponent, coefficient, base, additive term, denominator, inside vector nodes) also as
    # plain cases of the tie, at the Universe's parameter values; their set histories: param_history_failures
    for tag, node in param_members(U, U.params[0], U.params[1]):
        own = J.own_vars(node)
        cases.append((f"{tag}|own", node, list(own), U))
        cases.append((f"{tag}|rev+extra", node, [U.scalars[2]] + list(reversed(own)), U))
    for tag, es, V, U2 in J.order_cover_cases(U, "hess"):
        if tag.split("|")[1] == "orders120" and not (tag.startswith(("ps3", "uslog", "uscos")) or thorough):
            continue
        cases.append(("|".join(tag.split("|")[:2]), es[0], V, U2))
    n_rand = 4000 if thorough else 150
    for i in range(n_rand):
        U = gen.Universe(rng)
        e = gen.rand_expr(rng, U, rng.randint(1, 4 if thorough else 3), safe=True)
        own = gen.expr_vars(e)
        if not own:
            continue
        if len(own) > 5:
            continue
        rng.shuffle(own)
        r = rng.random()
        if r < 0.4:
            V = own
        elif r < 0.8:
            extra = [v for v in U.all_vars() if v.name not in {o.name for o in own}]
            rng.shuffle(extra)
            V = own + extra[:rng.randint(1, 2)]
            rng.shuffle(V)
        else:
            V = J.clone_vars(own)
        cases.append(("rand|safe", e, V, U))
    return cases


def real_hessian(e, V):
    import optyx.core.autodiff as AD

    return AD.compile_hessian(e, V)


def oracle_hessian(e, V, xs):
    point = {v.name: float(a) for v, a in zip(V, xs)}
    n = len(V)
    try:
        if not J.model_regular(e, point):
            return None
        H = [[oracle.ref_hess(e, point, V[i].name, V[j].name) for j in range(n)] for i in range(n)]
    except (oracle.NotRegular, OverflowError, ZeroDivisionError, ValueError, KeyError):
        return None
    if not all(math.isfinite(a) and abs(a) < 1e8 for r in H for a in r):
        return None
    return H


def well_conditioned(e, V, xs, H):
    try:
        xs2 = [float(a) * (1 + 1e-9) + 1e-12 for a in xs]
        H2 = oracle_hessian(e, V, xs2)
        if H2 is None or not all(oracle.close(a, b, rtol=1e-4, atol=1e-9) for r, s in zip(H, H2) for a, b in zip(r, s)):
            return False
        # second reference: central differences of the dual-number gradient; where the two references disagree, double
        # precision is the limit and the point is no witness
        point = {v.name: float(a) for v, a in zip(V, xs)}
        for j, vj in enumerate(V):
            h = 1e-5 * max(1.0, abs(point[vj.name]))
            pp, pm = dict(point), dict(point)
            pp[vj.name] += h; pm[vj.name] -= h
            for i, vi in enumerate(V):
                fd = (oracle.ref_grad(e, pp, vi.name) - oracle.ref_grad(e, pm, vi.name)) / (2 * h)
                if not oracle.close(H[i][j], fd, rtol=1e-3, atol=1e-8):
                    return False
        return True
    except Exception:  # noqa: BLE001
        return False


def check_numeric(e, V, xs, with_symbolic=True):
    """property oracle on the real code. returns (failures, entries_checked, skipped)"""
    import optyx.core.autodiff as AD

    if not (J.names_of([e]) <= {v.name for v in V}) or len({v.name for v in V}) != len(V):
        return [], 0, 0
    want = oracle_hessian(e, V, xs)
    if want is None:
        return [], 0, 1
    x = np.array(xs, dtype=float)
    n = len(V)
    fn = J.grab(lambda: real_hessian(e, V))
    if isinstance(fn, str):
        return [{"what": f"compile_hessian raised {fn[6:]} although V contains every variable"}], 0, 0
    got = J.grab(lambda: np.asarray(fn(x), dtype=float))
    if isinstance(got, str) or got.shape != (n, n):
        return [{"what": f"compiled Hessian failed / wrong shape: {got if isinstance(got, str) else got.shape}",
                 "path": fn.__name__}], 0, 0
    fails, checked = [], 0
    if not np.array_equal(got, got.T):
        fails.append({"what": "compiled Hessian is not symmetric", "path": fn.__name__, "got": got.tolist()})
    routes = {"compile_hessian:" + fn.__name__: got}
    # the general path on the same function: wrap the node so that no isinstance fast path matches
    gen_fn = J.grab(lambda: real_hessian(e + 0.0, V))
    if not isinstance(gen_fn, str):
        gg = J.grab(lambda: np.asarray(gen_fn(x), dtype=float))
        if not isinstance(gg, str) and gg.shape == (n, n):
            routes["general-path(e+0):" + gen_fn.__name__] = gg
    if with_symbolic:
        point = {v.name: float(a) for v, a in zip(V, xs)}
        Hs = J.grab(lambda: AD.compute_hessian(e, V))
        if isinstance(Hs, str):
            fails.append({"what": f"compute_hessian raised {Hs[6:]}"})
        else:
            ev = J.grab(lambda: np.array([[float(np.asarray(Hs[i][j].evaluate(point))) for j in range(n)] for i in range(n)]))
            if not isinstance(ev, str):
                routes["compute_hessian.evaluate"] = ev
    bad = None
    for rn, vals in routes.items():
        for i in range(n):
            for j in range(n):
                checked += 1
                if not oracle.close(float(vals[i, j]), want[i][j], rtol=1e-6, atol=1e-7):
                    bad = {"what": "Hessian entry differs from the true second partial derivative", "route": rn,
                           "i": i, "j": j, "vi": V[i].name, "vj": V[j].name, "got": float(vals[i, j]), "want": want[i][j]}
                    break
            if bad:
                break
        if bad:
            break
    if bad:
        if well_conditioned(e, V, xs, want):
            fails.append(bad)
        else:
            return fails, checked, 1
    return fails, checked, 0


# ----------------------------------------------------------------------------- Parameters × set histories (checklist 29)
#
# C17 speaks about d²[[e]] at the point — and [[e]] reads every Parameter at its CURRENT value.  The Hessian is the gradient of
# the gradient, so whatever the first differentiation decided on a parameter's VALUE (a shortcut taken because p happened to
# be 0 or 1, a folded coefficient, a pruned branch) is differentiated again and — through the lru-cached gradient — handed to
# every later compile_hessian / compute_hessian on the same expression object.  The family: a Parameter in every position
# (exponent, compound exponent, coefficient, base, additive term, denominator, inside functions, beside the nodes with
# per-node shortcuts, inside vector nodes) × histories
#     build e while p = v0, q = w0 (v0 over {0, 1, 2, -1, 0.5}: the values simplifiers have shortcuts for and ordinary ones)
#     first differentiation at v0 through one channel (compile_hessian | compute_hessian | gradient only |
#         compile_jacobian + compile_gradient | none = control)
#     Parameter.set (int / float / NumPy scalar / 0-d array); then the OLD callable, the OLD symbolic matrix, a NEW
#         compile_hessian, a NEW compute_hessian and the general path — for the own order, a permutation and a superset of V —
#     a second set (back to 0 / 1 as well), everything built so far again.
# Every answer is judged against nested dual numbers over the tree at the CURRENT parameter values (oracle.ref_hess reads
# Parameter.value when it is asked), guarded by central differences of the dual-number gradient (well_conditioned).

PARAM_V0 = [0.0, 1.0, 2.0, -1.0, 0.5]
PARAM_V1 = [3.0, 0.0, 1.0, -1.0, 0.5, 2.0, -2.0, 2.5, 1.5]
PARAM_FIRST = ["hessian", "gradient", "jacobian", "symbolic"]      # + "none" (control: nothing differentiated before the set)
_PTYPES = {"float": float, "int": int, "float64": np.float64, "float32": np.float32, "int64": np.int64,
           "0d": lambda v: np.array(float(v))}


def typed_value(rng, v):
    """[type name, plain float]: the numeric TYPE in which a value is handed to Parameter(...) / .set(...)"""
    v = float(v)
    names = ["float", "float", "float", "float64", "0d"]
    if v.is_integer():
        names += ["int", "int", "int64"]
    if float(np.float32(v)) == v:
        names.append("float32")
    return [rng.choice(names), v]


def make_value(tv):
    return _PTYPES[tv[0]](tv[1])


def param_members(U, p, q):
    """(tag, expression over U's variables with the Parameters p, q) — a parameter in every position"""
    from optyx.core import vectors as Vc
    from optyx.core import matrices as Mx
    from optyx.core.expressions import Constant
    from optyx.core.functions import sin, exp, log, sqrt, tanh

    a, b = U.scalars[0], U.scalars[1]
    x = U.x
    x0, x1, x2 = x[0], x[1], x[2]
    VE = Vc.VectorExpression
    pos = lambda: a * a + b * b + 1.0          # a base that is positive at every point (a fresh object on every use)
    Q = np.array([[1.0, 2.0, 0.0], [0.5, 1.0, -1.0], [0.0, 3.0, 2.0]])
    cs = np.array([1.0, -2.0, 0.5])
    mk = [
        # --- exponent: the bare parameter, compound variable-free exponents, exponents that mix parameters and variables
        ("exp:leaf", lambda: b * a ** p + a * b ** 2),
        ("exp:sum-base", lambda: (a + 2.0 * b) ** p + a * b),
        ("exp:pos-base", lambda: pos() ** p),
        ("exp:fn-base", lambda: exp(tanh(a)) ** p * b),
        ("exp:two", lambda: a ** p * b ** q),
        ("exp:nested", lambda: (a ** p) ** q + a * b),
        ("exp:under-fn", lambda: sin(a ** p) * b),
        ("exp:in-quotient", lambda: b / (a ** p + 1.0)),
        ("exp:2p", lambda: a ** (2.0 * p) * b),
        ("exp:p-q", lambda: pos() ** (p - q) * b),
        ("exp:-p", lambda: pos() ** (-p) + a * b),
        ("exp:p/2", lambda: pos() ** (p / 2.0) * a),
        ("exp:p*q", lambda: a ** (p * q) + b * b * a),
        ("exp:sin(p)", lambda: pos() ** sin(p) * b),
        ("exp:p*var", lambda: pos() ** (p * b)),
        ("exp:p+var", lambda: pos() ** (p + b)),
        ("exp:const-base", lambda: Constant(2.0) ** (p * a * b)),
        ("exp:ps-base", lambda: Vc.VectorPowerSum(x, 2) ** p),
        ("exp:dot-base", lambda: (x.dot(x) + 1.0) ** p),
        ("exp:l2-base", lambda: Vc.L2Norm(x) ** p),
        # --- coefficient (left / middle / right, compound, beside the nodes with per-node shortcuts)
        ("coef:left", lambda: p * a * a * b),
        ("coef:mid", lambda: a * p * a * b),
        ("coef:right", lambda: (a * a * b) * p),
        ("coef:fn", lambda: p * sin(a * b)),
        ("coef:two", lambda: (p * a) * (q * b) * a),
        ("coef:sum", lambda: p * a ** 3 + q * a * b),
        ("coef:neg", lambda: -p * a * a + a * b * b),
        ("coef:2p", lambda: (2.0 * p) * a * b * b),
        ("coef:p-q", lambda: (p - q) * a * a * b),
        ("coef:1/p", lambda: a * a * b / p),
        ("coef:pq", lambda: p * q * a * a * b),
        ("coef:p**2", lambda: p ** 2 * a * a * b + a ** 2 * q),
        ("coef:ps", lambda: p * Vc.VectorPowerSum(x, 3)),
        ("coef:us", lambda: p * Vc.VectorUnarySum(x, "sin")),
        ("coef:dot", lambda: p * x.dot(x)),
        ("coef:qf", lambda: p * Mx.QuadraticForm(x, Q)),
        ("coef:lc**2", lambda: p * Vc.LinearCombination(cs, x) ** 2),
        ("coef:l2", lambda: Vc.L2Norm(x) * p),
        ("coef:ps/p", lambda: Vc.VectorPowerSum(x, 3) / p + q * x.sum() ** 2),
        # --- base
        ("base:p**a", lambda: p ** a * b),
        ("base:(p+..)**2.5", lambda: (p + a * a + 1.5) ** 2.5 * b),
        ("base:(pa)**3", lambda: (p * a) ** 3 * b),
        ("base:(pa+b)**2", lambda: (p * a + b) ** 2),
        ("base:(p+c)**ab", lambda: (p + 1.5) ** (a * b)),
        # --- additive term / inside functions / denominators
        ("add:cube", lambda: (a + p) ** 3 * b),
        ("add:sin", lambda: sin(a * p + q) * b),
        ("add:exp", lambda: exp(tanh(p * a * b))),
        ("add:log", lambda: log(a * a + p * p + 1.0) * b),
        ("add:sqrt", lambda: sqrt(a * a + b * b + p * p + 1.0)),
        ("add:p-", lambda: (p - a * b) ** 2),
        ("add:plain", lambda: a * a * b + p),
        ("den:pp", lambda: a * b / (p * p + 1.0 + a * a)),
        ("den:p", lambda: a / (b * b + p + 3.0)),
        # --- inside vector nodes
        ("vec:dot-params", lambda: Vc.DotProduct(x * x, VE([p, q, p * q]))),
        ("vec:sin-dot", lambda: sin(Vc.DotProduct(x, VE([p, q, p - q])))),
        ("vec:es", lambda: VE([p * x0 * x0, x1 ** p, q * x2 * x0]).sum()),
        ("vec:l2", lambda: Vc.L2Norm(VE([p * x0, x1 + q, x2]))),
        ("vec:qf", lambda: Mx.QuadraticForm(VE([p * x0, x1, x2 ** p]), Q)),
        ("vec:lc", lambda: Vc.LinearCombination(cs, VE([x0 ** p, p * x1 * x1, x2 * x0]))),
        ("vec:l1", lambda: Vc.L1Norm(VE([p * x0 * x0, x1 * x2, q * x2]))),
        ("vec:dot-pow", lambda: Vc.DotProduct(VE([x0 ** p, x1 ** q, x2 ** 2]), x)),
    ]
    out = []
    for tag, f in mk:
        try:
            out.append(("par:" + tag, f()))
        except Exception as ex:  # noqa: BLE001
            J.AUDIT_SKIPPED[f"param-member:{type(ex).__name__}"] = J.AUDIT_SKIPPED.get(f"param-member:{type(ex).__name__}", 0) + 1
    return out


def n_param_members(U):
    from optyx import Parameter

    return len(param_members(U, Parameter("p", 1.5), Parameter("q", -0.5)))


def history_orders(own, U, k):
    """the declared-variable lists of one history: the own order (the first differentiation uses it) and, rotating with k, a
    permutation and a superset"""
    extras = [v for v in (U.scalars[2], U.y[0]) if v.name not in {o.name for o in own}]
    rot = list(own[1:]) + list(own[:1])
    alts = [("rev", list(reversed(own))), ("super-mid", list(own[:1]) + extras[:1] + list(own[1:])),
            ("rev+extra-first", extras[:1] + list(reversed(own))), ("rot+extra-last", rot + extras[1:2])]
    return [("own", list(own)), alts[k % len(alts)]]


def plan_history(rng, mi, vi, first):
    """one history for member mi starting at PARAM_V0[vi]: typed start values and two typed set steps"""
    v0 = PARAM_V0[vi]
    w0 = PARAM_V0[(vi + 1 + mi) % len(PARAM_V0)]
    v1 = rng.choice([v for v in PARAM_V1 if v != v0])
    w1 = rng.choice([w0] + [v for v in PARAM_V1 if v != w0])
    v2 = rng.choice([v for v in (0.0, 1.0, v0, 2.5, -2.0, 3.0) if v != v1])
    w2 = rng.choice([v for v in PARAM_V1 if v != w1])
    return {"first": first, "start": [typed_value(rng, v0), typed_value(rng, w0)],
            "sets": [[typed_value(rng, v1), typed_value(rng, w1)], [typed_value(rng, v2), typed_value(rng, w2)]]}


def compare_routes(e, V, xs, routes, stage, fails):
    """routes: [(label, n×n array | 'raise:…')] at ONE point and the CURRENT parameter values. returns (checked, skipped)"""
    want = oracle_hessian(e, V, xs)
    if want is None:
        return 0, 1
    n = len(V)
    checked = 0
    bad = None
    for label, vals in routes:
        if isinstance(vals, str) or np.shape(vals) != (n, n):
            bad = {"what": f"Hessian route failed at a regular point / wrong shape: {vals if isinstance(vals, str) else np.shape(vals)}",
                   "route": label}
            break
        if label.startswith("compile") and not np.array_equal(vals, vals.T):
            bad = {"what": "compiled Hessian is not symmetric", "route": label, "got": np.asarray(vals).tolist()}
            break
        for i in range(n):
            for j in range(n):
                checked += 1
                if not oracle.close(float(vals[i, j]), want[i][j], rtol=1e-6, atol=1e-7):
                    bad = {"what": "Hessian entry differs from the true second partial derivative at the CURRENT parameter values",
                           "route": label, "i": i, "j": j, "vi": V[i].name, "vj": V[j].name, "got": float(vals[i, j]),
                           "want": want[i][j]}
                    break
            if bad:
                break
        if bad:
            break
    if bad:
        if not well_conditioned(e, V, xs, want):
            return checked, 1
        bad.update({"stage": stage, "x": [float(t) for t in xs], "V_names": [v.name for v in V]})
        fails.append(bad)
    return checked, 0


def run_param_history(e, params, orders, hist, points):
    """drive one expression object through `hist`; params = [p, q] (the objects inside e); orders = [(name, V)], the first one
    is used by the first differentiation; points = {order name: [xs, …]}.  returns (failures, entries checked, skipped)"""
    import optyx.core.autodiff as AD
    import optyx.core.compiler as CC

    fails, checked, skipped = [], 0, 0
    held = []           # (label, kind, order name, V, object): kind 'fn' = compiled callable, 'sym' = matrix of expressions
    V0 = orders[0][1]
    covered = J.names_of([e]) <= {v.name for v in V0}
    if not covered:
        return fails, 0, 1

    def now():
        return [float(np.asarray(p_.value)) for p_ in params]

    def judge(stage, items):
        nonlocal checked, skipped
        for on, V in orders:
            for xs in points[on]:
                point = {v.name: float(t) for v, t in zip(V, xs)}
                x = np.array(xs, dtype=float)
                routes = []
                for label, kind, on2, V2, obj in items:
                    if on2 != on:
                        continue
                    if isinstance(obj, str):
                        routes.append((label, obj))
                    elif kind == "fn":
                        routes.append((label + ":" + getattr(obj, "__name__", "?"), J.grab(lambda: np.asarray(obj(x), dtype=float))))
                    else:
                        n = len(V)
                        routes.append((label, J.grab(lambda: np.array([[float(np.asarray(obj[i][j].evaluate(point)))
                                                                         for j in range(n)] for i in range(n)]))))
                if not routes:
                    continue
                before = len(fails)
                c, s = compare_routes(e, V, xs, routes, stage, fails)
                checked += c; skipped += s
                for f in fails[before:]:
                    f["order"] = on
                    f["param_values"] = now()
                if fails:
                    return True
        return False

    first = hist["first"]
    if first == "hessian":
        held.append(("compile_hessian built at the start values", "fn", orders[0][0], V0, J.grab(lambda: AD.compile_hessian(e, V0))))
    elif first == "symbolic":
        held.append(("compute_hessian built at the start values", "sym", orders[0][0], V0, J.grab(lambda: AD.compute_hessian(e, V0))))
    elif first == "gradient":
        for v in V0:
            J.grab(lambda: AD.gradient(e, v))
    elif first == "jacobian":
        J.grab(lambda: AD.compile_jacobian([e], V0))
        J.grab(lambda: CC.compile_gradient(e, V0))
    if held and judge(0, held):
        return fails, checked, skipped
    for si, step in enumerate(hist["sets"]):
        for p_, tv in zip(params, step):
            p_.set(make_value(tv))
        new = []
        for oi, (on, V) in enumerate(orders):
            new.append((f"compile_hessian built after set #{si + 1}", "fn", on, V, J.grab(lambda: AD.compile_hessian(e, V))))
            if (oi + si) % 2 == 1 or len(orders) == 1:
                new.append((f"compute_hessian built after set #{si + 1}", "sym", on, V, J.grab(lambda: AD.compute_hessian(e, V))))
        if si == 0:
            new.append(("compile_hessian(e + 0) built after set #1", "fn", orders[0][0], V0, J.grab(lambda: AD.compile_hessian(e + 0.0, V0))))
        if judge(si + 1, held + new):
            return fails, checked, skipped
        held += new
    return fails, checked, skipped


def history_payload(tag, e, params, orders, hist, points, f):
    """make a history failure replayable: the expression is serialised with its parameters at the START values"""
    cur = [p_.value for p_ in params]
    f.update({"kind": "param-history", "tag": tag, "history": hist, "points": points})
    try:
        for p_, tv in zip(params, hist["start"]):
            p_.set(float(tv[1]))
        Vall = []
        for _, V in orders:
            Vall += [v for v in V if v.name not in {u.name for u in Vall}]
        f.update(J.payload_of([e], Vall, f.get("x", []), J.all_params([e])))
        f["param_names"] = [p_.name for p_ in params]
        f["orders"] = [[on, [[u.name for u in Vall].index(v.name) for v in V]] for on, V in orders]
    except Unsupported:
        f["exprs_repr"] = [repr(e)[:200]]
    finally:
        for p_, v in zip(params, cur):
            p_.set(v)
    return f


def param_history_failures(rng, thorough, rep=None, only_first=False, forced_every=0):
    """the whole family.  quick: every member × every start value with the first-differentiation channel rotating (+ one
    control history per member); thorough / search: every member × start value × channel.  returns the failures"""
    from optyx import Parameter

    out = []
    U = gen.Universe(rng)
    n_hist = 0
    for mi in range(n_param_members(U)):
        for vi in range(len(PARAM_V0)):
            firsts = list(PARAM_FIRST) + ["none"] if thorough else [PARAM_FIRST[(mi + vi) % len(PARAM_FIRST)]]
            if not thorough and vi == mi % len(PARAM_V0):
                firsts.append("none")
            for first in firsts:
                hist = plan_history(rng, mi, vi, first)
                p = Parameter("p", make_value(hist["start"][0]))
                q = Parameter("q", make_value(hist["start"][1]))
                members = param_members(U, p, q)
                if mi >= len(members):
                    continue
                tag, e = members[mi]
                own = J.own_vars(e)
                orders = history_orders(own, U, mi + vi + n_hist)
                points = {on: [J.rand_x(rng, len(V), True), J.rand_x(rng, len(V), rng.random() < 0.5)] for on, V in orders}
                forced = forced_every and n_hist % forced_every == 0
                n_hist += 1
                if forced:
                    with J.forced_thresholds(2):
                        fails, checked, skipped = run_param_history(e, [p, q], orders, hist, points)
                else:
                    fails, checked, skipped = run_param_history(e, [p, q], orders, hist, points)
                if rep is not None:
                    rep.histogram["param_histories"] = rep.histogram.get("param_histories", 0) + 1
                    rep.histogram["param_history_entries"] = rep.histogram.get("param_history_entries", 0) + checked
                    rep.histogram["param_history:first=" + first] = rep.histogram.get("param_history:first=" + first, 0) + 1
                    if skipped:
                        rep.skipped["param-history-irregular-or-ill-conditioned-point"] = \
                            rep.skipped.get("param-history-irregular-or-ill-conditioned-point", 0) + skipped
                for f in fails:
                    if forced:
                        f["thresholds_forced"] = 2
                    out.append(history_payload(tag, e, [p, q], orders, hist, points, f))
                    if only_first:
                        return out
                if fails:
                    break           # one failure per (member, start value) is enough
    return out


def replay_param_history(f) -> bool:
    import contextlib

    if "exprs" not in f:
        print("no serialisable expression:", {k: f[k] for k in f if k != "got"})
        return False
    es, Vall, _ = J.rebuild(dict(f, x=[]))
    e = es[0]
    from optyx import Parameter

    by_name = {p_.name: p_ for p_ in J.all_params([e])}
    params = [by_name.get(nm) or Parameter(nm, 0.0) for nm in f["param_names"]]       # a parameter the expression does not use
    hist = f["history"]
    for p_, tv in zip(params, hist["start"]):
        p_.set(make_value(tv))
    orders = [(on, [Vall[i] for i in idx]) for on, idx in f["orders"]]
    cm = J.forced_thresholds(int(f["thresholds_forced"])) if f.get("thresholds_forced") is not None else contextlib.nullcontext()
    with cm:
        fails, checked, skipped = run_param_history(e, params, orders, hist, f["points"])
    print("history:", hist)
    print("entries checked:", checked, "points skipped:", skipped)
    for g in fails:
        print("FAIL:", g)
    return not fails


# ----------------------------------------------------------------------------- the Hessian callable HANDED TO SCIPY × call histories
#
# The consumer of compile_hessian is solve_scipy: for the Hessian-using methods it hands scipy.optimize.minimize a `hess=`
# callable next to `fun=` / `jac=` — for maximise all three belong to the NEGATED objective — and SciPy calls it over and over,
# at the same and at other points, and again on every re-solve of the same Problem (the compiled Hessian lives in the
# Problem's solver cache, shared by all Hessian methods).  The family: every objective shape that reaches a constant /
# cached-matrix path of compile_hessian (sum(x**2), sum(x**1), x.dot(x), quadratic forms, linear objectives), the diagonal
# paths, root wrappers of them and general objectives × {minimise, maximise} × the five Hessian methods × with / without a
# constraint that widens the variable list (sparse paths) × the history
#     solve #1 (minimize observed at the import seam, not run)  → hess(p0), hess(p0), hess(p1), hess(p0), hess(p2)
#     solve #2 of the same Problem, REALLY run by SciPy for a few iterations (SciPy makes its own calls)
#                                                              → the OLD callable and the NEW one at p0, p1, p0
#     solve #3 with another Hessian method (same solver cache)  → old and new callables at p2, p0
# Every answer is judged against central finite differences of the `jac` handed over IN THE SAME minimize call (two step
# sizes must agree, else the point is no witness), reported together with the dual-number Hessian of ±objective; every array
# returned earlier must still hold the values it had when it was returned.

SOLVER_METHODS = ["trust-constr", "Newton-CG", "trust-ncg", "dogleg", "trust-exact"]


def solver_members(n):
    """(tag, positive points only?, objective, vector) over a fresh bounded VectorVariable of length n"""
    from optyx import VectorVariable
    from optyx.core import vectors as Vc
    from optyx.core import matrices as Mx
    from optyx.core.functions import sin, exp

    x = VectorVariable("x", n, lb=-1.0, ub=3.0)
    Q = np.array([[1.0 + i if i == j else 0.25 * (i - 2 * j) for j in range(n)] for i in range(n)])
    cs = np.array([1.0, -2.0, 0.5, 3.0, -1.5][:n])
    out = [
        ("api:(x**2).sum", False, (x ** 2).sum()), ("api:(x**1).sum", False, (x ** 1).sum()), ("api:x.dot(x)", False, x.dot(x)),
        ("api:x.sum", False, x.sum()), ("api:(x**3).sum", False, (x ** 3).sum()), ("api:(x**4).sum", False, (x ** 4).sum()),
        ("ps2:x", False, Vc.VectorPowerSum(x, 2)), ("ps1:x", False, Vc.VectorPowerSum(x, 1)), ("ps2.0:x", False, Vc.VectorPowerSum(x, 2.0)),
        ("ps2:x[0:2]", False, Vc.VectorPowerSum(x[0:2], 2)), ("ps2:x[::-1]", False, Vc.VectorPowerSum(x[::-1], 2)),
        ("ps1:x[1:]", False, Vc.VectorPowerSum(x[1:], 1)), ("ps3:x[0:2]", False, Vc.VectorPowerSum(x[0:2], 3)),
        ("ps0.5:x", True, Vc.VectorPowerSum(x, 0.5)), ("ps-1:x", True, Vc.VectorPowerSum(x, -1)),
        ("ussin:x", False, Vc.VectorUnarySum(x, "sin")), ("usexp:x", False, Vc.VectorUnarySum(x, "exp")),
        ("uslog:x", True, Vc.VectorUnarySum(x, "log")), ("uscos:x[0:2]", False, Vc.VectorUnarySum(x[0:2], "cos")),
        ("dot:x.x", False, Vc.DotProduct(x, x)), ("dot:x.x[::-1]", False, Vc.DotProduct(x, x[::-1])),
        ("qf:x", False, Mx.QuadraticForm(x, Q)), ("qf:sym", False, Mx.QuadraticForm(x, Q + Q.T)),
        ("lc:x", False, Vc.LinearCombination(cs, x)), ("lin:scalar", False, 2.0 * x[0] - x[n - 1] + 1.0),
        ("wrap:neg-ps2", False, -Vc.VectorPowerSum(x, 2)), ("wrap:3*ps2", False, 3.0 * Vc.VectorPowerSum(x, 2)),
        ("wrap:ps2+lin", False, (x ** 2).sum() + 3.0 * x[0]), ("wrap:c-dot", False, 5.0 - x.dot(x)),
        ("wrap:-dot+lin", False, x.dot(x) * -1.0 + 3.0 * x[n - 1]), ("wrap:ps2+ps2", False, (x ** 2).sum() + (x[0:2] ** 2).sum()),
        ("gen:quartic+cross", False, -(x ** 4).sum() + x[0] * x[1]), ("gen:sin*exp", False, sin(x[0]) * exp(0.5 * x[1]) + x[n - 1] ** 2),
        ("gen:x0*x1", False, x[0] * x[1] + x[1] * x[n - 1]), ("gen:cubic", False, x[0] ** 3 + x[0] * x[1] * x[1] - x[n - 1]),
    ]
    return [(t, pos, e, x) for t, pos, e in out]


def build_solver_problem(mi, n, sense, constrained):
    from optyx import Problem

    tag, pos, e, x = solver_members(n)[mi]
    prob = Problem()
    prob = prob.maximize(e) if sense == "maximize" else prob.minimize(e)
    if constrained:          # the constraint brings EVERY element of x into problem.variables (sparse fast paths)
        prob = prob.subject_to(x.sum() <= 2.0 * n)
    return tag, pos, e, prob


def seam_minimize(prob, method, really, maxiter=4):
    """(fun, jac, hess) exactly as solve_scipy hands them to scipy.optimize.minimize; `really`: SciPy runs (a few iterations)"""
    import warnings
    import optyx.solvers.scipy_solver as SS

    got = {}
    old = SS.minimize

    def spy(*a, **kw):
        got.update(kw)
        if not really:
            raise J_Captured()
        return old(*a, **kw)

    SS.minimize = spy
    try:
        with warnings.catch_warnings():
            warnings.simplefilter("ignore")
            if really:
                prob.solve(method=method, maxiter=maxiter)
            else:
                prob.solve(method=method)
    finally:
        SS.minimize = old
    return got.get("fun"), got.get("jac"), got.get("hess")


class J_Captured(Exception):
    pass


def fd_of_jac(jac, p, h):
    n = len(p)
    H = np.zeros((n, n))
    for j in range(n):
        e = np.zeros(n)
        e[j] = h
        H[:, j] = (np.asarray(jac(p + e), dtype=float).ravel() - np.asarray(jac(p - e), dtype=float).ravel()) / (2 * h)
    return H


def run_solver_history(mi, n, sense, constrained, methods, points):
    """returns (failures, entries checked, points skipped, hess calls)"""
    tag, pos, e, prob = build_solver_problem(mi, n, sense, constrained)
    V = list(prob.variables)
    sgn = -1.0 if sense == "maximize" else 1.0
    fails, checked, skipped, calls = [], 0, 0, 0
    held = []                                   # (label, the array object returned, its values at that time)

    def fail(d):
        d.update({"kind": "solver-hess", "tag": f"solver|{tag}|{sense}|{'+'.join(methods)}|{'constrained' if constrained else 'free'}",
                  "member": mi, "n": n, "sense": sense, "constrained": constrained, "methods": list(methods), "points": points,
                  "objective": repr(e)[:160], "V_names": [v.name for v in V]})
        fails.append(d)

    def judge(label, jac, hess, p):
        nonlocal checked, skipped, calls
        x = np.array(p, dtype=float)
        ret = J.grab(lambda: hess(x.copy()))
        calls += 1
        if isinstance(ret, str):
            fail({"what": f"the hess callable handed to SciPy raised {ret[6:]}", "call": label, "x": list(p)})
            return
        got = np.array(ret, dtype=float)
        if got.shape != (len(V), len(V)):
            fail({"what": f"the hess callable handed to SciPy returned shape {got.shape}", "call": label, "x": list(p)})
            return
        held.append((label, ret, got.copy()))
        want = oracle_hessian(e, V, p)          # dual numbers on the objective as written (regularity + second reference)
        if want is None:
            skipped += 1
            return
        f1, f2 = fd_of_jac(jac, x, 1e-4), fd_of_jac(jac, x, 2e-5)
        if not np.allclose(f1, f2, rtol=1e-4, atol=1e-6) or not np.all(np.isfinite(f1)):
            skipped += 1
            return
        checked += got.size
        if not np.array_equal(got, got.T):
            fail({"what": "the hess callable handed to SciPy returned a non-symmetric matrix", "call": label, "x": list(p), "got": got.tolist()})
            return
        bad = np.argwhere(~np.isclose(got, f2, rtol=1e-4, atol=1e-5))
        if len(bad):
            i, j = (int(a) for a in bad[0])
            fail({"what": "the hess callable handed to SciPy is not the derivative of the jac handed over in the same minimize call",
                  "call": label, "x": list(p), "i": i, "j": j, "vi": V[i].name, "vj": V[j].name, "got": float(got[i, j]),
                  "want_fd_of_handed_jac": float(f2[i, j]), "dual_numbers_of_signed_objective": sgn * want[i][j]})

    def still_held(stage):
        for label, ret, snap in held:
            now = np.array(ret, dtype=float)
            if now.shape != snap.shape or not np.array_equal(now, snap, equal_nan=True):
                fail({"what": "a Hessian array returned earlier to SciPy changed afterwards", "call": label, "noticed_at": stage,
                      "x": [], "was": snap.tolist(), "now": now.tolist()})
                return

    p0, p1, p2 = ([float(a) for a in p[:len(V)]] for p in points)        # a free objective over a view has fewer variables
    m1, m2 = methods
    fun1, jac1, hess1 = seam_minimize(prob, m1, really=False)
    if hess1 is None or jac1 is None:
        fail({"what": f"no hess / jac callable was handed to SciPy for method {m1}", "call": "solve#1", "x": []})
        return fails, checked, skipped, calls
    for k, p in enumerate((p0, p0, p1, p0, p2)):
        judge(f"solve#1[{m1}] call {k + 1}", jac1, hess1, p)
        if fails:
            return fails, checked, skipped, calls
    still_held("after solve#1")
    fun2, jac2, hess2 = seam_minimize(prob, m1, really=True)
    if hess2 is None or jac2 is None:
        fail({"what": f"no hess / jac callable was handed to SciPy on the re-solve with {m1}", "call": "solve#2", "x": []})
        return fails, checked, skipped, calls
    still_held("after SciPy ran solve#2")
    for k, p in enumerate((p0, p1, p0)):
        if fails:
            return fails, checked, skipped, calls
        judge(f"solve#2[{m1}, run by SciPy] new callable, call {k + 1}", jac2, hess2, p)
        judge(f"solve#2[{m1}, run by SciPy] OLD callable of solve#1, call {k + 1}", jac1, hess1, p)
    still_held("after solve#2")
    if fails:
        return fails, checked, skipped, calls
    fun3, jac3, hess3 = seam_minimize(prob, m2, really=False)
    if hess3 is None or jac3 is None:
        fail({"what": f"no hess / jac callable was handed to SciPy on the re-solve with {m2}", "call": "solve#3", "x": []})
        return fails, checked, skipped, calls
    for k, p in enumerate((p2, p0)):
        if fails:
            return fails, checked, skipped, calls
        judge(f"solve#3[{m2}] new callable, call {k + 1}", jac3, hess3, p)
        judge(f"solve#3[{m2}] OLD callable of solve#1, call {k + 1}", jac1, hess1, p)
    still_held("after solve#3")
    return fails, checked, skipped, calls


def solver_hess_failures(rng, thorough, rep=None, only_first=False):
    """quick: every member × {minimise, maximise} with the method pair and the constraint rotating; thorough / search:
    every member × sense × every method × with / without the widening constraint"""
    out = []
    n_members = len(solver_members(3))
    k = 0
    for mi in range(n_members):
        for si, sense in enumerate(("maximize", "minimize")):
            if thorough:
                combos = [(a, c) for a in range(len(SOLVER_METHODS)) for c in (False, True)]
            else:
                combos = [((mi + 2 * si + rng.randint(0, 4)) % len(SOLVER_METHODS), (mi + si) % 2 == 1)]
            for a, constrained in combos:
                methods = [SOLVER_METHODS[a], SOLVER_METHODS[(a + 1 + rng.randint(0, 3)) % len(SOLVER_METHODS)]]
                n = 3 + (mi + k) % 2
                k += 1
                pos = solver_members(n)[mi][1]
                points = [J.rand_x(rng, n, pos or rng.random() < 0.3) for _ in range(3)]
                fails, checked, skipped, calls = run_solver_history(mi, n, sense, constrained, methods, points)
                if rep is not None:
                    h = rep.histogram
                    h["solver_hess_histories"] = h.get("solver_hess_histories", 0) + 1
                    h["solver_hess_calls"] = h.get("solver_hess_calls", 0) + calls
                    h["solver_hess_entries"] = h.get("solver_hess_entries", 0) + checked
                    h["solver_hess:" + sense] = h.get("solver_hess:" + sense, 0) + 1
                    h["solver_hess:method=" + methods[0]] = h.get("solver_hess:method=" + methods[0], 0) + 1
                    if skipped:
                        rep.skipped["solver-hess-irregular-or-unstable-fd-point"] = \
                            rep.skipped.get("solver-hess-irregular-or-unstable-fd-point", 0) + skipped
                out.extend(fails[:1])
                if fails and only_first:
                    return out
                if fails:
                    break
    return out


def replay_solver_hess(f) -> bool:
    fails, checked, skipped, calls = run_solver_history(f["member"], f["n"], f["sense"], f["constrained"], f["methods"], f["points"])
    print("objective:", f.get("objective"), "sense:", f["sense"], "methods:", f["methods"], "constrained:", f["constrained"])
    print("hess calls:", calls, "entries checked:", checked, "points skipped:", skipped)
    for g in fails:
        print("FAIL:", {k: g[k] for k in g if k not in ("points",)})
    return not fails


def run(ctx) -> core.Report:
    rng = ctx["rng"]
    thorough = ctx["tier"] == "thorough" or ctx["escalate"]
    rep = core.Report(rule="every compile_hessian cell: VectorPowerSum (k = 1, 2, general incl. fractional / negative) and "
                           "VectorUnarySum (10 ops) × views × V ∈ {own, reversed, permuted, superset, interleaved, clones, "
                           "missing variable}; vector / matrix / scalar nodes on the general path; seeded random regular trees; "
                           "Parameters in every position × (differentiate at v0, Parameter.set, old + new Hessians at the current values). "
                           "non-trivial = distinct (expression, V) whose symbolic Hessian is not identically 0")
    J.AUDIT_SKIPPED.clear()
    del J.RETAINED[:]
    del J.RETAINED_FAILS[:]
    cases = cases_for(rng, thorough)
    for k, v in J.AUDIT_SKIPPED.items():
        rep.skipped[k] = rep.skipped.get(k, 0) + v
    lines, metas = [], []
    oracle_only = []
    for tag, e, V, U in cases:
        try:
            params = J.all_params([e])
            es_s, V_s, store = J.ser_case([e], V, params)
        except Unsupported as ex:
            rep.skipped["model-unsupported(oracle only):" + str(ex)] = rep.skipped.get("model-unsupported(oracle only):" + str(ex), 0) + 1
            oracle_only.append((tag, e, V))
            continue
        xs = J.rand_x(rng, len(V), rng.random() < 0.6)
        VV, X = J.plist(V_s), J.point_text(xs)
        idx = len(lines)
        lines.append(f"hessrows {es_s[0]} {VV}")
        lines.append(f"hesspath {es_s[0]} {VV}")
        lines.append(f"hessrun {es_s[0]} {VV} {X} {store}")
        metas.append((tag, e, V, xs, params, idx))
    outs = run_lean_unit(lines)
    rep.evaluations = len(metas)

    import optyx.core.autodiff as AD

    def mismatch(kind, tag, e, V, xs, params, impl, model):
        d = {"kind": kind, "tag": tag, "impl": str(impl)[:300], "model": str(model)[:300]}
        d.update(J.payload_of([e], V, xs, params))
        rep.corr_mismatches.append(d)

    for tag, e, V, xs, params, idx in metas:
        hk = tag.split("|")[0].split(":")[0]
        rep.histogram["node:" + hk] = rep.histogram.get("node:" + hk, 0) + 1
        x = np.array(xs, dtype=float)
        H = J.grab(lambda: AD.compute_hessian(e, V))
        h_impl = H if isinstance(H, str) else J.rows_text(H)
        if h_impl != outs[idx]:
            mismatch("hessrows", tag, e, V, xs, params, h_impl, outs[idx])
        if not isinstance(H, str) and any(Ser(with_ids=False).expr(a) != "(c 0)" for r in H for a in r):
            rep.nontrivial.add(hash((outs[idx], tuple(v.name for v in V))))
        fn = J.grab(lambda: AD.compile_hessian(e, V))
        p_impl = fn if isinstance(fn, str) else fn.__name__
        rep.histogram["path:" + p_impl] = rep.histogram.get("path:" + p_impl, 0) + 1
        if p_impl != outs[idx + 1]:
            mismatch("hesspath", tag, e, V, xs, params, p_impl, outs[idx + 1])
        covered = J.names_of([e]) <= {v.name for v in V}
        want = oracle_hessian(e, V, xs) if covered else None
        if want is not None and not isinstance(fn, str) and not outs[idx + 2].startswith("raise"):
            got = J.grab(lambda: np.asarray(fn(x), dtype=float))
            model = J.parse_nums(outs[idx + 2])
            n = len(V)
            ok = (not isinstance(got, str)) and got.shape == (n, n) and len(model) == n and \
                all(len(r) == n for r in model) and \
                all(J.close(float(got[i, j]), model[i][j]) for i in range(n) for j in range(n))
            if not ok:
                if isinstance(got, str) or well_conditioned(e, V, xs, want):
                    mismatch("hessrun", tag, e, V, xs, params, got if isinstance(got, str) else got.tolist(), model)
                else:
                    rep.skipped["ill-conditioned"] = rep.skipped.get("ill-conditioned", 0) + 1
        # oracle points: the point sent to the model, every sign pattern for the compositions, one further random
        # sign pattern for everything else
        if tag.startswith("comp:"):
            more = J.sign_points(rng, len(V))
        elif V and covered and "orders" not in tag:
            more = [[rng.choice((1.0, -1.0)) * rng.choice(J.MAGS) for _ in V]]
            if len(V) <= 4:
                more.append(J.wide_point(rng, len(V)))
        else:
            more = []
        for pt in [xs] + more:
            fails, checked, skipped = check_numeric(e, V, pt, with_symbolic=(pt is xs or tag.startswith("comp:")))
            rep.histogram["oracle_entries"] = rep.histogram.get("oracle_entries", 0) + checked
            rep.histogram["oracle_points"] = rep.histogram.get("oracle_points", 0) + 1
            if skipped:
                rep.skipped["irregular-or-ill-conditioned-point"] = rep.skipped.get("irregular-or-ill-conditioned-point", 0) + skipped
            for f in fails:
                f.update(J.payload_of([e], V, pt, params))
                f["tag"] = tag
                rep.oracle_failures.append(f)
        # call sequences on one compiled Hessian at regular points (answers must not depend on the call history)
        if V and covered and want is not None and (thorough or zlib.crc32(tag.encode()) % 3 == 0):
            q = J.rand_x(rng, len(V), True)
            sf, n_calls = J.check_sequences("hess", [e], V, J.light_sequences(xs, q, len(params)))
            rep.histogram["sequence_calls"] = rep.histogram.get("sequence_calls", 0) + n_calls
            for f in sf:
                if oracle_hessian(e, V, f["x"]) is not None:
                    f.update(J.payload_of([e], V, f["x"], params))
                    f["tag"] = tag
                    rep.oracle_failures.append(f)
                else:
                    rep.skipped["sequence-at-irregular-point"] = rep.skipped.get("sequence-at-irregular-point", 0) + 1
        if len(rep.samples) < 6 and len(outs[idx]) < 260 and outs[idx + 1] != "hessian_fn" and not outs[idx + 1].startswith("raise"):
            rep.samples.append({"tag": tag, "V": [v.name for v in V], "path": outs[idx + 1], "hessian": outs[idx]})
    # cases the Lean syntax cannot express (bool constants, …): property oracle only
    for tag, e, V in oracle_only:
        if not V or len(V) > 6:
            continue
        for pt in (J.rand_x(rng, len(V), True), J.rand_x(rng, len(V), False)):
            fails, checked, _ = check_numeric(e, V, pt)
            rep.histogram["oracle_entries"] = rep.histogram.get("oracle_entries", 0) + checked
            for f in fails:
                f["exprs_repr"] = [repr(e)[:200]]; f["V_names"] = [v.name for v in V]; f["x"] = pt; f["tag"] = tag
                rep.oracle_failures.append(f)
    J.recheck_retained()
    rep.oracle_failures.extend(J.RETAINED_FAILS)
    # Parameters in every position × differentiate / compile at v0, Parameter.set, old and new Hessians at the CURRENT values;
    # every fourth history with the recursion thresholds forced low (the explicit-stack differentiator has its own rules)
    rep.oracle_failures.extend(param_history_failures(rng, thorough, rep, forced_every=4))
    # the hess= callable solve_scipy hands to SciPy (minimise / maximise × Hessian methods), called repeatedly and across re-solves
    rep.oracle_failures.extend(solver_hess_failures(rng, thorough, rep))
    # a sample of the cells again with every recursion threshold forced low (explicit-stack differentiator / compiler)
    with J.forced_thresholds(2):
        for tag, e, V, xs, params, idx in metas[::(3 if thorough else 9)]:
            if not V or tag.startswith("deep") or len(V) > 5:
                continue
            fails, checked, _ = check_numeric(e, V, xs)
            rep.histogram["oracle_entries_thresholds_forced"] = rep.histogram.get("oracle_entries_thresholds_forced", 0) + checked
            for f in fails:
                f.update(J.payload_of([e], V, xs, params)); f["thresholds_forced"] = 2; f["tag"] = tag + "|threshold=2"
                rep.oracle_failures.append(f)
    return rep


def search(ctx, rep):
    rng = core.Rng(ctx["seed"] + 15485863)

    def probe(tag, e, V, points):
        for xs in points:
            fails, _, _ = check_numeric(e, V, xs)
            if fails:
                f = fails[0]
                try:
                    f.update(J.payload_of([e], V, xs, J.all_params([e])))
                except Unsupported:
                    return None
                f["tag"] = tag
                return f
        return None

    # (0) value-dependent decisions on Parameters: every member × start value × first-differentiation channel
    for rnd in range(2):
        found = param_history_failures(rng, True, None, only_first=True, forced_every=3)
        if found:
            return found[0]
    # (0b) the Hessian handed to SciPy: every member × sense × method × with / without the widening constraint
    found = solver_hess_failures(rng, True, None, only_first=True)
    if found:
        return found[0]
    # (1) rule / simplifier interaction family (powers of powers, functions of powers, …) at every sign pattern
    U = gen.Universe(rng)
    for tag, e in J.composition_exprs(U):
        own = sorted({v.name: v for v in gen.expr_vars(e)}.values(), key=lambda v: v.name)
        f = probe(tag, e, own, [p for _ in range(3) for p in J.sign_points(rng, len(own))])
        if f:
            return f
    # (2) the disagreeing cases of this run at many sign patterns
    seen = set()
    for mm in rep.corr_mismatches[:300]:
        key = (tuple(mm.get("exprs", [])), tuple(mm.get("V", [])))
        if "exprs" not in mm or key in seen:
            continue
        seen.add(key)
        try:
            es, V, _ = J.rebuild(mm)
        except Exception:  # noqa: BLE001
            continue
        f = probe(mm.get("tag", "mismatch"), es[0], V, [p for _ in range(4) for p in J.sign_points(rng, len(V))])
        if f:
            return f
    for rnd in range(4):
        for tag, e, V, U in cases_for(rng, True):
            for positive in (True, False):
                xs = J.rand_x(rng, len(V), positive)
                fails, _, _ = check_numeric(e, V, xs)
                if fails:
                    f = fails[0]
                    try:
                        f.update(J.payload_of([e], V, xs, J.all_params([e])))
                    except Unsupported:
                        continue
                    f["tag"] = tag
                    return f
    return None


def replay(payload) -> bool:
    f = payload["failure"]
    if f.get("kind") == "call-sequence":
        return J.replay_sequence(f)
    if f.get("kind") == "param-history":
        return replay_param_history(f)
    if f.get("kind") == "solver-hess":
        return replay_solver_hess(f)
    if "exprs" not in f:
        print("no serialisable expression (outside the Lean syntax):", {k: f[k] for k in f if k != "got"})
        return False
    es, V, xs = J.rebuild(f)
    if f.get("thresholds_forced") is not None:
        with J.forced_thresholds(int(f["thresholds_forced"])):
            fails, checked, skipped = check_numeric(es[0], V, xs)
    else:
        fails, checked, skipped = check_numeric(es[0], V, xs)
    print("entries checked:", checked, "skipped:", skipped)
    for g in fails:
        print("FAIL:", g)
    return not fails
