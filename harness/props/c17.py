"""C17 — symbolic and compiled Hessians are the true symmetric second derivatives; the diagonal
shortcuts for vectorised sums agree with the general path.

Tie:    (i)   compute_hessian(e, V) vs Py.computeHessian — structural, exact;
        (ii)  the closure compile_hessian returns (`__name__`) vs Py.compileHessian's path (incl. KeyError);
        (iii) numeric compile_hessian(e, V)(x) vs the model run over doubles (tolerance + guard).
Oracle: nested dual numbers (oracle.ref_hess) on the real compile_hessian output and on
        compute_hessian(e, V)[i][j].evaluate(point) at regular points, for V permuted / superset;
        exact symmetry H == H.T; fast path == general path (the node wrapped as `e + 0`).
"""
from __future__ import annotations

import math
import zlib

import numpy as np

import core
import gen
import oracle
from ser import Ser, Unsupported
from props import c03 as J

LEAN_MODULE = "Optyx.Props.C17"
EXTRA_MODULES = ["Optyx.Props.PinsC17", "Optyx.Props.BuildTie"]   # transcription anchors (harness/source_pins.py)
THEOREMS = [
    "Optyx.Props.Closures.closureTables_agree",
    "Optyx.Props.Closures.sanitizeShape_agrees",
    "Optyx.Props.C17.hess_entries",
    "Optyx.Props.C17.compileHessian_general_entries",
    "Optyx.Props.C17.compileHessian_symm",
    "Optyx.Props.C17.hessFast_eq_general",
    "Optyx.Props.C17.hess_second_partial",
    "Optyx.Props.C17.hess_second_partial_partial",
    "Optyx.Props.C17.hess_symmetric",
    "Optyx.Props.C17.compileHessian_entries",
    "Optyx.Props.C17.compileHessian_true_second_partial",
    "Optyx.Props.BuildTie.compile_step",
    "Optyx.Props.BuildTie.compileVec_step",
    "Optyx.Props.PinsC17.anchors",
]
ASSUMPTIONS = [
    "second derivatives are stated relative to Py.grad (∂/∂V_j of the expression Py.grad V_i e); turning them into the "
    "true mixed partials needs C02 twice (hess_second_partial, stated, see the Lean file for what is proved)",
    "V has pairwise distinct names and contains every variable; vector elements are distinct; x has len(V) entries",
    "equality of the mirrored lower triangle with the derivative in the other order is proved (hess_symmetric: C² on two-variable slices + Mathlib's Schwarz theorem)",
    "float rounding is not modelled",
]

run_lean_unit = J.run_lean_unit


def hess_nodes(rng, U):
    from optyx.core import vectors as Vc
    from optyx.core import matrices as Mx
    from optyx.core.functions import sin, exp, log, sqrt

    x, y, w, M, S = U.x, U.y, U.w, U.M, U.S
    a, b = U.scalars[0], U.scalars[1]
    views = [("x", x), ("x[0:2]", x[0:2]), ("w[1:4]", w[1:4]), ("w[0:5:2]", w[0:5:2]), ("x[::-1]", x[::-1]), ("Srow", S[1, :])]
    nodes = []
    for vn, v in views:
        for k in (1, 2, 3, 0.5, -1, 2.5, 0, 4, -2):
            nodes.append((f"ps{k}:{vn}", Vc.VectorPowerSum(v, k)))
        for op in gen.VOPS:
            nodes.append((f"us{op}:{vn}", Vc.VectorUnarySum(v, op)))
    Q = np.array([[1.0, 2.0, 0.0], [0.5, 1.0, -1.0], [0.0, 3.0, 2.0]])
    nodes += [
        ("dot:x.x", Vc.DotProduct(x, x)), ("dot:x.y", Vc.DotProduct(x, y)), ("dot:w[0:3].w[1:4]", Vc.DotProduct(w[0:3], w[1:4])),
        ("qf:x", Mx.QuadraticForm(x, Q)), ("qf:ve", Mx.QuadraticForm(x * y, Q)), ("l2:x", Vc.L2Norm(x)),
        ("l2:ve", Vc.L2Norm(x + 1.0)), ("l1:x", Vc.L1Norm(x)), ("lc:x", Vc.LinearCombination(np.array([1.0, -2.0, 0.5]), x)),
        ("lc:ve", Vc.LinearCombination(np.array([1.0, -2.0, 0.5]), x * x)), ("vs:x", x.sum()), ("es:x*y", (x * y).sum()),
        ("msv:S", S.sum()), ("mse:S*S", (S * S).sum()), ("fro:M", Mx.FrobeniusNorm(M)), ("fro:S", Mx.FrobeniusNorm(S)),
        ("sc:ab", a * b), ("sc:a2b", a * a * b + sin(a) * b), ("sc:exp", exp(a * b)), ("sc:log", log(a * a + 1.0) * b),
        ("sc:sqrt", sqrt(a * a + b * b + 1.0)), ("sc:pow", (a * a + 1.0) ** 2.5), ("sc:div", a / (b * b + 1.0)),
        ("sc:powvar", (a * a + 1.0) ** b), ("sc:lin", 2.0 * a - b), ("sc:param", U.params[0] * a * a),
        ("sc:x0", x[0] ** 3 + x[0] * x[1]),
    ]
    return nodes


def cases_for(rng, thorough):
    cases = []
    U = gen.Universe(rng)
    for tag, node in hess_nodes(rng, U):
        own = J.own_vars(node)
        orders = J.v_orders(rng, own, U, tag)
        if not tag.startswith(("ps", "us")):
            keep = {"own", "perm", "super-before", "interleaved", "clones"}
            orders = [(t, V) for t, V in orders if t.split("|")[1] in keep]
        for vt, V in orders:
            cases.append((vt, node, V, U))
        # the solver compiles the Hessian of the *negated* objective for maximisation (scipy_solver.py)
        cases.append((tag + "|negated", -node, list(own), U))
    # audit families shared with c03 (dimension checklist): root wrappers in every operator form around every node —
    # compile_hessian dispatches on the ROOT node, so `c − f`, `k·(c − f)`, `−(c − k·f)`, `f / k`, … must all reach the same
    # second derivatives —, every operand kind (views of views, symmetric blocks, matrix–vector products), magnitudes and
    # numeric types of stored numbers, names, depth
    base_nodes = hess_nodes(rng, U)
    anodes, askip = J.audit_nodes(rng, U)
    J.AUDIT_SKIPPED.update(askip)
    anodes = [(t, nd) for t, nd in anodes if len(J.own_vars(nd)) <= 6]
    for tag, node in anodes:
        own = J.own_vars(node)
        cases.append((f"{tag}|own", node, list(own), U))
        if zlib.crc32(tag.encode()) % 2 == 0:
            cases.append((f"{tag}|rev+extra", node, [U.scalars[2]] + list(reversed(own)), U))
    wr = J.wrappers(U)[1:] + J.extended_wrappers(U)
    for ni, (tag, node) in enumerate(base_nodes + anodes):
        own = J.own_vars(node)
        vector_sum = tag.startswith(("ps", "us"))
        for wi, (wn, wf) in enumerate(wr):
            if (ni + wi) % ((2 if vector_sum else 6) if thorough else (6 if vector_sum else 24)) != 0:
                continue
            try:
                cases.append((f"{tag}|wrap:{wn}", wf(node), list(own), U))
            except Exception as ex:  # noqa: BLE001
                J.AUDIT_SKIPPED[f"wrapper:{type(ex).__name__}"] = J.AUDIT_SKIPPED.get(f"wrapper:{type(ex).__name__}", 0) + 1
    for tag, es, V in J.names_universe():
        if len(V) <= 8 or thorough:
            cases.append(("|".join(tag.split("|")[:2]), es[0], V, U))
    for tag, es, V in J.deep_cases(U, (399, 400, 401)):
        if "const-left" in tag or thorough:
            cases.append(("|".join(tag.split("|")[:2]), es[0], V, U))
    for tag, e in J.composition_exprs(U):
        own = sorted({v.name: v for v in gen.expr_vars(e)}.values(), key=lambda v: v.name)
        cases.append((f"{tag}|own", e, own, U))
        if "powpow" in tag and zlib.crc32(tag.encode()) % 2 == 0:
            cases.append((f"{tag}|super-rev", e, [U.scalars[2]] + list(reversed(own)), U))
    for tag, es, V, U2 in J.order_cover_cases(U, "hess"):
        if tag.split("|")[1] == "orders120" and not (tag.startswith(("ps3", "uslog", "uscos")) or thorough):
            continue
        cases.append(("|".join(tag.split("|")[:2]), es[0], V, U2))
    n_rand = 4000 if thorough else 150
    for i in range(n_rand):
        U = gen.Universe(rng)
        e = gen.rand_expr(rng, U, rng.randint(1, 4 if thorough else 3), safe=True)
        own = gen.expr_vars(e)
        if not own:
            continue
        if len(own) > 5:
            continue
        rng.shuffle(own)
        r = rng.random()
        if r < 0.4:
            V = own
        elif r < 0.8:
            extra = [v for v in U.all_vars() if v.name not in {o.name for o in own}]
            rng.shuffle(extra)
            V = own + extra[:rng.randint(1, 2)]
            rng.shuffle(V)
        else:
            V = J.clone_vars(own)
        cases.append(("rand|safe", e, V, U))
    return cases


def real_hessian(e, V):
    import optyx.core.autodiff as AD

    return AD.compile_hessian(e, V)


def oracle_hessian(e, V, xs):
    point = {v.name: float(a) for v, a in zip(V, xs)}
    n = len(V)
    try:
        if not J.model_regular(e, point):
            return None
        H = [[oracle.ref_hess(e, point, V[i].name, V[j].name) for j in range(n)] for i in range(n)]
    except (oracle.NotRegular, OverflowError, ZeroDivisionError, ValueError, KeyError):
        return None
    if not all(math.isfinite(a) and abs(a) < 1e8 for r in H for a in r):
        return None
    return H


def well_conditioned(e, V, xs, H):
    try:
        xs2 = [float(a) * (1 + 1e-9) + 1e-12 for a in xs]
        H2 = oracle_hessian(e, V, xs2)
        if H2 is None or not all(oracle.close(a, b, rtol=1e-4, atol=1e-9) for r, s in zip(H, H2) for a, b in zip(r, s)):
            return False
        # second reference: central differences of the dual-number gradient; where the two references disagree, double
        # precision is the limit and the point is no witness
        point = {v.name: float(a) for v, a in zip(V, xs)}
        for j, vj in enumerate(V):
            h = 1e-5 * max(1.0, abs(point[vj.name]))
            pp, pm = dict(point), dict(point)
            pp[vj.name] += h; pm[vj.name] -= h
            for i, vi in enumerate(V):
                fd = (oracle.ref_grad(e, pp, vi.name) - oracle.ref_grad(e, pm, vi.name)) / (2 * h)
                if not oracle.close(H[i][j], fd, rtol=1e-3, atol=1e-8):
                    return False
        return True
    except Exception:  # noqa: BLE001
        return False


def check_numeric(e, V, xs, with_symbolic=True):
    """property oracle on the real code. returns (failures, entries_checked, skipped)"""
    import optyx.core.autodiff as AD

    if not (J.names_of([e]) <= {v.name for v in V}) or len({v.name for v in V}) != len(V):
        return [], 0, 0
    want = oracle_hessian(e, V, xs)
    if want is None:
        return [], 0, 1
    x = np.array(xs, dtype=float)
    n = len(V)
    fn = J.grab(lambda: real_hessian(e, V))
    if isinstance(fn, str):
        return [{"what": f"compile_hessian raised {fn[6:]} although V contains every variable"}], 0, 0
    got = J.grab(lambda: np.asarray(fn(x), dtype=float))
    if isinstance(got, str) or got.shape != (n, n):
        return [{"what": f"compiled Hessian failed / wrong shape: {got if isinstance(got, str) else got.shape}",
                 "path": fn.__name__}], 0, 0
    fails, checked = [], 0
    if not np.array_equal(got, got.T):
        fails.append({"what": "compiled Hessian is not symmetric", "path": fn.__name__, "got": got.tolist()})
    routes = {"compile_hessian:" + fn.__name__: got}
    # the general path on the same function: wrap the node so that no isinstance fast path matches
    gen_fn = J.grab(lambda: real_hessian(e + 0.0, V))
    if not isinstance(gen_fn, str):
        gg = J.grab(lambda: np.asarray(gen_fn(x), dtype=float))
        if not isinstance(gg, str) and gg.shape == (n, n):
            routes["general-path(e+0):" + gen_fn.__name__] = gg
    if with_symbolic:
        point = {v.name: float(a) for v, a in zip(V, xs)}
        Hs = J.grab(lambda: AD.compute_hessian(e, V))
        if isinstance(Hs, str):
            fails.append({"what": f"compute_hessian raised {Hs[6:]}"})
        else:
            ev = J.grab(lambda: np.array([[float(np.asarray(Hs[i][j].evaluate(point))) for j in range(n)] for i in range(n)]))
            if not isinstance(ev, str):
                routes["compute_hessian.evaluate"] = ev
    bad = None
    for rn, vals in routes.items():
        for i in range(n):
            for j in range(n):
                checked += 1
                if not oracle.close(float(vals[i, j]), want[i][j], rtol=1e-6, atol=1e-7):
                    bad = {"what": "Hessian entry differs from the true second partial derivative", "route": rn,
                           "i": i, "j": j, "vi": V[i].name, "vj": V[j].name, "got": float(vals[i, j]), "want": want[i][j]}
                    break
            if bad:
                break
        if bad:
            break
    if bad:
        if well_conditioned(e, V, xs, want):
            fails.append(bad)
        else:
            return fails, checked, 1
    return fails, checked, 0


def run(ctx) -> core.Report:
    rng = ctx["rng"]
    thorough = ctx["tier"] == "thorough" or ctx["escalate"]
    rep = core.Report(rule="every compile_hessian cell: VectorPowerSum (k = 1, 2, general incl. fractional / negative) and "
                           "VectorUnarySum (10 ops) × views × V ∈ {own, reversed, permuted, superset, interleaved, clones, "
                           "missing variable}; vector / matrix / scalar nodes on the general path; seeded random regular trees. "
                           "non-trivial = distinct (expression, V) whose symbolic Hessian is not identically 0")
    J.AUDIT_SKIPPED.clear()
    del J.RETAINED[:]
    del J.RETAINED_FAILS[:]
    cases = cases_for(rng, thorough)
    for k, v in J.AUDIT_SKIPPED.items():
        rep.skipped[k] = rep.skipped.get(k, 0) + v
    lines, metas = [], []
    oracle_only = []
    for tag, e, V, U in cases:
        try:
            params = J.all_params([e])
            es_s, V_s, store = J.ser_case([e], V, params)
        except Unsupported as ex:
            rep.skipped["model-unsupported(oracle only):" + str(ex)] = rep.skipped.get("model-unsupported(oracle only):" + str(ex), 0) + 1
            oracle_only.append((tag, e, V))
            continue
        xs = J.rand_x(rng, len(V), rng.random() < 0.6)
        VV, X = J.plist(V_s), J.point_text(xs)
        idx = len(lines)
        lines.append(f"hessrows {es_s[0]} {VV}")
        lines.append(f"hesspath {es_s[0]} {VV}")
        lines.append(f"hessrun {es_s[0]} {VV} {X} {store}")
        metas.append((tag, e, V, xs, params, idx))
    outs = run_lean_unit(lines)
    rep.evaluations = len(metas)

    import optyx.core.autodiff as AD

    def mismatch(kind, tag, e, V, xs, params, impl, model):
        d = {"kind": kind, "tag": tag, "impl": str(impl)[:300], "model": str(model)[:300]}
        d.update(J.payload_of([e], V, xs, params))
        rep.corr_mismatches.append(d)

    for tag, e, V, xs, params, idx in metas:
        hk = tag.split("|")[0].split(":")[0]
        rep.histogram["node:" + hk] = rep.histogram.get("node:" + hk, 0) + 1
        x = np.array(xs, dtype=float)
        H = J.grab(lambda: AD.compute_hessian(e, V))
        h_impl = H if isinstance(H, str) else J.rows_text(H)
        if h_impl != outs[idx]:
            mismatch("hessrows", tag, e, V, xs, params, h_impl, outs[idx])
        if not isinstance(H, str) and any(Ser(with_ids=False).expr(a) != "(c 0)" for r in H for a in r):
            rep.nontrivial.add(hash((outs[idx], tuple(v.name for v in V))))
        fn = J.grab(lambda: AD.compile_hessian(e, V))
        p_impl = fn if isinstance(fn, str) else fn.__name__
        rep.histogram["path:" + p_impl] = rep.histogram.get("path:" + p_impl, 0) + 1
        if p_impl != outs[idx + 1]:
            mismatch("hesspath", tag, e, V, xs, params, p_impl, outs[idx + 1])
        covered = J.names_of([e]) <= {v.name for v in V}
        want = oracle_hessian(e, V, xs) if covered else None
        if want is not None and not isinstance(fn, str) and not outs[idx + 2].startswith("raise"):
            got = J.grab(lambda: np.asarray(fn(x), dtype=float))
            model = J.parse_nums(outs[idx + 2])
            n = len(V)
            ok = (not isinstance(got, str)) and got.shape == (n, n) and len(model) == n and \
                all(len(r) == n for r in model) and \
                all(J.close(float(got[i, j]), model[i][j]) for i in range(n) for j in range(n))
            if not ok:
                if isinstance(got, str) or well_conditioned(e, V, xs, want):
                    mismatch("hessrun", tag, e, V, xs, params, got if isinstance(got, str) else got.tolist(), model)
                else:
                    rep.skipped["ill-conditioned"] = rep.skipped.get("ill-conditioned", 0) + 1
        # oracle points: the point sent to the model, every sign pattern for the compositions, one further random
        # sign pattern for everything else
        if tag.startswith("comp:"):
            more = J.sign_points(rng, len(V))
        elif V and covered and "orders" not in tag:
            more = [[rng.choice((1.0, -1.0)) * rng.choice(J.MAGS) for _ in V]]
            if len(V) <= 4:
                more.append(J.wide_point(rng, len(V)))
        else:
            more = []
        for pt in [xs] + more:
            fails, checked, skipped = check_numeric(e, V, pt, with_symbolic=(pt is xs or tag.startswith("comp:")))
            rep.histogram["oracle_entries"] = rep.histogram.get("oracle_entries", 0) + checked
            rep.histogram["oracle_points"] = rep.histogram.get("oracle_points", 0) + 1
            if skipped:
                rep.skipped["irregular-or-ill-conditioned-point"] = rep.skipped.get("irregular-or-ill-conditioned-point", 0) + skipped
            for f in fails:
                f.update(J.payload_of([e], V, pt, params))
                f["tag"] = tag
                rep.oracle_failures.append(f)
        # call sequences on one compiled Hessian at regular points (answers must not depend on the call history)
        if V and covered and want is not None and (thorough or zlib.crc32(tag.encode()) % 3 == 0):
            q = J.rand_x(rng, len(V), True)
            sf, n_calls = J.check_sequences("hess", [e], V, J.light_sequences(xs, q, len(params)))
            rep.histogram["sequence_calls"] = rep.histogram.get("sequence_calls", 0) + n_calls
            for f in sf:
                if oracle_hessian(e, V, f["x"]) is not None:
                    f.update(J.payload_of([e], V, f["x"], params))
                    f["tag"] = tag
                    rep.oracle_failures.append(f)
                else:
                    rep.skipped["sequence-at-irregular-point"] = rep.skipped.get("sequence-at-irregular-point", 0) + 1
        if len(rep.samples) < 6 and len(outs[idx]) < 260 and outs[idx + 1] != "hessian_fn" and not outs[idx + 1].startswith("raise"):
            rep.samples.append({"tag": tag, "V": [v.name for v in V], "path": outs[idx + 1], "hessian": outs[idx]})
    # cases the Lean syntax cannot express (bool constants, …): property oracle only
    for tag, e, V in oracle_only:
        if not V or len(V) > 6:
            continue
        for pt in (J.rand_x(rng, len(V), True), J.rand_x(rng, len(V), False)):
            fails, checked, _ = check_numeric(e, V, pt)
            rep.histogram["oracle_entries"] = rep.histogram.get("oracle_entries", 0) + checked
            for f in fails:
                f["exprs_repr"] = [repr(e)[:200]]; f["V_names"] = [v.name for v in V]; f["x"] = pt; f["tag"] = tag
                rep.oracle_failures.append(f)
    J.recheck_retained()
    rep.oracle_failures.extend(J.RETAINED_FAILS)
    # a sample of the cells again with every recursion threshold forced low (explicit-stack differentiator / compiler)
    with J.forced_thresholds(2):
        for tag, e, V, xs, params, idx in metas[::(3 if thorough else 9)]:
            if not V or tag.startswith("deep") or len(V) > 5:
                continue
            fails, checked, _ = check_numeric(e, V, xs)
            rep.histogram["oracle_entries_thresholds_forced"] = rep.histogram.get("oracle_entries_thresholds_forced", 0) + checked
            for f in fails:
                f.update(J.payload_of([e], V, xs, params)); f["thresholds_forced"] = 2; f["tag"] = tag + "|threshold=2"
                rep.oracle_failures.append(f)
    return rep


def search(ctx, rep):
    rng = core.Rng(ctx["seed"] + 15485863)

    def probe(tag, e, V, points):
        for xs in points:
            fails, _, _ = check_numeric(e, V, xs)
            if fails:
                f = fails[0]
                try:
                    f.update(J.payload_of([e], V, xs, J.all_params([e])))
                except Unsupported:
                    return None
                f["tag"] = tag
                return f
        return None

    # (1) rule / simplifier interaction family (powers of powers, functions of powers, …) at every sign pattern
    U = gen.Universe(rng)
    for tag, e in J.composition_exprs(U):
        own = sorted({v.name: v for v in gen.expr_vars(e)}.values(), key=lambda v: v.name)
        f = probe(tag, e, own, [p for _ in range(3) for p in J.sign_points(rng, len(own))])
        if f:
            return f
    # (2) the disagreeing cases of this run at many sign patterns
    seen = set()
    for mm in rep.corr_mismatches[:300]:
        key = (tuple(mm.get("exprs", [])), tuple(mm.get("V", [])))
        if "exprs" not in mm or key in seen:
            continue
        seen.add(key)
        try:
            es, V, _ = J.rebuild(mm)
        except Exception:  # noqa: BLE001
            continue
        f = probe(mm.get("tag", "mismatch"), es[0], V, [p for _ in range(4) for p in J.sign_points(rng, len(V))])
        if f:
            return f
    for rnd in range(4):
        for tag, e, V, U in cases_for(rng, True):
            for positive in (True, False):
                xs = J.rand_x(rng, len(V), positive)
                fails, _, _ = check_numeric(e, V, xs)
                if fails:
                    f = fails[0]
                    try:
                        f.update(J.payload_of([e], V, xs, J.all_params([e])))
                    except Unsupported:
                        continue
                    f["tag"] = tag
                    return f
    return None


def replay(payload) -> bool:
    f = payload["failure"]
    if f.get("kind") == "call-sequence":
        return J.replay_sequence(f)
    if "exprs" not in f:
        print("no serialisable expression (outside the Lean syntax):", {k: f[k] for k in f if k != "got"})
        return False
    es, V, xs = J.rebuild(f)
    if f.get("thresholds_forced") is not None:
        with J.forced_thresholds(int(f["thresholds_forced"])):
            fails, checked, skipped = check_numeric(es[0], V, xs)
    else:
        fails, checked, skipped = check_numeric(es[0], V, xs)
    print("entries checked:", checked, "skipped:", skipped)
    for g in fails:
        print("FAIL:", g)
    return not fails
